# Per-property configuration of the driver (./check). For each unit:
#   test    Go test function      kind   rapid | enum
#   checks  (quick, thorough) total rapid cases over all shards
#   shards  (quick, thorough)     timeout (quick, thorough) seconds per process
CHECKS = {
    "C13": dict(
        pkg="p_ackq", level="exploration",
        technique="model-based property testing: small-scope exhaustive enumeration + rapid random histories against a list model",
        level_text=("Every operation sequence up to depth 5 (quick) / 7 (thorough) over 3 identifiers and 11 operations is executed "
                    "against each of the five identifier-keyed queues and compared with a FIFO list model (ids, order, exactly-once, "
                    "byte-identical request/ack copies, callback identity), plus all ping-slot sequences; long random histories with "
                    "hundreds of in-flight entries cover growth and index wrap-around. Bounded exhaustive + sampling, not a proof."),
        level_note=("Trusted: the list model in harness/p_ackq (written from the statement), the harness' own packet byte builders. "
                    "Assumes acks per id follow protocol stage order and at most one outstanding ping. Queues reached through sessions.Session.Init."),
        rule=("unit exhaustive: every op sequence of the stated depth over ids {1,2,3} and 11 ops per id-keyed queue role "
              "(+ all ping-slot sequences), each on a fresh Session, distinct by construction, non-trivial = some entry was "
              "terminally acknowledged while an earlier one was not (head-of-line); unit random: rapid-generated histories "
              "(up to ~640 in flight, id reuse, random/FIFO/LIFO ack order), non-trivial = head-of-line case or the queue grew "
              "while its head index was not 0, distinct = FNV-64 of the history's JSON"),
        assumptions=["acks per identifier follow the protocol's stage order (duplicates of the same stage only)",
                     "at most one PINGREQ outstanding (single unnumbered ping slot)",
                     "oracle is a list model written from the property statement; request/ack bytes are built by the harness, not by the library encoder"],
        units=[
            dict(name="exhaustive", test="TestExhaustive", kind="enum", shards=(4, 14), timeout=(200, 1500)),
            dict(name="random", test="TestRandom", kind="rapid", checks=(2000, 150000), shards=(4, 14), timeout=(200, 1500)),
        ]),
}

# Properties not claimed (MANIFEST.not_applicable) with the reason.
NOT_CLAIMED = {}
