# Per-property configuration of the driver (./check). For each unit:
#   test    Go test function      kind   rapid | enum
#   checks  (quick, thorough) total rapid cases over all shards
#   shards  (quick, thorough)     timeout (quick, thorough) seconds per process
CHECKS = {
    "C05": dict(
        pkg="p_broker", level="fault_enumeration",
        technique="grammar-then-mutate fuzzing of attacker byte streams and end causes against a broker with a witness publisher/subscriber pair; a forced teardown-vs-delivery interleaving through a yield hook",
        level_text=("1-3 attacker connections send a valid session (CONNECT, SUBSCRIBE - often to the witness topic -, PUBLISHes) mutated in one of 13 ways (cut anywhere, bit flips, wrong first packet, garbage "
                    "before/after CONNECT, cut bodies, corrupted/huge/5-byte remaining lengths before and after CONNECT, packets larger than the ring or between size-8192 and size, reserved and server-only "
                    "types, malformed request bodies) and end by close, stall+close or silence, while a witness publisher sends numbered messages to a witness subscriber. Afterwards: no panic escaped a "
                    "connection handler, both witness connections still answer PINGREQ, and the witness subscriber holds exactly the witness sequence, in order, byte-identical. Unit trap parks a witness "
                    "delivery addressed to the attacker at writeMessage.enter until the attacker's teardown has finished (the window named by the property). Unit victim addresses the offender's valid PUBLISH packets (up to exactly the packet size limit) to a victim, parks the delivery of one of them at writeMessage.enter while the offender goes on sending (garbage, zeros, 0xff, or up to three rings of valid PINGREQs) and possibly closes: the victim must receive the accepted messages byte-identical, at least up to the parked one, and keep answering. Unit child runs the broker in a child process with a 6 GiB address-space limit and no recover around the connection handler (as in production) and sends first packets that declare huge remaining lengths (5-byte encodings up to 32 GiB, the 256 MiB protocol maximum on six connections at once, a length that never terminates): the process must stay alive and the witness pair keep working. Fault classes are enumerated by kind; inputs within a class are sampled."),
        level_note=("Trusted: harness/ref/codec, the witness oracle, the teardown-done hook and the yield hook writeMessage.enter. Pre-CONNECT declared remaining lengths above 1 MiB are capped "
                    "in the in-process units (the code allocates the declared size up front; capped streams are counted as class +capped) and exercised in unit child only; hangs are judged at quiescence only."),
        rule=("rapid-generated scenarios; non-trivial = the attacker stream contains a malformed/cut packet (or the forced teardown window) and the witness exchanged >= 10 messages spanning the attack; distinct = FNV-64 of the scenario JSON"),
        assumptions=["ConnectTimeout 1 s", "the broker process dying is observed as a panic escaping the connection handler goroutine (no recover there in production)"],
        units=[
            dict(name="streams", test="TestC05Streams", checks=(300, 20000), shards=(4, 14), timeout=(240, 3000)),
            dict(name="trap", test="TestC05Trap", checks=(200, 40000), shards=(2, 8), timeout=(240, 3000)),
            dict(name="victim", test="TestC05Victim", checks=(300, 60000), shards=(4, 14), timeout=(240, 3000)),
            dict(name="child", test="TestC05Child", kind="enum", shards=(2, 4), timeout=(240, 600)),
            dict(name="delivery-windows", test="TestC05DeliveryWindows", checks=(400, 80000), shards=(4, 14), timeout=(240, 3000)),
        ]),

    "C06": dict(
        pkg="p_topics", level="exploration",
        technique="small-scope exhaustive enumeration + rapid model-based histories against an independent section-4.7 matcher; variant-oracle signatures for known findings",
        level_text=("Exhaustive: all 780 filter strings of 1-4 levels over {a,b,'',+,#} x all 119 names of 1-4 levels over {a,b,''} x publish QoS x subscription QoS on a fresh provider, plus all "
                    "ordered pairs of valid filters of <= 3 levels subscribed by two subscribers with one removed and one re-subscribed; random histories of subscribe / re-subscribe / "
                    "unsubscribe / invalid filter / retain / clear with 3-6 subscribers, compared after every operation on a probe set of names and filters with a map model using the reference "
                    "matcher. Complete for the stated small scope, sampling beyond it."),
        level_note=("Trusted: harness/ref/match (written from section 4.7, cross-checked against a second formulation over the whole small scope) and the map model. Only Subscribe's return value "
                    "is asserted; names/filters starting with '$' are never generated. Known findings are excluded by variant oracles that reproduce exactly the recorded wrong behaviour."),
        rule=("unit exhaustive: enumerated (filter, name, pq, sq) and pair scenarios, distinct by construction, non-trivial = the filter contains a wildcard or an empty level; unit histories: "
              "rapid-generated op lists, non-trivial = an effective unsubscribe or QoS replacement whose filter matches a probe name, distinct = FNV-64 of the history JSON"),
        assumptions=["subscriber identities are distinct pointers", "order of reported subscribers / retained messages is not asserted"],
        units=[
            dict(name="exhaustive", test="TestExhaustive", kind="enum", shards=(4, 14)),
            dict(name="histories", test="TestHistories", checks=(3000, 300000), shards=(4, 14), timeout=(240, 3000)),
        ]),

    "C07": dict(
        pkg="p_broker", level="exploration",
        technique='model-based property testing of generated SUBSCRIBE/UNSUBSCRIBE requests (1-12 filters, invalid/repeated/overlapping filters, out-of-range QoS) against a real broker, cut at barriers; plus harness-scheduled windows (the processor is held inside a subscription-store call while another client publishes)',
        level_text="Each generated SUBSCRIBE must be answered before the next PINGRESP by exactly one SUBACK with the request's identifier and one return code per listed filter (granted QoS for valid filters, 0x80 or a QoS for rejected ones) unless the broker closes the connection; each UNSUBSCRIBE by exactly one UNSUBACK; publishes placed before and after the acknowledgements check that every listed filter took effect (delivered after SUBACK, not delivered after UNSUBACK) using the routing oracle of C01. Sampling.",
        level_note='Trusted: harness/ref/match, harness/ref/codec (strict parsing of every received byte), the reference model in harness/p_broker/model.go, and the barrier argument (a PINGRESP proves that everything the broker did for earlier packets of that client is committed). Known finding empty-level is excluded by a variant model run in lock-step.',
        rule='rapid-generated plans; non-trivial = a request with >= 4 filters or with an invalid filter/QoS, or an unsubscribe of a held filter followed by deliveries that distinguish the outcome; distinct = FNV-64 of the plan JSON',
        assumptions=["unit sequential: 'takes effect at the ack' is judged for publishes sent after the ack was read", "unit ack-timing: the window between acknowledgement and effect is probed at the calls into the subscription store only (before/after each Subscribe/Unsubscribe call of the request), with one concurrent publisher"],
        units=[dict(name="sequential", test="TestC07", checks=(6000, 600000), shards=(4, 14), timeout=(240, 3000)),
               dict(name="ack-timing", test="TestC07Ack", checks=(1200, 120000), shards=(4, 14), timeout=(240, 3000)),
               dict(name="fanout-churn", test="TestC07Churn", checks=(2000, 150000), shards=(4, 14), timeout=(240, 3000))]),

    "C08": dict(
        pkg="p_broker", level="exploration",
        technique='model-based property testing of retained/clearing publishes and later subscriptions against a reference retained store, with filler traffic overwriting the network buffers; plus harness-scheduled concurrent subscribers (processors parked at each packet write, released in generated order) with retained updates in between',
        level_text="Generated histories of retained, non-retained and empty-payload publishes on parent/child topics (by raw clients and Server.Publish), later subscriptions with literal and wildcard filters, reconnects and >= 1 ring of filler traffic through the publisher's connection: every new subscription must receive, before the next PINGRESP, exactly the retained messages matching its filters (1..k copies for k listed matching filters) with retain flag 1, QoS min(stored, granted) and byte-identical payload; live forwards must carry retain flag 0. Sampling.",
        level_note='Trusted: harness/ref/match, harness/ref/codec (strict parsing of every received byte), the reference model in harness/p_broker/model.go, and the barrier argument (a PINGRESP proves that everything the broker did for earlier packets of that client is committed). Known finding empty-level is excluded by a variant model run in lock-step.',
        rule='rapid-generated plans; non-trivial = a subscription received retained messages in a plan that also has a retained replacement, a clear or >= 1 ring of filler; distinct = FNV-64 of the plan JSON',
        assumptions=['the retain flag of deliveries to in-process callbacks (Server.Subscribe) is not judged: the callback sees the message object as published', 'unit sequential: one request at a time', 'unit retained-concurrent: 2-3 subscribers and one updating publisher; the schedule is varied at packet-write granularity (yield writeMessage.enter), not inside the retained store'],
        units=[dict(name="sequential", test="TestC08", checks=(6000, 500000), shards=(4, 14), timeout=(240, 3000)),
               dict(name="retained-concurrent", test="TestC08RetConc", checks=(1600, 300000), shards=(4, 14), timeout=(240, 3000)),
               dict(name="update-windows", test="TestC08Windows", checks=(1600, 200000), shards=(4, 14), timeout=(240, 3000))]),

    "C09": dict(
        pkg="p_broker", level="exploration",
        technique='model-based property testing of connection generations with wills (QoS, retain, payload sizes incl. 0 and 64 KiB-1) ended by DISCONNECT, abrupt close or protocol error, observed by a witness subscriber; plus a harness-scheduled reconnect of the same client identifier while the will of the ending connection is still being handed on',
        level_text="Generated sequences of CONNECT (with/without will, CleanSession 0/1) and connection ends over 1-3 client identifiers; after the teardown-done event of the ended connection the witness (subscribed to '#' at QoS 2) is cut: it must have received exactly one PUBLISH with the ending connection's own will topic/payload/QoS (retain flag 0 live, retained store updated iff will-retain) for abnormal ends and nothing after a DISCONNECT packet; never a will of an earlier generation. Sampling.",
        level_note='Trusted: harness/ref/match, harness/ref/codec (strict parsing of every received byte), the reference model in harness/p_broker/model.go, and the barrier argument (a PINGRESP proves that everything the broker did for earlier packets of that client is committed). Known finding empty-level is excluded by a variant model run in lock-step.',
        rule='rapid-generated plans; non-trivial = a will became due on a resumed session (an earlier generation of the id existed) or a held will was suppressed by DISCONNECT; distinct = FNV-64 of the plan JSON',
        assumptions=['keep-alive expiry as a cause of connection end is covered by C19', 'unit sequential: one live connection per client identifier; wills fit the buffers of the connections they are delivered to (BufferSize - 8192)', 'unit will-vs-reconnect: the reconnect is placed while the delivery of the will to one chosen subscriber is parked; other moments of the teardown are not varied'],
        units=[dict(name="sequential", test="TestC09", checks=(3000, 200000), shards=(4, 14), timeout=(240, 3000)),
               dict(name="will-vs-reconnect", test="TestC09WillResume", checks=(800, 100000), shards=(4, 14), timeout=(240, 3000))]),

    "C10": dict(
        pkg="p_broker", level="exploration",
        technique='model-based property testing of connect(CleanSession 0/1)/subscribe/unsubscribe/disconnect/close sequences over several client identifiers against a reference session store',
        level_text="Generated sequences over 2-4 client identifiers: every CONNACK's SessionPresent flag must equal the model's (1 iff CleanSession=0 and state from an earlier CleanSession=0 connection of that id was kept and not discarded by a CleanSession=1 connection since); after the reconnect's first answered request publishes on probe topics must be delivered exactly according to the restored subscriptions and their granted QoS without re-subscribing; nothing of a clean session survives; subscriptions of one identifier never deliver to another. Sampling.",
        level_note='Trusted: harness/ref/match, harness/ref/codec (strict parsing of every received byte), the reference model in harness/p_broker/model.go, and the barrier argument (a PINGRESP proves that everything the broker did for earlier packets of that client is committed). Known finding empty-level is excluded by a variant model run in lock-step.',
        rule='rapid-generated plans; non-trivial = a session was resumed that held subscriptions; distinct = FNV-64 of the plan JSON',
        assumptions=['offline queueing/redelivery is unsupported by the library (README) and not asserted', 'one live connection per client identifier: the harness waits for teardown-done before reusing an id'],
        units=[dict(name="sequential", test="TestC10", checks=(6000, 500000), shards=(4, 14), timeout=(240, 3000)),
               dict(name="resume-during-teardown", test="TestC10Overlap", checks=(1600, 200000), shards=(4, 14), timeout=(240, 3000))]),

    "C11": dict(
        pkg="p_broker", level="exploration",
        technique="enumerated product + rapid-generated mutants of first packets under three authenticators, each followed in the same write by effect-bearing packets; three-way classification by the reference codec",
        level_text=("Every first packet (all packet types, all 256 connect-flag bytes, protocol name x level x client-id class x credentials x CleanSession, cut bodies, truncations followed by close or "
                    "silence) is sent under an accepting, a rejecting and a user/password authenticator, followed in the same write by SUBSCRIBE '#', a retained PUBLISH and a QoS 1 PUBLISH. The reference "
                    "codec classifies the packet as must-accept / must-refuse (with the admissible CONNACK codes) / either; the check asserts the CONNACK code, that a refused connection is closed by the "
                    "broker, that nothing sent on it had any effect (in-process witness on '#', retained store, SessionPresent of a later CleanSession=0 connect with the same id) and that code 0 "
                    "goes together with the later packets taking effect. The product is enumerated completely; mutants are sampled. Unit default-config: the same acceptance on the zero-value Server "
                    "(default providers, authenticator, timeouts, buffer size): generated valid CONNECTs (CleanSession, keep-alive 0..65535, will, credentials, zero-length identifier) are answered with code 0 and the accepted connection works (SUBSCRIBE granted, PUBLISH and will delivered)."),
        level_note=("Trusted: harness/ref/codec (strict decode + documented id policy), the classification in c11_test.go: only malformations the specification makes a server refuse are 'must-refuse'; "
                    "everything the decoder's 3.1 compatibility tolerates is 'either' (only consistency is asserted there)."),
        rule=("unit enum: the enumerated product (one broker per case); unit random: rapid-generated CONNECT variants with 0-2 mutations; non-trivial = the first packet was not accepted and was "
              "followed by effect-bearing packets; unit default-config: every case counts (one default broker per process, identifiers and topics unique per case); distinct = FNV-64 of the case JSON"),
        assumptions=["ConnectTimeout is 1 s in the fixture (library default in unit default-config)", "client ids of 24-32 printable characters and inputs the 3.1-compatible decoder tolerates are accepted either way"],
        units=[
            dict(name="enum", test="TestC11Enum", kind="enum", shards=(4, 14)),
            dict(name="random", test="TestC11Random", checks=(12000, 4000000), shards=(4, 14), timeout=(240, 3000)),
            dict(name="default-config", test="TestC11Defaults", checks=(600, 100000), shards=(2, 8), timeout=(240, 3000)),
            dict(name="handshake-overlap", test="TestC11Overlap", checks=(1200, 150000), shards=(4, 14), timeout=(240, 3000)),
        ]),

    "C12": dict(
        pkg="p_client", level="exploration",
        technique="rapid-generated request sets and acknowledgement schedules against a scripted fake server, with the adverse interleaving (ack processed before the request is registered) forced through yield hooks; broker role: id-distinctness over generated publisher sets and over harness-scheduled concurrent deliveries of shared retained messages",
        level_text=("Client role: 1-8 requests (Publish QoS 0/1/2, Subscribe, Unsubscribe, at most one Ping) are issued through the library Client to a fake server that acknowledges in a generated order, "
                    "duplicates PUBRECs, and for a generated subset forces the adverse interleaving: the sending goroutine is parked at the yield between writing and returning, the server's ack is sent and the "
                    "client's packet-handled event awaited, then the goroutine is released. Every PUBREC must be answered by a PUBREL with its id; each completion callback must fire exactly once, not before "
                    "its terminal ack was sent, and all must have fired after a final flush round trip; after every single acknowledgement a PINGREQ round trip cuts the history and each request whose ack and all earlier acks of its kind were sent must have completed; "
                    "some requests are too large to be sent (the call fails: no completion, nothing blocked), some have no callback, SUBACKs refuse any subset of 1-3 filters; QoS 0 completes inside Publish. Broker role: 2-3 raw publishers with overlapping ids, in-process "
                    "publishes and a retained message towards a subscriber that withholds all acks: the ids of the unacknowledged PUBLISH packets must be non-zero and pairwise distinct. Sampling."),
        level_note=("Trusted: harness/ref/codec, the yield hooks *.after-write and the packet-handled event in /repo (build tag verif), the fake server. At most one PINGREQ outstanding (single unnumbered ping slot)."),
        rule=("rapid-generated cases; non-trivial (client role) = a forced ack-before-registration interleaving or acks in another order than the requests; (broker role) = >= 2 QoS>0 publishes in flight to the subscriber; distinct = FNV-64 of the case JSON"),
        assumptions=["one issuing goroutine at a time in the client-role unit (forced requests run in their own goroutine)", "acks per identifier follow protocol stage order"],
        units=[
            dict(name="client-role", test="TestC12Client", checks=(3000, 400000), shards=(4, 14), timeout=(240, 3000)),
            dict(name="broker-role", pkg="p_broker", test="TestC12Broker", checks=(4500, 600000), shards=(4, 14), timeout=(240, 3000)),
            dict(name="retained-concurrent", pkg="p_broker", test="TestC12RetConc", checks=(1600, 300000), shards=(4, 14), timeout=(240, 3000)),
            dict(name="id-wrap", pkg="p_broker", test="TestC12Wrap", kind="enum", shards=(4, 14), timeout=(240, 3000)),
        ]),

    "C13": dict(
        pkg="p_ackq", level="exploration",
        technique="model-based property testing: small-scope exhaustive enumeration + rapid random histories against a list model",
        level_text=("Every operation sequence up to depth 5 (quick) / 7 (thorough) over 3 identifiers and 11 operations is executed "
                    "against each of the five identifier-keyed queues and compared with a FIFO list model (ids, order, exactly-once, "
                    "byte-identical request/ack copies, callback identity), plus all ping-slot sequences; long random histories with "
                    "hundreds of in-flight entries cover growth and index wrap-around. Bounded exhaustive + sampling, not a proof."),
        level_note=("Trusted: the list model in harness/p_ackq (written from the statement), the harness' own packet byte builders. "
                    "Assumes acks per id follow protocol stage order and at most one outstanding ping. Queues reached through sessions.Session.Init."),
        rule=("unit exhaustive: every op sequence of the stated depth over ids {1,2,3} and 11 ops per id-keyed queue role "
              "(+ all ping-slot sequences), each on a fresh Session, distinct by construction, non-trivial = some entry was "
              "terminally acknowledged while an earlier one was not (head-of-line); unit random: rapid-generated histories "
              "(up to ~640 in flight, id reuse, random/FIFO/LIFO ack order), non-trivial = head-of-line case or the queue grew "
              "while its head index was not 0, distinct = FNV-64 of the history's JSON"),
        assumptions=["acks per identifier follow the protocol's stage order (duplicates of the same stage only)",
                     "at most one PINGREQ outstanding (single unnumbered ping slot)",
                     "oracle is a list model written from the property statement; request/ack bytes are built by the harness, not by the library encoder"],
        units=[
            dict(name="exhaustive", test="TestExhaustive", kind="enum", shards=(4, 14), timeout=(200, 1500)),
            dict(name="random", test="TestRandom", kind="rapid", checks=(4000, 600000), shards=(4, 14), timeout=(200, 1500)),
        ]),

    "C01": dict(
        pkg="p_broker", level="exploration",
        technique="model-based property testing: rapid-generated multi-client plans executed against a real in-process broker over net.Pipe, cut at PINGREQ/PINGRESP barriers, compared with a reference broker model",
        level_text=("Generated histories of connect / subscribe / unsubscribe / publish / disconnect / in-process Subscribe and Publish by 2-5 raw clients and 0-2 in-process subscribers run against a "
                    "real broker; after every publish each connected client's stream is cut exactly (publisher barrier, then receiver barrier) and the PUBLISH packets it received are compared "
                    "with the reference model: recipients, 1..k copies for k matching subscriptions, QoS min(publish, granted) assignable to distinct subscriptions, topic and payload byte-identical, "
                    "nothing for non-recipients. Payload sizes include 0, ~4 KiB, just below and exactly at the packet limit. Sampling."),
        level_note=("Trusted: harness/ref/match, the model in harness/p_broker, harness/ref/codec (strict parsing of every received byte), the barrier argument (fan-out is synchronous in the publisher's "
                    "processor). Unit concurrent runs every client's operation list in its own goroutine and judges each (publish, client) pair with the interval oracle: a subscription is definitely held if its SUBACK was received before the PUBLISH was sent and its UNSUBSCRIBE was sent after the publisher's barrier returned, definitely not held if its UNSUBACK preceded the send or its SUBSCRIBE followed the barrier, otherwise either outcome is accepted (logical clock on the harness side). Unit in-process fixes the subscriptions (raw clients and Server.Subscribe callbacks, some of them bridges that call Server.Publish from inside the callback), then publishes from 1-3 goroutines calling Server.Publish at once and from raw clients, and compares each subscriber's deliveries (message, topic, QoS) as a multiset with the exact expectation, bridged copies included."),
        rule=("rapid-generated plans (8-40 ops); non-trivial = some publish had >= 1 recipient while >= 1 connected client was not a recipient; distinct = FNV-64 of the plan JSON"),
        assumptions=["topics and filters never start with '$'", "one live connection per client identifier", "unit sequential: exact cuts; unit in-process: subscriptions do not change while messages flow"],
        units=[dict(name="sequential", test="TestC01", checks=(6000, 400000), shards=(4, 14), timeout=(240, 3000)),
               dict(name="concurrent", test="TestC01Concurrent", checks=(2400, 150000), shards=(4, 14), timeout=(240, 3000)),
               dict(name="in-process", test="TestC01Inproc", checks=(3600, 200000), shards=(4, 14), timeout=(240, 3000)),
               dict(name="fanout-churn", test="TestC01Churn", checks=(2000, 150000), shards=(4, 14), timeout=(240, 3000)),
               dict(name="unacked-resume", test="TestC01Resume", checks=(1200, 100000), shards=(4, 14), timeout=(240, 3000))]),

    "C02": dict(
        pkg="p_broker", level="exploration",
        technique="rapid-generated scripts of PUBLISH / DUP PUBLISH / PUBREL / duplicate PUBREL over several packet ids mixed with ring-wrapping filler traffic, against a protocol model of acks and hand-overs",
        level_text=("Broker role: a raw publisher sends generated interleavings of QoS 1 and QoS 2 PUBLISH packets, DUP repeats before PUBREL, PUBRELs (in PUBREC order, as MQTT obliges a sender), duplicate "
                    "PUBRELs after PUBCOMP, identifier reuse after completion and 0.5-3 rings of unrelated traffic between PUBLISH and PUBREL; after every step the publisher's stream must contain "
                    "exactly the expected ack (PUBACK/PUBREC/PUBCOMP with the packet's identifier, nothing else) and a QoS 2 subscriber's stream exactly the expected hand-overs: QoS 1 once per PUBLISH, "
                    "QoS 2 never before and exactly once at its PUBREL, with the topic and payload of the original PUBLISH. Client role (unit client-role): the library Client, connected to a fake server, receives the same kind of scripts (QoS 1/2 PUBLISH, DUP repeats, PUBREL, duplicate PUBREL, >= 1 ring of unrelated inbound traffic between PUBLISH and PUBREL); its acks and the invocations of the application callbacks are checked the same way. Sampling."),
        level_note=("Trusted: harness/ref/codec, the exact-cut argument (publisher barrier, then subscriber barrier). PUBRELs of concurrently open exchanges are sent in PUBREC order (MQTT-4.6.0-4)."),
        rule=("rapid-generated scripts (3-24 steps over ids {1,2,3,7}); non-trivial = a QoS 2 exchange with a duplicate PUBLISH or PUBREL, or with >= 1 ring of filler before its PUBREL; distinct = FNV-64 of the script JSON"),
        assumptions=["the sender releases exchanges in PUBREC order", "duplicates repeat the original content"],
        units=[dict(name="broker-role", test="TestC02Broker", checks=(6000, 400000), shards=(4, 14), timeout=(240, 3000)),
               dict(name="client-role", pkg="p_client", test="TestC02Client", checks=(3000, 300000), shards=(4, 14), timeout=(240, 3000))]),

    "C03": dict(
        pkg="p_codec", level="exploration",
        technique="property-based round-trip / differential testing against an independent MQTT 3.1.1 reference codec; boundary table enumeration; counter history",
        level_text=("For generated strict-valid packets of all 14 types (boundary-biased lengths, all flag combinations, 1-40 filters): the message built through the public setters "
                    "must report Len() == bytes written == length of the reference encoding, produce exactly the reference bytes (also into a pre-filled larger buffer, writing nothing beyond n), "
                    "decode back to equal fields, and re-encode to the same bytes both by the copy path and by rebuilding from the decoded fields; a boundary table is enumerated completely; "
                    ">65536 consecutive automatically numbered packets must be well-formed with non-zero ids. Sampling plus one small exhaustive table."),
        level_note=("Trusted: harness/ref/codec (written from the specification, checked against the spec's and the repository's example packets). Inputs the library accepts leniently but the "
                    "strict reference rejects are outside the re-encode identity (counted only). Messages the setter API cannot express are checked on the decode/copy path only."),
        rule=("unit fields: rapid-generated strict-valid packets; non-trivial = a length at a listed boundary, or >= 4 filters/return codes, or a non-default flag combination; distinct = FNV-64 of "
              "(type, remaining length, flags, id, field lengths, content hash). unit modify: decode a generated packet, apply 1-3 setter calls, compare with the reference encoding of the changed fields (non-trivial = a setter applied; setters include AddTopic of a new or a listed filter and RemoveTopic of a listed or an unlisted one). unit accepted: every input of the C04 generator (valid packets, all single-site structured mutants, random bytes) that a decoder accepts, strict-valid or not: Len() == bytes written, the re-encoding is accepted by the same decoder with equal fields, and equals the input when the input is exactly one frame (non-trivial = accepted although the strict reference rejects it). unit boundaries: enumerated table, distinct by construction. unit counter: one history per shard, non-trivial if it crossed a multiple of 65536"),
        assumptions=["strings are printable ASCII (UTF-8 validity is never decisive)", "packet-id counter is process-global; no assumption about its start value"],
        units=[
            dict(name="fields", test="TestC03Fields", checks=(80000, 9000000), shards=(4, 14), timeout=(240, 3000)),
            dict(name="modify", test="TestC03Modify", checks=(40000, 9000000), shards=(4, 14), timeout=(240, 3000)),
            dict(name="accepted", test="TestC03Accepted", checks=(60000, 9000000), shards=(4, 14), timeout=(240, 3000)),
            dict(name="boundaries", test="TestC03Boundaries", kind="enum", shards=(4, 14), timeout=(240, 1200)),
            dict(name="counter", test="TestC03Counter", kind="enum", shards=(2, 14)),
            dict(name="counter-concurrent", test="TestC03CounterConcurrent", kind="enum", shards=(2, 8), timeout=(240, 3000)),
            dict(name="native-fuzz", test="FuzzRoundTrip", kind="fuzz", fuzztime=(10, 120), shards=(1, 1), tiers=["thorough"], timeout=(120, 600), workers=14),
        ]),
    "C04": dict(
        pkg="p_codec", level="exploration",
        technique="structured-mutation fuzzing of reference encodings with canary arenas and field address-range checks; differential against the strict reference decoder",
        level_text=("Every decoder is fed valid reference encodings, all their single-site structured mutants (enumerated) and random multi-site mutants/random bytes, each in a slice carved "
                    "out of the middle of a canary-filled array with cap == len (and again with spare capacity): no panic, 0 <= n <= len, canaries untouched, every exposed field's address range "
                    "inside input[0:n], same decision for both presentations; every strict-valid packet is accepted with the reference's field values (policy-refused CONNECTs get exactly "
                    "the documented connack error). Exhaustive over the listed mutant table, sampling beyond."),
        level_note=("Trusted: harness/ref/codec and the unsafe.SliceData address arithmetic. Leniency of the decoders towards inputs the strict reference rejects is not judged."),
        rule=("unit mutants: enumerated single-site mutants x decoders; non-trivial = any mutant (not the unmodified packet), distinct by (decoder, mutation kind, length class); "
              "unit random: rapid-generated 0-3-site mutants and random bytes, non-trivial = mutant of a valid packet (not pure random, not unmodified), distinct = FNV-64 of the input"),
        assumptions=["'stays inside the input' is judged on [ptr, ptr+len) of each exposed slice, not on its capacity"],
        units=[
            dict(name="mutants", test="TestC04Mutants", kind="enum", shards=(4, 14)),
            dict(name="random", test="TestC04Random", checks=(80000, 25000000), shards=(4, 14), timeout=(240, 3000)),
            dict(name="native-fuzz", test="FuzzDecode", kind="fuzz", fuzztime=(10, 180), shards=(1, 1), tiers=["thorough"], timeout=(120, 600), workers=14),
        ]),

    "C16": dict(
        pkg="p_broker", level="fault_enumeration",
        technique="rapid-generated fault sequences (stalled subscribers, full rings, cross-blocked pairs, ending order x cause) with a dependency model for 'possibly held up', teardown-done events and a final goroutine census",
        level_text=("2-5 connections (publishers, stalled subscribers, both; wills; clean/persistent; keep-alive 1 s) fill each other's rings until the broker is quiescent, then end in a generated order by "
                    "DISCONNECT, abrupt close, protocol error, keep-alive expiry or Server.Close. For every connection that no still-open stalled peer can hold up, the teardown-done event must arrive "
                    "(hang vs slow is decided by a goroutine census at quiescence); once all have ended every teardown has finished, wills were published exactly for the abnormal ends, clean sessions are "
                    "gone and persistent ones kept, Server.Close returns and no goroutine with a go-mqtt frame remains. Unit close-window forces the one interleaving a free run practically never hits: a processor is parked (yield hook) between its closed-check and its condition wait on a ring while that ring's connection ends; afterwards every teardown must still finish. Causes and buffer conditions are enumerated as classes, sequences are sampled."),
        level_note=("Trusted: the dependency model (a connection may wait only for a still-open stalled connection subscribed to what it published), the census (runtime.Stack states), the teardown-done hook. "
                    "One case at a time per process so the census is attributable."),
        rule=("rapid-generated sequences; non-trivial = at least one connection was ended while a ring involved was full (stalled subscriber with pending deliveries or blocked publisher); distinct = FNV-64 of the sequence JSON"),
        assumptions=["a blocked delivery to a still-open stalled peer may hold a teardown up (the statement's proviso)", "wills are judged only while the server is up"],
        units=[dict(name="faults", test="TestC16", checks=(240, 15000), shards=(4, 14), timeout=(300, 3000)),
               dict(name="close-window", test="TestC16Window", checks=(48, 4000), shards=(4, 8), timeout=(300, 3000)),
               dict(name="id-exhaustion", test="TestC16Exhaust", kind="enum", shards=(4, 4), timeout=(300, 3000)),
               dict(name="inproc-blocked", test="TestC16InprocBlocked", checks=(80, 4000), shards=(4, 8), timeout=(300, 3000))]),
    "C17": dict(
        pkg="p_broker", level="exploration",
        technique="concurrent stress with rapid-generated publisher/subscriber configurations; every received byte strictly parsed; self-describing payloads with per-publisher sequence numbers",
        level_text=("2-8 raw publishers send 50-400 numbered self-describing messages each (sizes up to the packet limit, so packets straddle the 16 KiB ring end) on 1-3 shared topics at a fixed QoS per "
                    "(publisher, topic), truly concurrently, to 1-4 raw subscribers holding one subscription per topic. Every byte a subscriber receives goes through the strict stream parser; each payload's "
                    "header, length and pattern must be intact; per (publisher, topic, QoS) sequence numbers must be strictly increasing and, at the final cut, complete. Interleavings are whatever the Go scheduler produces."),
        level_note=("Trusted: harness/ref/codec strict parser, the payload self-description. Client-role variant (library Client publishing from several goroutines) is in unit client-role when present."),
        rule=("rapid-generated configurations; non-trivial = publishers actually interleaved on a subscriber (publisher switches > 4 per subscriber) and at least one packet was written through the ring's wrap path (derived from stream offsets); distinct = FNV-64 of the configuration JSON"),
        assumptions=["each subscriber holds exactly one subscription per topic"],
        units=[dict(name="broker-role", test="TestC17Broker", checks=(240, 25000), shards=(4, 14), timeout=(300, 3000)),
               dict(name="client-role", pkg="p_client", test="TestC17Client", checks=(1200, 150000), shards=(4, 14), timeout=(300, 3000)),
               dict(name="client-inbound-order", pkg="p_client", test="TestC17ClientInbound", checks=(160, 20000), shards=(4, 14), timeout=(300, 3000)),
               dict(name="client-reconnect-stream", pkg="p_client", test="TestC17ClientReconnect", checks=(60, 6000), shards=(4, 14), timeout=(300, 3000))]),

    "C18": dict(
        pkg="p_broker", level="exploration", race=True,
        technique="rapid-generated concurrent workloads run under the Go race detector; reports normalised to signatures (innermost go-mqtt function of both access stacks)",
        level_text=("6-16 raw client goroutines (connect, subscribe, unsubscribe, publish incl. retained updates on shared topics, clean and abrupt disconnects, reconnects, wills), 1-3 goroutines using "
                    "Server.Publish/Subscribe/Unsubscribe and 0-4 library Clients connecting over TCP run truly concurrently against one broker built with -race; Server.Close is called only after every "
                    "client connection has ended. Any race report whose two access stacks both contain go-mqtt frames is a violation (signature = sorted pair of innermost library functions). "
                    "The detector only judges executed accesses; interleavings are whatever the scheduler produces."),
        level_note=("Trusted: the Go race detector, the report parser in c18_test.go. Reports without two library stacks are counted, not judged. Shutdown racing with live traffic is C16's concern, not asserted here."),
        rule=("rapid-generated workloads; non-trivial = at least three of {teardown during fan-out, retained update concurrent with subscriptions, in-process subscribe, concurrent Client.Connect} occurred; distinct = FNV-64 of the workload JSON"),
        assumptions=["one live connection per client identifier", "the library's process-global provider registries are touched by the harness only under its own mutex"],
        units=[dict(name="race", test="TestC18Race", checks=(200, 25000), shards=(4, 14), timeout=(300, 3000), race_log=True, shrinktime="5s"),
               dict(name="reconnect-overlap", test="TestC18Overlap", checks=(60, 6000), shards=(2, 14), timeout=(300, 3000), race_log=True, shrinktime="1s")]),

    "C19": dict(
        pkg="p_broker", level="fault_enumeration",
        technique="rapid-generated keep-alive activity patterns (gaps as fractions of K, packet kinds, silence) run concurrently against one broker with measured own-write gaps and wide-margin timing",
        level_text=("Clients negotiate K = 1 or 2 s with a will and follow a generated pattern of packets (PINGREQ, PUBLISH QoS 0/1, SUBSCRIBE) separated by 0.2-0.85 K, then either stay active or go silent. "
                    "Active direction: as long as every measured gap between the completions of the client's own writes is below K the connection must stay open and every PINGREQ must be answered (a scenario "
                    "whose own write was late is inconclusive). Silent direction: the connection must not be closed before K has passed, must be closed by the broker before 1.5 K + 8 s, and the witness must "
                    "receive the will exactly once (never for an active client that ends with DISCONNECT). Patterns are enumerated by class (silent from start / after traffic / active), timings are sampled."),
        level_note=("Trusted: time.Now on the harness side, net.Pipe write completion = the broker has read the bytes. Only K in {1,2} s; the cap is far from the library's 1.2 K threshold so that load cannot cause a false alarm."),
        rule=("8 scenarios per generated batch, each scenario counted as a case; non-trivial = silent after >= 2 timely packets, or active with a gap >= 0.7 K; distinct = FNV-64 of the scenario JSON"),
        assumptions=["whole-second keep-alive values only", "a late own write (gap >= 0.95 K) makes the scenario inconclusive, never a violation"],
        units=[dict(name="timed", test="TestC19", checks=(8, 160), shards=(4, 8), timeout=(300, 3000))]),

    "C14": dict(
        pkg="p_ring", level="exploration",
        technique="property-based testing of generated producer/consumer programs against a position-dependent stream oracle; free-running and harness-controlled schedules",
        level_text=("Generated producer programs (Write, WriteWait+WriteCommit, ReadFrom) and consumer programs (Read, ReadPeek/ReadWait + ReadCommit, WriteTo, Len) "
                    "with boundary-biased chunk sizes on pre-positioned rings (empty/partial/full/wrapped) run against a real ring; every byte the consumer obtains is compared "
                    "with a stream whose bytes identify their position, peeked bytes are re-verified before commit, and produced-consumed never exceeds the size. "
                    "Schedules: Go scheduler (free) and rapid-drawn schedules at the ring's yield points (controlled). Unit service-rings exercises the rings as the connection engine uses them: 2-4 connections and in-process publishers deliver into one subscriber's outgoing ring while it reads a little, stops until the deliverers are stuck on the full ring, and reads on; every publisher's messages must arrive complete, intact and in order. Sampling, not a proof."),
        level_note=("Trusted: the stream oracle and the interpreter in harness/p_ring; one producer and one consumer goroutine as the statement says; "
                    "interleavings beyond the hooked yield points are whatever the Go scheduler produces."),
        rule=("rapid-generated (producer program, consumer templates, initial cursor state[, schedule bytes]); non-trivial = (free mode: data wrapped >= 2 ring sizes and) a peek crossed "
              "the ring end (scratch-buffer path) or the producer had to wait for space; distinct = FNV-64 of the case JSON"),
        assumptions=["single producer goroutine and single consumer goroutine per ring", "requests never exceed the ring size"],
        units=[
            dict(name="free", test="TestC14Free", checks=(400, 30000), shards=(4, 14)),
            dict(name="controlled", test="TestC14Controlled", checks=(400, 30000), shards=(4, 14)),
            dict(name="service-rings", pkg="p_broker", test="TestC14ServiceRings", checks=(120, 6000), shards=(4, 14), timeout=(300, 3000)),
            dict(name="client-reconnect-rings", pkg="p_client", test="TestC14ClientReconnect", checks=(60, 6000), shards=(4, 14), timeout=(300, 3000)),
        ]),
    "C15": dict(
        pkg="p_ring", level="exploration",
        technique="harness-controlled schedule exploration (rapid-drawn schedules over yield points) with a blocking model judged at quiescence, plus free-running stress",
        level_text=("Producer, consumer and closer programs run with the harness owning the schedule at the yield points inside the ring's wait paths (cursor read/not yet locked, "
                    "about to wait, between the steps of Close) and between operations; at global quiescence (every goroutine finished or parked in a lock/condition, taken from a "
                    "goroutine census) a cursor model decides for each blocked call whether it may still wait: not after a Close started, not when enough data/space exists, never in "
                    "Mutex.Lock; finally both internal mutexes must be free. A free-running 1-byte ping-pong and free-running programs add unsteered interleavings. Sampling."),
        level_note=("Trusted: the blocking model in harness/p_ring, the goroutine census (runtime.Stack states), the yield hooks in service/buffer.go (build tag verif). "
                    "Verdicts are taken at quiescence only, never from a timer alone."),
        rule=("rapid-generated programs with Close calls from producer, consumer or a third goroutine, initial state empty/partial/full/wrapped, schedule bytes; non-trivial = some goroutine "
              "ran while its peer was parked inside a wait window (pre-lock/pre-wait yield) or blocked in a wait; pingpong unit counts round trips; distinct = FNV-64 of the case JSON"),
        assumptions=["single producer and single consumer goroutine plus any number of Close callers", "quiescence is decided from goroutine states reported by runtime.Stack"],
        units=[
            dict(name="controlled", test="TestC15Controlled", checks=(600, 120000), shards=(4, 14)),
            dict(name="controlled-noclose", test="TestC15ControlledNoClose", checks=(200, 40000), shards=(4, 14)),
            dict(name="free", test="TestC15Free", checks=(120, 20000), shards=(4, 14)),
            dict(name="pingpong", test="TestC15PingPong", kind="enum", shards=(4, 12)),
            dict(name="close-windows", test="TestC15CloseWindows", kind="enum", shards=(8, 14)),
            dict(name="wake-windows", test="TestC15WakeWindows", kind="enum", shards=(8, 14)),
        ]),

    "C20": dict(
        pkg="p_client", level="exploration",
        technique="enumerated CONNACK answers and rapid-generated subscribe/unsubscribe/inbound-PUBLISH scripts played by a fake server against the library Client, with a reference matcher model of callback dispatch",
        level_text=("Connect part (enumerated): CONNACK code 0-5 x SessionPresent, malformed CONNACKs, other packet types, close and silence until ConnectTimeout: Connect must return nil exactly for code 0, the "
                    "refusal code as its error for 1-5, an error otherwise, close the socket and leave no goroutine with a go-mqtt frame behind (census). Dispatch part (sampled): 1-4 Subscribe calls with 1-3 "
                    "filters and their own callbacks, SUBACK codes 0/1/2/0x80 per filter, inbound PUBLISH at QoS 0-2 on matching and non-matching topics with DUP repeats before PUBREL and duplicate PUBRELs, "
                    "Unsubscribe calls, filler traffic, and reconnects of the same Client object (Disconnect + Connect, the server answers SessionPresent=0 and reuses packet identifiers, also of inbound QoS 2 exchanges that were left open); after every inbound step (cut by a PINGREQ the library answers) each request's callback must have been invoked exactly once if exactly one of its "
                    "granted, still subscribed filters matches the delivered topic (1..k times for k > 1 matching filters), never otherwise, with the delivered topic and payload; the client's acks are checked as in C02."),
        level_note=("Trusted: harness/ref/match, harness/ref/codec, the fake server. Filters and topics without empty levels (known finding empty-level of the shared topic tree is C06's). "
                    "When k > 1 filters of ONE request match, 1..k invocations are accepted (per-subscription dispatch). After a reconnect the callbacks of requests made on the earlier connection may or may not see matching messages (left open by the statement); they never see non-matching ones. Client.ConnectTLS is not exercised (the statement names Client.Connect)."),
        rule=("unit connect: enumerated answers, non-trivial = anything but a plain code-0 CONNACK; unit dispatch: rapid-generated scripts, non-trivial = >= 2 subscribe requests separated by inbound traffic "
              "(one invoked, another not) or an unsubscribe of a held filter; distinct = FNV-64 of the case JSON"),
        assumptions=["one case at a time per process (goroutine census)", "the server never delivers a topic matched only by a filter it refused with 0x80 ... it may, and then no callback is expected"],
        units=[
            dict(name="connect", test="TestC20Connect", kind="enum", shards=(2, 2), timeout=(240, 600)),
            dict(name="dispatch", test="TestC20Dispatch", checks=(3000, 500000), shards=(4, 14), timeout=(240, 3000)),
        ]),
}

# Properties not claimed (MANIFEST.not_applicable) with the reason.
NOT_CLAIMED = {}

# ---- additions of round 9 (appended to the texts above) ----------------------------------------
_T = (" Every case also draws its transport: the broker reads the clients' bytes whole (net.Pipe) or in generated pieces "
      "(segmentation), and sees the end of a stream as io.EOF or as a connection reset.")
_ADD = {
    "C01": dict(level_note=_T, technique="; plus a harness-scheduled unit in which the subscriptions change while one message is being fanned out",
                assumptions=["unit fanout-churn: the fan-out is held at one delivery (yield publish.after-write / writeMessage.enter); a subscriber that changed its subscription meanwhile may or may not receive the message"]),
    "C02": dict(level_note=_T + " Broker role: the publisher's last packet may arrive together with the end of its stream (half-close)."),
    "C05": dict(level_note=_T + " Includes packets of limit-1 ... limit+4 bytes written in two pieces cut around the limit mark, then the socket is cut; unit delivery-windows holds a delivery inside the reservation of the subscriber's outgoing buffer while the subscriber is cut and a second delivery queues up behind it."),
    "C07": dict(level_note=_T, technique="; and a unit in which other subscribers unsubscribe / resubscribe / drop while a message is being fanned out",
                assumptions=["unit fanout-churn: see C01"]),
    "C08": dict(level_note=_T + " In-process subscriber callbacks may refuse what Server.Subscribe hands them or return errors for live deliveries. Unit update-windows: a retained update is accepted while a matching SUBSCRIBE is held at one of its calls into the topics provider, or while a matching subscriber is going down.",
                assumptions=["unit update-windows: one update, one held SUBSCRIBE or teardown; the windows are the four provider calls of a SUBSCRIBE and the closing steps of a teardown (yield Close.after-done)"]),
    "C09": dict(level_note=_T + " Connects may be pipelined (CONNECT + PINGREQ, or CONNECT + DISCONNECT in one write)."),
    "C10": dict(level_note=_T + " Connects may be pipelined. Unit resume-during-teardown: the client reconnects (CleanSession=0) while the teardown of its old connection is held.",
                assumptions=["unit resume-during-teardown: both connections of the identifier use CleanSession=0; the old connection is over from the client's side (socket closed) when the new one connects"]),
    "C11": dict(technique="; plus harness-scheduled overlapping handshakes (a CONNECT held inside a registered authenticator while other first packets are handled) and half-closed first packets (bytes and end of stream in one read)",
                assumptions=["unit handshake-overlap: one handshake is held (in the authenticator) at a time; the others run to completion meanwhile"]),
    "C12": dict(level_note=" Client role also covers application-chosen packet identifiers (reused only after completion) and requests that cannot be encoded."),
    "C13": dict(level_note=" The buffers handed back by Acked are kept and compared again after later operations."),
    "C16": dict(level_note=_T + " Unit inproc-blocked: goroutines blocked inside Server.Publish on a subscriber that stopped reading are released by the subscriber's end / Server.Close. A teardown that has not finished while a library goroutine stays in motion in one function for 3 s of consumed processor time is reported as a busy loop (census.Spinning)."),
    "C17": dict(level_note=_T + " In half of the broker-role cases a subscriber with a persistent session reconnects under traffic (CONNACK first, stream intact). Client role: also a burst of numbered messages to a slow callback (order), and a connection lost with output pending followed by a reconnect of the same Client object (the new stream starts with CONNECT)."),
    "C18": dict(level_note=" A third of the workloads contain a subscriber that stops reading while a publisher sends it more than the buffers take. Unit reconnect-overlap runs the history of the known finding sig=reconnect-overlap (KNOWN_FINDINGS.txt: a client identifier is back before its old connection's teardown finished; both connections share the session object) and counts its race reports as that finding; in unit race a client reconnects only after its old connection was torn down.",
                assumptions=["unit race: a client identifier reconnects only after the teardown of its previous connection has finished; the overlap is the recorded known finding"]),
    "C19": dict(level_note=" Silence may begin inside a packet; one scenario in half of the runs keeps sending without reading for 2.2 K (the broker stops taking its bytes) and must survive."),
    "C20": dict(level_note=" Client buffers of 32 KiB / 256 KiB / 4 MiB with deliveries at the 2/3- and 3/4-byte remaining-length boundaries are included."),
}
for _pid, _d in _ADD.items():
    for _k, _v in _d.items():
        if isinstance(_v, list):
            CHECKS[_pid][_k] = list(CHECKS[_pid].get(_k, [])) + _v
        else:
            CHECKS[_pid][_k] = CHECKS[_pid].get(_k, "") + _v

# Additions of round 13 to the level texts (appended here so that the entries above stay readable).
_ROUND13 = {
    "C01": " Unit unacked-resume: a subscriber with a persistent session leaves a generated subset of its deliveries unacknowledged (no PUBACK / no PUBREC / no PUBCOMP), ends its connection and resumes it 1-3 times; every message accepted after a resume reaches it exactly once at min(QoS) (a retransmission of an unacknowledged earlier message is allowed, any other PUBLISH is not). In unit concurrent a client's connection may end in the middle of its operation list (the client goes on under a new identifier); the interval oracle treats the end like an UNSUBSCRIBE of everything the connection held.",
    "C05": " Attackers also publish with the retain flag (empty payloads included) and carry retained or empty wills; after every attack a new client connects and subscribes (SUBACK), a witness publishes a retained message (live copy to the newcomer) and a second newcomer receives the retained copy.",
    "C06": " One history in eight starts with a crowd: 17-64 subscribers gather on one or two filters and most of them leave in a generated order, with re-subscriptions in between.",
    "C10": " One plan in six contains a hoard: one persistent session collects 20-48 filters, drops half or more of them in a generated order, changes or drops a few survivors and is resumed; messages for dropped and kept filters follow.",
    "C11": " Unit enum also lists 576 acceptable CONNECTs whose user name, password or will message is present and empty, with keep-alive 0, 1, 60 and 65535, with and without an identifier.",
    "C16": " Unit faults also has servers that have seen 120-520 short-lived connections between two of the case's clients, and bulk cases (32-256 KiB buffers, 10-250 packets written back to back, then a packet at the size limit of the buffer, then the cut).",
    "C20": " Delivered messages carry the retain flag in a quarter and an empty payload in a sixth of the cases.",
}
for _k, _v in _ROUND13.items():
    CHECKS[_k]["level_text"] += _v

# Additions of round 14.
_ROUND14 = {
    "C01": " In half of the plans the clients number their requests from a pool of 1-3 identifiers; one plan in ten has a steady publisher (17-40 QoS 1/2 exchanges in a row on one connection).",
    "C02": " Broker role: stray acknowledgements (PUBACK / PUBCOMP / PUBREC for nothing the broker sent, possibly with the identifier of an open inbound exchange). Client role: in a fifth of the scripts the server writes its CONNACK and a waiting QoS 1 PUBLISH in one piece.",
    "C05": " The witness publisher numbers its packets from 60000 downwards and everything it is sent back must acknowledge one of them (each QoS 1 PUBLISH exactly once); attackers complete QoS 2 exchanges and repeat PUBRELs, and the witness subscribed to everything receives each named attacker message at most once.",
    "C08": " SUBSCRIBEs may carry a refused filter in front of or among the granted ones; in half of the plans identifiers come from a pool of 1-3.",
    "C14": " Consumer programs also call ReadWait twice at one position (a short look-ahead, then the whole chunk).",
    "C15": " Unit wake-windows enumerates every schedule of 50 configurations without Close in which a blocked call must be released by one step of its peer that frees or delivers enough.",
    "C16": " Unit faults also has the end cause second-connect, clients with a zero-length identifier, and a count of the session store once every connection but the witness's is torn down.",
}
for _k, _v in _ROUND14.items():
    CHECKS[_k]["level_text"] += _v
