#!/bin/sh
# MANIFEST.hooks.baseline_off_cmd: the repository's own test suite with the
# verif build tag OFF (same command as BASELINE.json, module root only).
export GOFLAGS=-mod=mod GOPROXY=off GOSUMDB=off GOTOOLCHAIN=local
cd /repo && go test -json -vet=off -count=1 -timeout 25m ./...
