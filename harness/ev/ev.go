// Package ev is the evidence/replay/known-findings plumbing shared by all
// checks. A test creates one Rec per unit, reports every case it executes
// (with the property's non-triviality verdict and class labels), reports
// violations (which writes a replay file) and flushes a result file that the
// driver (/verif/check) merges into evidence/<id>.json.
package ev

import (
	"bufio"
	"encoding/binary"
	"encoding/json"
	"fmt"
	"hash/fnv"
	"os"
	"path/filepath"
	"sort"
	"strconv"
	"strings"
	"sync"
	"testing"
	"time"
)

// Env is what the driver passes to a test process.
type Env struct {
	Tier      string // quick | thorough
	Seed      int64
	Shard     int
	Shards    int
	OutDir    string // result files go here
	Replay    string // replay file to run instead of generating (may be "")
	ReplayDir string
	Known     string // path of KNOWN_FINDINGS.txt
}

var (
	envOnce sync.Once
	env     Env
)

func atoi(s string, d int) int {
	if v, err := strconv.Atoi(s); err == nil {
		return v
	}
	return d
}

// GetEnv reads the VERIF_* environment.
func GetEnv() Env {
	envOnce.Do(func() {
		env.Tier = os.Getenv("VERIF_TIER")
		if env.Tier != "thorough" {
			env.Tier = "quick"
		}
		s, err := strconv.ParseInt(os.Getenv("VERIF_SEED"), 10, 64)
		if err != nil {
			s = 1
		}
		env.Seed = s
		env.Shard = atoi(os.Getenv("VERIF_SHARD"), 0)
		env.Shards = atoi(os.Getenv("VERIF_SHARDS"), 1)
		if env.Shards < 1 {
			env.Shards = 1
		}
		env.OutDir = os.Getenv("VERIF_OUT")
		env.Replay = os.Getenv("VERIF_REPLAY")
		env.ReplayDir = os.Getenv("VERIF_REPLAY_DIR")
		env.Known = os.Getenv("VERIF_KNOWN")
	})
	return env
}

// Thorough reports whether the thorough tier was requested.
func Thorough() bool { return GetEnv().Tier == "thorough" }

// Pick returns q in the quick tier and t in the thorough tier.
func Pick(q, t int) int {
	if Thorough() {
		return t
	}
	return q
}

// Violation is one reported failure.
type Violation struct {
	Sig     string `json:"sig"`
	Failure string `json:"failure"`
	Replay  string `json:"replay"`
}

type sample struct {
	size int
	raw  json.RawMessage
}

// Rec collects what one unit of one check covered.
type Rec struct {
	mu         sync.Mutex
	Property   string
	Unit       string
	start      time.Time
	evals      int64
	nt         map[uint64]struct{}
	ntCounted  int64
	classes    map[string]int64
	first      []sample
	largest    *sample
	known      map[string]string
	knownHits  map[string]int64
	knownEx    map[string]json.RawMessage
	violations map[string]Violation
	extra      map[string]interface{}
	exhaustive *bool
	inconcl    int64
	flushed    bool
}

// New creates a recorder for (property, unit).
func New(property, unit string) *Rec {
	r := &Rec{
		Property: property, Unit: unit, start: time.Now(),
		nt: map[uint64]struct{}{}, classes: map[string]int64{},
		known: map[string]string{}, knownHits: map[string]int64{}, knownEx: map[string]json.RawMessage{},
		violations: map[string]Violation{}, extra: map[string]interface{}{},
	}
	r.loadKnown()
	return r
}

func (r *Rec) loadKnown() {
	p := GetEnv().Known
	if p == "" {
		return
	}
	f, err := os.Open(p)
	if err != nil {
		return
	}
	defer f.Close()
	sc := bufio.NewScanner(f)
	sc.Buffer(make([]byte, 1<<20), 1<<20)
	for sc.Scan() {
		line := strings.TrimSpace(sc.Text())
		if !strings.HasPrefix(line, "known:") {
			continue
		}
		fs := strings.Fields(line[len("known:"):])
		var prop, sig string
		var rest []string
		for _, f := range fs {
			switch {
			case strings.HasPrefix(f, "property=") && prop == "":
				prop = f[len("property="):]
			case strings.HasPrefix(f, "sig=") && sig == "":
				sig = f[len("sig="):]
			default:
				rest = append(rest, f)
			}
		}
		if prop == r.Property && sig != "" {
			r.known[sig] = strings.Join(rest, " ")
		}
	}
}

// Hash returns the 64-bit FNV-1a hash of the canonical JSON of v.
func Hash(v interface{}) uint64 {
	b, _ := json.Marshal(v)
	return HashBytes(b)
}

// HashBytes hashes raw bytes.
func HashBytes(b []byte) uint64 {
	h := fnv.New64a()
	h.Write(b)
	return h.Sum64()
}

// Case records one executed case. c must marshal to JSON (it is what the
// interpreter ran). Non-trivial cases are hashed for distinct counting and
// may be kept as samples.
func (r *Rec) Case(c interface{}, nontrivial bool, classes ...string) {
	var raw []byte
	if nontrivial {
		raw, _ = json.Marshal(c)
	}
	r.CaseRaw(raw, nontrivial, classes...)
}

// CaseRaw is Case for callers that already have the canonical bytes.
func (r *Rec) CaseRaw(raw []byte, nontrivial bool, classes ...string) {
	r.mu.Lock()
	defer r.mu.Unlock()
	r.evals++
	for _, c := range classes {
		r.classes[c]++
	}
	if !nontrivial {
		return
	}
	r.classes["nontrivial"]++
	r.nt[HashBytes(raw)] = struct{}{}
	r.keepSample(raw)
}

func (r *Rec) keepSample(raw []byte) {
	if len(raw) == 0 {
		return
	}
	if !json.Valid(raw) {
		raw, _ = json.Marshal(string(raw))
	}
	s := sample{size: len(raw), raw: clip(raw)}
	if len(r.first) < 2 {
		r.first = append(r.first, s)
		return
	}
	if r.largest == nil || s.size > r.largest.size {
		r.largest = &s
	}
}

func clip(raw []byte) json.RawMessage {
	if len(raw) <= 3000 {
		return append(json.RawMessage(nil), raw...)
	}
	b, _ := json.Marshal(map[string]interface{}{"truncated_json": string(raw[:3000]), "full_length": len(raw)})
	return b
}

// Count records n executed cases of an enumeration whose members are
// distinct by construction; nt of them are non-trivial. Used where hashing
// every member would dominate the run. Samples are supplied separately.
func (r *Rec) Count(n, nt int64, classes ...string) {
	r.mu.Lock()
	defer r.mu.Unlock()
	r.evals += n
	r.ntCounted += nt
	for _, c := range classes {
		r.classes[c] += n
	}
}

// Sample adds an explicit sample (for enumerations reported with Count).
func (r *Rec) Sample(c interface{}) {
	raw, _ := json.Marshal(c)
	r.mu.Lock()
	defer r.mu.Unlock()
	r.keepSample(raw)
}

// Class bumps a class counter without counting a case.
func (r *Rec) Class(name string, n int64) {
	r.mu.Lock()
	defer r.mu.Unlock()
	r.classes[name] += n
}

// Inconclusive counts a case whose verdict could not be reached (overload).
func (r *Rec) Inconclusive() {
	r.mu.Lock()
	defer r.mu.Unlock()
	r.inconcl++
}

// Exhaustive marks whether this unit enumerated its stated space completely.
func (r *Rec) Exhaustive(v bool) {
	r.mu.Lock()
	defer r.mu.Unlock()
	r.exhaustive = &v
}

// Set stores an extra key in the result (merged by the driver: numbers are
// summed, everything else is collected per unit).
func (r *Rec) Set(key string, v interface{}) {
	r.mu.Lock()
	defer r.mu.Unlock()
	r.extra[key] = v
}

// IsKnown reports whether sig is listed as a known finding for this property.
func (r *Rec) IsKnown(sig string) bool {
	_, ok := r.known[sig]
	return ok
}

// HitKnown counts a case that is explained completely by known finding sig.
func (r *Rec) HitKnown(sig string, c interface{}) {
	r.mu.Lock()
	defer r.mu.Unlock()
	r.knownHits[sig]++
	if _, ok := r.knownEx[sig]; !ok {
		raw, _ := json.Marshal(c)
		r.knownEx[sig] = clip(raw)
	}
}

// Replay is the on-disk form of a failing case.
type Replay struct {
	Property string          `json:"property"`
	Unit     string          `json:"unit"`
	Tier     string          `json:"tier"`
	Seed     int64           `json:"seed"`
	Shard    int             `json:"shard"`
	Kind     string          `json:"kind"`
	Sig      string          `json:"sig"`
	Failure  string          `json:"failure"`
	Case     json.RawMessage `json:"case"`
	Detail   interface{}     `json:"detail,omitempty"`
}

// Violation records a failure: writes (overwrites) this unit's replay file
// and remembers the violation for the result file. It returns the path.
// Calling it again for the same unit replaces the previous one, so that after
// shrinking the file holds the minimal case.
func (r *Rec) Violation(sig, kind, failure string, c interface{}, detail interface{}) string {
	e := GetEnv()
	raw, _ := json.Marshal(c)
	rp := Replay{Property: r.Property, Unit: r.Unit, Tier: e.Tier, Seed: e.Seed, Shard: e.Shard,
		Kind: kind, Sig: sig, Failure: failure, Case: raw, Detail: detail}
	dir := e.ReplayDir
	if dir == "" {
		dir = os.TempDir()
	}
	os.MkdirAll(dir, 0o755)
	path := filepath.Join(dir, fmt.Sprintf("%s-%s-%s-%d-%d.json", r.Property, r.Unit, e.Tier, e.Seed, e.Shard))
	b, _ := json.MarshalIndent(rp, "", " ")
	os.WriteFile(path, b, 0o644)
	r.mu.Lock()
	r.violations[r.Unit] = Violation{Sig: sig, Failure: failure, Replay: path}
	r.mu.Unlock()
	return path
}

// ClearViolations forgets recorded violations (used when a rapid run ends
// as "flaky, cannot reproduce" and the harness decides it was inconclusive).
func (r *Rec) ClearViolations() {
	r.mu.Lock()
	defer r.mu.Unlock()
	r.violations = map[string]Violation{}
}

// LoadReplay returns the replay to run, or nil when generating.
func LoadReplay(t testing.TB, unit string) *Replay {
	p := GetEnv().Replay
	if p == "" {
		return nil
	}
	b, err := os.ReadFile(p)
	if err != nil {
		t.Fatalf("replay file: %v", err)
	}
	var rp Replay
	if err := json.Unmarshal(b, &rp); err != nil {
		t.Fatalf("replay file: %v", err)
	}
	if rp.Unit != unit {
		return nil
	}
	return &rp
}

// Replaying reports whether the process runs in replay mode.
func Replaying() bool { return GetEnv().Replay != "" }

type result struct {
	Property     string                     `json:"property"`
	Unit         string                     `json:"unit"`
	Shard        int                        `json:"shard"`
	Evals        int64                      `json:"evals"`
	NTCounted    int64                      `json:"nt_counted"`
	NTHashes     int                        `json:"nt_hashes"`
	HashFile     string                     `json:"hash_file"`
	Classes      map[string]int64           `json:"classes"`
	Samples      []json.RawMessage          `json:"samples"`
	KnownHits    map[string]int64           `json:"known_hits"`
	KnownText    map[string]string          `json:"known_text"`
	KnownEx      map[string]json.RawMessage `json:"known_examples"`
	Violations   []Violation                `json:"violations"`
	Extra        map[string]interface{}     `json:"extra"`
	Exhaustive   *bool                      `json:"exhaustive,omitempty"`
	Inconclusive int64                      `json:"inconclusive"`
	WallS        float64                    `json:"wall_s"`
}

// Flush writes the result file. Safe to call more than once (last wins).
func (r *Rec) Flush() {
	e := GetEnv()
	r.mu.Lock()
	defer r.mu.Unlock()
	if e.OutDir == "" {
		return
	}
	os.MkdirAll(e.OutDir, 0o755)
	base := filepath.Join(e.OutDir, fmt.Sprintf("%s-%d", r.Unit, e.Shard))
	hs := make([]uint64, 0, len(r.nt))
	for h := range r.nt {
		hs = append(hs, h)
	}
	sort.Slice(hs, func(i, j int) bool { return hs[i] < hs[j] })
	hb := make([]byte, 8*len(hs))
	for i, h := range hs {
		binary.LittleEndian.PutUint64(hb[8*i:], h)
	}
	os.WriteFile(base+".hashes", hb, 0o644)
	res := result{Property: r.Property, Unit: r.Unit, Shard: e.Shard, Evals: r.evals, NTCounted: r.ntCounted,
		NTHashes: len(hs), HashFile: base + ".hashes", Classes: r.classes, KnownHits: r.knownHits,
		KnownText: map[string]string{}, KnownEx: r.knownEx, Extra: r.extra, Exhaustive: r.exhaustive,
		Inconclusive: r.inconcl, WallS: time.Since(r.start).Seconds()}
	for s := range r.knownHits {
		res.KnownText[s] = r.known[s]
	}
	for _, s := range r.first {
		res.Samples = append(res.Samples, s.raw)
	}
	if r.largest != nil {
		res.Samples = append(res.Samples, r.largest.raw)
	}
	for _, v := range r.violations {
		res.Violations = append(res.Violations, v)
	}
	b, err := json.MarshalIndent(res, "", " ")
	if err != nil {
		b, _ = json.Marshal(map[string]interface{}{"property": r.Property, "unit": r.Unit, "shard": e.Shard, "marshal_error": err.Error()})
	}
	os.WriteFile(base+".json", b, 0o644)
}
