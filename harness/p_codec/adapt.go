// Package p_codec holds the codec checks C03 (round trip, canonical form,
// packet-id counter) and C04 (decoders are total and stay inside the input).
package p_codec

import (
	"bytes"
	"fmt"

	"github.com/mdzio/go-mqtt/message"
	"verifharness/ref/codec"
)

// build constructs the library message for p through the public setters only.
// why != "" means the setter API cannot express p (not a defect).
func build(p *codec.Packet) (m message.Message, why string, err error) { return buildV(p, 0) }

// connectWillVariants is the number of setter orders buildV knows for a
// CONNECT that carries a will: every one of them describes the same fields.
const connectWillVariants = 4

// buildV builds the message through the setters; variant selects one of the
// equivalent call orders (0 = the canonical one).
func buildV(p *codec.Packet, variant int) (m message.Message, why string, err error) {
	switch p.Type {
	case codec.CONNECT:
		c := message.NewConnectMessage()
		if err := c.SetVersion(p.Level); err != nil {
			return nil, "version not supported by SetVersion", nil
		}
		if message.SupportedVersions[p.Level] != p.ProtoName {
			return nil, "protocol name is implied by the version", nil
		}
		c.SetCleanSession(p.CleanSession())
		c.SetKeepAlive(p.KeepAlive)
		if len(p.ClientID) > 0 {
			if err := c.SetClientID(append([]byte(nil), p.ClientID...)); err != nil {
				return nil, "client id refused by SetClientID", nil
			}
		}
		if p.WillFlag() {
			wt, wm := append([]byte(nil), p.WillTopic...), append([]byte(nil), p.WillMessage...)
			qr := func() error {
				if err := c.SetWillQos(p.WillQoS()); err != nil {
					return err
				}
				c.SetWillRetain(p.WillRetain())
				return nil
			}
			switch variant {
			case 1: // the flag is implied by a non-empty will topic
				c.SetWillTopic(wt)
				c.SetWillMessage(wm)
				err = qr()
			case 2: // message first
				c.SetWillMessage(wm)
				c.SetWillTopic(wt)
				err = qr()
			case 3: // QoS and retain first
				err = qr()
				c.SetWillTopic(wt)
				c.SetWillMessage(wm)
			default:
				c.SetWillTopic(wt)
				c.SetWillMessage(wm)
				c.SetWillFlag(true)
				err = qr()
			}
			if err != nil {
				return nil, "", err
			}
		}
		if p.UserFlag() {
			if len(p.Username) == 0 {
				return nil, "user-name flag with zero-length user name cannot be set", nil
			}
			c.SetUsername(append([]byte(nil), p.Username...))
		}
		if p.PassFlag() {
			if len(p.Password) == 0 {
				return nil, "password flag with zero-length password cannot be set", nil
			}
			c.SetPassword(append([]byte(nil), p.Password...))
		}
		return c, "", nil
	case codec.CONNACK:
		c := message.NewConnackMessage()
		c.SetSessionPresent(p.SessionPresent)
		c.SetReturnCode(message.ConnackCode(p.ReturnCode))
		return c, "", nil
	case codec.PUBLISH:
		c := message.NewPublishMessage()
		if err := c.SetQoS(p.QoS); err != nil {
			return nil, "", err
		}
		c.SetDup(p.Dup)
		c.SetRetain(p.Retain)
		if err := c.SetTopic(append([]byte(nil), p.Topic...)); err != nil {
			return nil, "", err
		}
		c.SetPayload(append([]byte(nil), p.Payload...))
		if p.QoS > 0 {
			c.SetPacketID(p.PacketID)
		}
		return c, "", nil
	case codec.PUBACK, codec.PUBREC, codec.PUBREL, codec.PUBCOMP, codec.UNSUBACK:
		m, _ := message.Type(p.Type).New()
		m.(interface{ SetPacketID(uint16) }).SetPacketID(p.PacketID)
		return m, "", nil
	case codec.SUBSCRIBE:
		c := message.NewSubscribeMessage()
		for i, t := range p.Topics {
			for j := 0; j < i; j++ {
				if bytes.Equal(p.Topics[j], t) {
					return nil, "AddTopic merges repeated filters", nil
				}
			}
			if err := c.AddTopic(append([]byte(nil), t...), p.QoSs[i]); err != nil {
				return nil, "", err
			}
		}
		c.SetPacketID(p.PacketID)
		return c, "", nil
	case codec.SUBACK:
		c := message.NewSubackMessage()
		if err := c.AddReturnCodes(append([]byte(nil), p.ReturnCodes...)); err != nil {
			return nil, "", err
		}
		c.SetPacketID(p.PacketID)
		return c, "", nil
	case codec.UNSUBSCRIBE:
		c := message.NewUnsubscribeMessage()
		for i, t := range p.Topics {
			for j := 0; j < i; j++ {
				if bytes.Equal(p.Topics[j], t) {
					return nil, "AddTopic merges repeated filters", nil
				}
			}
			c.AddTopic(append([]byte(nil), t...))
		}
		c.SetPacketID(p.PacketID)
		return c, "", nil
	case codec.PINGREQ:
		return message.NewPingreqMessage(), "", nil
	case codec.PINGRESP:
		return message.NewPingrespMessage(), "", nil
	case codec.DISCONNECT:
		return message.NewDisconnectMessage(), "", nil
	}
	return nil, "", fmt.Errorf("unknown type %d", p.Type)
}

// fieldsOf reads a library message back through its getters.
func fieldsOf(m message.Message) *codec.Packet {
	p := &codec.Packet{Type: byte(m.Type())}
	switch c := m.(type) {
	case *message.ConnectMessage:
		p.Level = c.Version()
		p.ProtoName = message.SupportedVersions[c.Version()]
		var f byte
		if c.CleanSession() {
			f |= 2
		}
		if c.WillFlag() {
			f |= 4
		}
		f |= c.WillQos() << 3
		if c.WillRetain() {
			f |= 32
		}
		if c.PasswordFlag() {
			f |= 64
		}
		if c.UsernameFlag() {
			f |= 128
		}
		p.ConnectFlags = f
		p.KeepAlive = c.KeepAlive()
		p.ClientID, p.WillTopic, p.WillMessage = c.ClientID(), c.WillTopic(), c.WillMessage()
		p.Username, p.Password = c.Username(), c.Password()
	case *message.ConnackMessage:
		p.SessionPresent, p.ReturnCode = c.SessionPresent(), c.ReturnCode().Value()
	case *message.PublishMessage:
		p.Dup, p.QoS, p.Retain = c.Dup(), c.QoS(), c.Retain()
		p.Topic, p.Payload = c.Topic(), c.Payload()
		if p.QoS > 0 {
			p.PacketID = c.PacketID()
		}
	case *message.SubscribeMessage:
		p.PacketID, p.Topics, p.QoSs = c.PacketID(), c.Topics(), c.Qos()
	case *message.SubackMessage:
		p.PacketID, p.ReturnCodes = c.PacketID(), c.ReturnCodes()
	case *message.UnsubscribeMessage:
		p.PacketID, p.Topics = c.PacketID(), c.Topics()
	case *message.PingreqMessage, *message.PingrespMessage, *message.DisconnectMessage:
	default:
		p.PacketID = m.PacketID()
	}
	return p
}

// slicesOf lists the slice-valued fields a decoded message exposes.
func slicesOf(m message.Message) map[string][]byte {
	out := map[string][]byte{}
	switch c := m.(type) {
	case *message.ConnectMessage:
		out["clientID"], out["willTopic"], out["willMessage"] = c.ClientID(), c.WillTopic(), c.WillMessage()
		out["username"], out["password"] = c.Username(), c.Password()
	case *message.PublishMessage:
		out["topic"], out["payload"] = c.Topic(), c.Payload()
	case *message.SubscribeMessage:
		for i, t := range c.Topics() {
			out[fmt.Sprintf("topics[%d]", i)] = t
		}
	case *message.UnsubscribeMessage:
		for i, t := range c.Topics() {
			out[fmt.Sprintf("topics[%d]", i)] = t
		}
	case *message.SubackMessage:
		out["returnCodes"] = c.ReturnCodes()
	}
	return out
}

func beq(a, b []byte) bool { return bytes.Equal(a, b) }

// diff compares two field sets ("" = equal). Nil and empty slices are equal.
func diff(got, want *codec.Packet) string {
	if got.Type != want.Type {
		return fmt.Sprintf("type %d != %d", got.Type, want.Type)
	}
	chk := func(name string, g, w interface{}) string {
		return fmt.Sprintf("%s: got %v want %v", name, g, w)
	}
	switch want.Type {
	case codec.CONNECT:
		switch {
		case got.Level != want.Level:
			return chk("level", got.Level, want.Level)
		case got.ProtoName != want.ProtoName:
			return chk("protocol name", got.ProtoName, want.ProtoName)
		case got.ConnectFlags != want.ConnectFlags:
			return fmt.Sprintf("connect flags: got %08b want %08b", got.ConnectFlags, want.ConnectFlags)
		case got.KeepAlive != want.KeepAlive:
			return chk("keep alive", got.KeepAlive, want.KeepAlive)
		case !beq(got.ClientID, want.ClientID):
			return fmt.Sprintf("client id: got %q want %q", got.ClientID, want.ClientID)
		case !beq(got.WillTopic, want.WillTopic):
			return fmt.Sprintf("will topic: got %q want %q", got.WillTopic, want.WillTopic)
		case !beq(got.WillMessage, want.WillMessage):
			return fmt.Sprintf("will message: got %d bytes want %d bytes (or content differs)", len(got.WillMessage), len(want.WillMessage))
		case !beq(got.Username, want.Username):
			return fmt.Sprintf("user name: got %q want %q", got.Username, want.Username)
		case !beq(got.Password, want.Password):
			return fmt.Sprintf("password: got %q want %q", got.Password, want.Password)
		}
	case codec.CONNACK:
		if got.SessionPresent != want.SessionPresent || got.ReturnCode != want.ReturnCode {
			return fmt.Sprintf("connack: got (sp=%v code=%d) want (sp=%v code=%d)", got.SessionPresent, got.ReturnCode, want.SessionPresent, want.ReturnCode)
		}
	case codec.PUBLISH:
		switch {
		case got.Dup != want.Dup || got.QoS != want.QoS || got.Retain != want.Retain:
			return fmt.Sprintf("publish flags: got dup=%v qos=%d retain=%v want dup=%v qos=%d retain=%v", got.Dup, got.QoS, got.Retain, want.Dup, want.QoS, want.Retain)
		case !beq(got.Topic, want.Topic):
			return fmt.Sprintf("topic: got %q want %q", got.Topic, want.Topic)
		case got.PacketID != want.PacketID:
			return chk("packet id", got.PacketID, want.PacketID)
		case !beq(got.Payload, want.Payload):
			return fmt.Sprintf("payload: got %d bytes want %d bytes (or content differs)", len(got.Payload), len(want.Payload))
		}
	case codec.SUBSCRIBE, codec.UNSUBSCRIBE:
		if got.PacketID != want.PacketID {
			return chk("packet id", got.PacketID, want.PacketID)
		}
		if len(got.Topics) != len(want.Topics) {
			return fmt.Sprintf("number of topic filters: got %d want %d", len(got.Topics), len(want.Topics))
		}
		for i := range want.Topics {
			if !beq(got.Topics[i], want.Topics[i]) {
				return fmt.Sprintf("topic filter %d: got %q want %q", i, got.Topics[i], want.Topics[i])
			}
		}
		if want.Type == codec.SUBSCRIBE && !beq(got.QoSs, want.QoSs) {
			return fmt.Sprintf("requested QoS: got %v want %v", got.QoSs, want.QoSs)
		}
	case codec.SUBACK:
		if got.PacketID != want.PacketID {
			return chk("packet id", got.PacketID, want.PacketID)
		}
		if !beq(got.ReturnCodes, want.ReturnCodes) {
			return fmt.Sprintf("return codes: got %v want %v", got.ReturnCodes, want.ReturnCodes)
		}
	case codec.PINGREQ, codec.PINGRESP, codec.DISCONNECT:
	default:
		if got.PacketID != want.PacketID {
			return chk("packet id", got.PacketID, want.PacketID)
		}
	}
	return ""
}

// fataler is what *testing.T and *rapid.T share.
type fataler interface {
	Fatalf(format string, args ...any)
}
