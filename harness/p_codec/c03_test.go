package p_codec

import (
	"bytes"
	"encoding/json"
	"fmt"
	"sync"
	"testing"

	"github.com/mdzio/go-mqtt/message"
	"pgregory.net/rapid"
	"verifharness/ev"
	"verifharness/ref/codec"
)

// desc is the compact, hashable description of a generated packet.
type desc struct {
	Type    string `json:"type"`
	Remlen  int    `json:"remlen"`
	Flags   string `json:"flags,omitempty"`
	PID     uint16 `json:"pid,omitempty"`
	Lens    []int  `json:"lens,omitempty"`
	NTopics int    `json:"ntopics,omitempty"`
	Hash    uint64 `json:"content_hash"`
}

func isBoundary(n int) bool {
	for _, b := range boundaryLens {
		if n == b {
			return true
		}
	}
	return n == 2097151 || n == 2097152
}

func describe(p *codec.Packet) (desc, bool) {
	enc := codec.Encode(p)
	_, remlen, _, _ := codec.Header(enc)
	d := desc{Type: codec.TypeName(p.Type), Remlen: remlen, PID: p.PacketID, Hash: ev.HashBytes(enc), NTopics: len(p.Topics)}
	nt := isBoundary(remlen)
	switch p.Type {
	case codec.CONNECT:
		d.Flags = fmt.Sprintf("%08b", p.ConnectFlags)
		d.Lens = []int{len(p.ClientID), len(p.WillTopic), len(p.WillMessage), len(p.Username), len(p.Password)}
		nt = nt || p.ConnectFlags&^2 != 0
	case codec.PUBLISH:
		d.Flags = fmt.Sprintf("dup=%v qos=%d retain=%v", p.Dup, p.QoS, p.Retain)
		d.Lens = []int{len(p.Topic), len(p.Payload)}
		nt = nt || p.Dup || p.Retain || p.QoS > 0
	case codec.CONNACK:
		d.Flags = fmt.Sprintf("sp=%v code=%d", p.SessionPresent, p.ReturnCode)
		nt = nt || p.SessionPresent || p.ReturnCode != 0
	case codec.SUBSCRIBE, codec.UNSUBSCRIBE:
		nt = nt || len(p.Topics) >= 4
	case codec.SUBACK:
		d.Lens = []int{len(p.ReturnCodes)}
		nt = nt || len(p.ReturnCodes) >= 4
	}
	for _, l := range d.Lens {
		if isBoundary(l) && l > 2 {
			nt = true
		}
	}
	return d, nt
}

func sentinel(n int) []byte {
	b := make([]byte, n)
	for i := range b {
		b[i] = 0xA5
	}
	return b
}

func exactCap(b []byte) []byte {
	c := make([]byte, len(b))
	copy(c, b)
	return c[:len(c):len(c)]
}

// checkPacket runs the C03 clauses for one strict-valid packet.
func checkPacket(p *codec.Packet) (fail string, classes []string) {
	ref := codec.Encode(p)
	name := codec.TypeName(p.Type)

	// (a) field level: build through the setters, encode, compare
	m, why, err := build(p)
	if err != nil {
		return fmt.Sprintf("%s: setters rejected a valid field value: %v", name, err), nil
	}
	if why != "" {
		classes = append(classes, "not-buildable: "+why)
	} else {
		classes = append(classes, "buildable")
		L := m.Len()
		if L != len(ref) {
			return fmt.Sprintf("%s: Len() = %d, the MQTT encoding of the fields has %d bytes", name, L, len(ref)), classes
		}
		buf := make([]byte, L)
		n, err := m.Encode(buf)
		if err != nil {
			return fmt.Sprintf("%s: Encode of a message built through the setters failed: %v", name, err), classes
		}
		if n != L {
			return fmt.Sprintf("%s: Encode wrote %d bytes, Len() = %d", name, n, L), classes
		}
		if !bytes.Equal(buf, ref) {
			return fmt.Sprintf("%s: Encode output differs from the MQTT encoding at byte %d (got %x… want %x…)", name, firstDiff(buf, ref), clipb(buf), clipb(ref)), classes
		}
		// larger, sentinel-filled buffer: same bytes, nothing beyond n, every byte written
		m2, _, _ := build(p)
		big := sentinel(len(ref) + 16)
		n, err = m2.Encode(big)
		if err != nil || n != len(ref) {
			return fmt.Sprintf("%s: Encode into a larger buffer returned (%d, %v), want %d", name, n, err, len(ref)), classes
		}
		if !bytes.Equal(big[:n], ref) {
			return fmt.Sprintf("%s: Encode into a pre-filled buffer leaves byte %d unwritten or wrong (got %#x want %#x)", name, firstDiff(big[:n], ref), big[firstDiff(big[:n], ref)], ref[firstDiff(big[:n], ref)]), classes
		}
		if !bytes.Equal(big[n:], sentinel(16)) {
			return fmt.Sprintf("%s: Encode wrote beyond the %d bytes it reported", name, n), classes
		}
		// the same fields described through the setters in another order
		if p.Type == codec.CONNECT && p.WillFlag() {
			for v := 1; v < connectWillVariants; v++ {
				mv, _, err := buildV(p, v)
				if err != nil {
					return fmt.Sprintf("%s: setters rejected a valid field value (call order %d): %v", name, v, err), classes
				}
				out := make([]byte, len(ref)+8)
				n, err := mv.Encode(out)
				if err != nil || mv.Len() != len(ref) || n != len(ref) || !bytes.Equal(out[:n], ref) {
					return fmt.Sprintf("%s: built with setter call order %d (will topic %d bytes, will message %d bytes, flags %08b): Len() = %d, Encode returned (%d, %v), the MQTT encoding of the fields has %d bytes; first difference at byte %d", name, v, len(p.WillTopic), len(p.WillMessage), p.ConnectFlags, mv.Len(), n, err, len(ref), firstDiff(out[:min(n, len(out))], ref)), classes
				}
			}
			classes = append(classes, "connect-will-setter-orders")
			if len(p.WillMessage) == 0 {
				classes = append(classes, "connect-will-message-empty")
			}
		}
	}

	// (b) byte level: decode the reference encoding, compare fields, re-encode both ways
	in := exactCap(ref)
	d, _ := message.Type(p.Type).New()
	n, err := d.Decode(in)
	if err != nil {
		if p.Type == codec.CONNECT {
			if pol := codec.Policy(p); pol != 0 {
				classes = append(classes, "policy-refused-connect")
				if cc, ok := err.(message.ConnackCode); !ok || byte(cc) != pol {
					return fmt.Sprintf("CONNECT outside the server policy must be refused with code %d, got %v", pol, err), classes
				}
				return "", classes
			}
		}
		return fmt.Sprintf("%s: Decode rejected a well-formed packet: %v", name, err), classes
	}
	if p.Type == codec.CONNECT && codec.Policy(p) != 0 {
		return fmt.Sprintf("CONNECT outside the server policy (code %d) was accepted", codec.Policy(p)), classes
	}
	if n != len(ref) {
		return fmt.Sprintf("%s: Decode consumed %d of %d bytes", name, n, len(ref)), classes
	}
	if df := diff(fieldsOf(d), p); df != "" {
		return fmt.Sprintf("%s: decoded fields differ: %s", name, df), classes
	}
	if l := d.Len(); l != len(ref) {
		return fmt.Sprintf("%s: Len() after Decode = %d, packet has %d bytes", name, l, len(ref)), classes
	}
	out := sentinel(len(ref) + 8)
	n, err = d.Encode(out)
	if err != nil || n != len(ref) || !bytes.Equal(out[:n], ref) {
		return fmt.Sprintf("%s: re-encoding the decoded message (copy path) does not reproduce the packet: n=%d err=%v first difference at %d", name, n, err, firstDiff(out[:min(n, len(ref))], ref)), classes
	}
	if !bytes.Equal(out[len(ref):], sentinel(8)) {
		return fmt.Sprintf("%s: re-encode wrote beyond the packet", name), classes
	}
	// the same packet with a non-minimal remaining-length encoding (1-3 padding
	// continuation bytes): if the decoder accepts these bytes, re-encoding the
	// decoded message must reproduce exactly these bytes
	if _, _, hdr, ok := codec.Header(ref); ok == nil && hdr >= 2 {
		lenBytes := ref[1:hdr]
		for extra := 1; len(lenBytes)+extra <= 4; extra++ {
			padded := append([]byte{ref[0]}, lenBytes[:len(lenBytes)-1]...)
			padded = append(padded, lenBytes[len(lenBytes)-1]|0x80)
			for i := 1; i < extra; i++ {
				padded = append(padded, 0x80)
			}
			padded = append(padded, 0x00)
			padded = exactCap(append(padded, ref[hdr:]...))
			dp, _ := message.Type(p.Type).New()
			n, err := dp.Decode(padded)
			if err != nil {
				classes = append(classes, "padded-length-rejected")
				continue
			}
			classes = append(classes, "padded-length-accepted")
			if n != len(padded) {
				return fmt.Sprintf("%s with %d padding byte(s) in the remaining length: Decode accepted it and consumed %d of %d bytes", name, extra, n, len(padded)), classes
			}
			if l := dp.Len(); l != len(padded) {
				return fmt.Sprintf("%s with %d padding byte(s) in the remaining length: Len() after Decode = %d, the accepted packet has %d bytes", name, extra, l, len(padded)), classes
			}
			out := sentinel(len(padded) + 8)
			n, err = dp.Encode(out)
			if err != nil || n != len(padded) || !bytes.Equal(out[:n], padded) {
				return fmt.Sprintf("%s with %d padding byte(s) in the remaining length: re-encoding the decoded message does not reproduce the accepted bytes: n=%d (packet %d) err=%v first difference at %d", name, extra, n, len(padded), err, firstDiff(out[:min(n, len(padded))], padded)), classes
			}
		}
	}
	// re-serialise path: rebuild from the decoded fields through the setters
	got := codec.Clone(fieldsOf(d))
	rm, why2, err := build(got)
	if err != nil {
		return fmt.Sprintf("%s: setters rejected decoded field values: %v", name, err), classes
	}
	if why2 == "" {
		L := rm.Len()
		out := sentinel(L + 4)
		n, err := rm.Encode(out)
		if err != nil {
			return fmt.Sprintf("%s: re-serialising the decoded fields failed: %v", name, err), classes
		}
		if n != len(ref) || !bytes.Equal(out[:n], ref) {
			return fmt.Sprintf("%s: re-serialising the decoded fields gives %d bytes differing at %d from the %d-byte packet", name, n, firstDiff(out[:min(n, len(ref))], ref), len(ref)), classes
		}
	}
	return "", classes
}

func min(a, b int) int {
	if a < b {
		return a
	}
	return b
}

func firstDiff(a, b []byte) int {
	for i := 0; i < len(a) && i < len(b); i++ {
		if a[i] != b[i] {
			return i
		}
	}
	return min(len(a), len(b))
}

func clipb(b []byte) []byte {
	if len(b) > 24 {
		return b[:24]
	}
	return b
}

func failC03(t fataler, rec *ev.Rec, c interface{}, msg string) {
	p := rec.Violation("-", "input", msg, c, nil)
	t.Fatalf("VIOLATION %s replay=%s", msg, p)
}

func TestC03Fields(t *testing.T) {
	rec := ev.New("C03", "fields")
	defer rec.Flush()
	if rp := ev.LoadReplay(t, "fields"); rp != nil {
		var p codec.Packet
		json.Unmarshal(rp.Case, &p)
		if f, _ := checkPacket(&p); f != "" {
			failC03(t, rec, &p, f)
		}
		return
	} else if ev.Replaying() {
		t.Skip()
	}
	big := ev.Thorough()
	rapid.Check(t, func(t *rapid.T) {
		typ := rapid.SampledFrom([]byte{1, 1, 1, 2, 3, 3, 3, 3, 4, 5, 6, 7, 8, 8, 8, 9, 9, 10, 10, 10, 11, 12, 13, 14}).Draw(t, "type")
		p := genPacket(t, typ, big && rapid.IntRange(0, 40).Draw(t, "allow-2MiB") == 0)
		d, nt := describe(p)
		f, cls := checkPacket(p)
		cls = append(cls, "type:"+d.Type)
		rec.Case(d, nt, cls...)
		if f != "" {
			failC03(t, rec, p, f)
		}
	})
}

// TestC03Boundaries enumerates the boundary table: every listed length for
// every length-carrying field of every type (other fields minimal).
func TestC03Boundaries(t *testing.T) {
	rec := ev.New("C03", "boundaries")
	defer rec.Flush()
	if rp := ev.LoadReplay(t, "boundaries"); rp != nil {
		var p codec.Packet
		json.Unmarshal(rp.Case, &p)
		if f, _ := checkPacket(&p); f != "" {
			failC03(t, rec, &p, f)
		}
		return
	} else if ev.Replaying() {
		t.Skip()
	}
	e := ev.GetEnv()
	idx := 0
	var n, nt int64
	try := func(p *codec.Packet) {
		idx++
		if idx%e.Shards != e.Shard {
			return
		}
		n++
		d, isnt := describe(p)
		if isnt {
			nt++
			if nt%40 == 1 {
				rec.Sample(d)
			}
		}
		if f, _ := checkPacket(p); f != "" {
			failC03(t, rec, p, f)
		}
	}
	fill := func(n int, c byte) []byte { return bytes.Repeat([]byte{c}, n) }
	lens := append([]int{}, boundaryLens...)
	for _, l := range lens {
		// PUBLISH: topic length, payload length, and remaining length aimed at each varint boundary
		for q := byte(0); q <= 2; q++ {
			for _, fl := range []struct{ dup, ret bool }{{false, false}, {false, true}, {true, false}, {true, true}} {
				if q == 0 && fl.dup {
					continue
				}
				pid := uint16(0)
				if q > 0 {
					pid = 7
				}
				if l >= 1 {
					try(&codec.Packet{Type: codec.PUBLISH, QoS: q, Dup: fl.dup, Retain: fl.ret, PacketID: pid, Topic: fill(l, 't'), Payload: []byte("x")})
				}
				try(&codec.Packet{Type: codec.PUBLISH, QoS: q, Dup: fl.dup, Retain: fl.ret, PacketID: pid, Topic: []byte("t"), Payload: fill(l, 'p')})
			}
		}
		// CONNECT: every variable-length field
		for _, clean := range []byte{0, 2} {
			if l <= 23 && (l > 0 || clean == 2) {
				try(&codec.Packet{Type: codec.CONNECT, ProtoName: "MQTT", Level: 4, ConnectFlags: clean, KeepAlive: 10, ClientID: fill(l, 'c')})
			}
			if l >= 1 {
				try(&codec.Packet{Type: codec.CONNECT, ProtoName: "MQTT", Level: 4, ConnectFlags: clean | 4 | 8, KeepAlive: 10, ClientID: []byte("c"), WillTopic: fill(l, 'w'), WillMessage: []byte("m")})
			}
			try(&codec.Packet{Type: codec.CONNECT, ProtoName: "MQTT", Level: 4, ConnectFlags: clean | 4 | 32, KeepAlive: 10, ClientID: []byte("c"), WillTopic: []byte("w"), WillMessage: fill(l, 'm')})
			try(&codec.Packet{Type: codec.CONNECT, ProtoName: "MQIsdp", Level: 3, ConnectFlags: clean | 128, KeepAlive: 10, ClientID: []byte("c"), Username: fill(l, 'u')})
			try(&codec.Packet{Type: codec.CONNECT, ProtoName: "MQTT", Level: 4, ConnectFlags: clean | 128 | 64, KeepAlive: 10, ClientID: []byte("c"), Username: []byte("u"), Password: fill(l, 'p')})
		}
		// SUBSCRIBE / UNSUBSCRIBE: filter length and filter count
		if l >= 1 {
			try(&codec.Packet{Type: codec.SUBSCRIBE, PacketID: 9, Topics: [][]byte{fill(l, 'f')}, QoSs: []byte{1}})
			try(&codec.Packet{Type: codec.UNSUBSCRIBE, PacketID: 9, Topics: [][]byte{fill(l, 'f')}})
		}
		if l >= 1 && l <= 200 {
			s := &codec.Packet{Type: codec.SUBSCRIBE, PacketID: 9}
			u := &codec.Packet{Type: codec.UNSUBSCRIBE, PacketID: 9}
			for i := 0; i < l; i++ {
				f := []byte(fmt.Sprintf("%d", i))
				s.Topics, s.QoSs, u.Topics = append(s.Topics, f), append(s.QoSs, byte(i%3)), append(u.Topics, f)
			}
			try(s)
			try(u)
		}
		if l >= 1 && l <= 16385 {
			try(&codec.Packet{Type: codec.SUBACK, PacketID: 9, ReturnCodes: bytes.Repeat([]byte{0, 1, 2, 0x80}, l/4+1)[:l]})
		}
	}
	// remaining lengths exactly at the varint boundaries through the payload
	for _, target := range []int{127, 128, 16383, 16384, 2097151, 2097152} {
		for q := byte(0); q <= 2; q++ {
			over := 2 + 1
			pid := uint16(0)
			if q > 0 {
				over += 2
				pid = 65535
			}
			if target > 20000 && (!ev.Thorough() && q != 1) {
				continue
			}
			try(&codec.Packet{Type: codec.PUBLISH, QoS: q, PacketID: pid, Topic: []byte("t"), Payload: fill(target-over, 'p')})
		}
	}
	if ev.Thorough() && e.Shard == 0 {
		// the protocol maximum, once
		try(&codec.Packet{Type: codec.PUBLISH, QoS: 1, PacketID: 1, Topic: []byte("t"), Payload: fill(codec.MaxRemaining-5, 'p')})
	}
	for _, typ := range []byte{codec.PUBACK, codec.PUBREC, codec.PUBREL, codec.PUBCOMP, codec.UNSUBACK} {
		for _, id := range []uint16{1, 255, 256, 65535} {
			try(&codec.Packet{Type: typ, PacketID: id})
		}
	}
	for c := byte(0); c <= 5; c++ {
		try(&codec.Packet{Type: codec.CONNACK, ReturnCode: c})
	}
	try(&codec.Packet{Type: codec.CONNACK, SessionPresent: true})
	for _, typ := range []byte{codec.PINGREQ, codec.PINGRESP, codec.DISCONNECT} {
		try(&codec.Packet{Type: typ})
	}
	rec.Count(n, nt, "boundary-table")
	rec.Exhaustive(true)
	rec.Set("exhaustive_space_boundaries", "boundary table: every length in {0,1,2,126..129,16382..16385,65534,65535} for every length-carrying field of every packet type, all PUBLISH flag combinations, remaining lengths at 127/128/16383/16384/2097151/2097152 (and the 268435455 maximum once in the thorough tier)")
}

// TestC03Counter: more than 65536 consecutive encodes of messages without an
// explicit identifier; every automatically numbered packet must be well-formed
// with a non-zero identifier.
func TestC03Counter(t *testing.T) {
	rec := ev.New("C03", "counter")
	defer rec.Flush()
	if ev.Replaying() {
		if rp := ev.LoadReplay(t, "counter"); rp == nil {
			t.Skip()
		}
	}
	total := ev.Pick(70000, 200000)
	buf := make([]byte, 64)
	x := uint32(ev.GetEnv().Seed*2654435761) + uint32(ev.GetEnv().Shard)*977 + 1
	crossed := 0
	var first, last uint16
	for i := 0; i < total; i++ {
		x = x*1664525 + 1013904223
		kind := (x >> 20) % 4
		var m message.Message
		var what string
		switch kind {
		case 0, 1:
			pm := message.NewPublishMessage()
			pm.SetQoS(byte(kind) + 1)
			pm.SetTopic([]byte("a/b"))
			pm.SetPayload([]byte("p"))
			m, what = pm, fmt.Sprintf("PUBLISH qos %d", kind+1)
		case 2:
			sm := message.NewSubscribeMessage()
			sm.AddTopic([]byte("a/b"), 1)
			m, what = sm, "SUBSCRIBE"
		default:
			um := message.NewUnsubscribeMessage()
			um.AddTopic([]byte("a/b"))
			m, what = um, "UNSUBSCRIBE"
		}
		c := map[string]interface{}{"encode_number": i + 1, "kind": what}
		L := m.Len()
		n, err := m.Encode(buf[:L])
		if err != nil {
			failC03(t, rec, c, fmt.Sprintf("encode #%d of this process (%s without explicit id) failed: %v", i+1, what, err))
		}
		if n != L {
			failC03(t, rec, c, fmt.Sprintf("encode #%d of this process (%s without explicit id) wrote %d bytes but Len() = %d (automatic identifier %d)", i+1, what, n, L, m.PacketID()))
		}
		p, pn, perr := codec.Decode(buf[:n])
		if perr != nil || pn != n {
			failC03(t, rec, c, fmt.Sprintf("encode #%d of this process (%s without explicit id) is not a well-formed packet: %v (bytes %x)", i+1, what, perr, buf[:n]))
		}
		if p.PacketID == 0 || p.PacketID != m.PacketID() {
			failC03(t, rec, c, fmt.Sprintf("encode #%d: automatic identifier on the wire %d, message reports %d", i+1, p.PacketID, m.PacketID()))
		}
		if i == 0 {
			first = p.PacketID
		} else if p.PacketID < last {
			crossed++
		}
		last = p.PacketID
	}
	rec.Count(int64(total), 0, "auto-id-encodes")
	rec.CaseRaw([]byte(fmt.Sprintf(`{"history":"%d consecutive auto-id encodes","first_id":%d,"last_id":%d,"wraps":%d,"shard":%d}`, total, first, last, crossed, ev.GetEnv().Shard)), crossed >= 1, "counter-history")
}

// TestC03CounterConcurrent: the process-wide identifier counter is used by
// every goroutine that encodes a request without an explicit identifier. Several
// goroutines encode at once, long enough for the counter to pass 65535 many
// times: every packet must still be Len() bytes long, carry a non-zero
// identifier and decode.
func TestC03CounterConcurrent(t *testing.T) {
	rec := ev.New("C03", "counter-concurrent")
	defer rec.Flush()
	if ev.Replaying() {
		t.Skip() // a schedule cannot be replayed; the failure text names what was seen
	}
	workers := 12
	per := ev.Pick(3000000, 12000000) / ev.GetEnv().Shards
	var mu sync.Mutex
	var failure string
	var wg sync.WaitGroup
	for w := 0; w < workers; w++ {
		wg.Add(1)
		go func(w int) {
			defer wg.Done()
			buf := make([]byte, 64)
			pm := message.NewPublishMessage()
			for i := 0; i < per; i++ {
				var m message.Message
				var what string
				switch (i + w) % 3 {
				case 0:
					pm = message.NewPublishMessage()
					pm.SetQoS(1)
					pm.SetTopic([]byte("a/b"))
					pm.SetPayload([]byte("p"))
					m, what = pm, "PUBLISH qos 1"
				case 1:
					sm := message.NewSubscribeMessage()
					sm.AddTopic([]byte("a/b"), 1)
					m, what = sm, "SUBSCRIBE"
				default:
					um := message.NewUnsubscribeMessage()
					um.AddTopic([]byte("a/b"))
					m, what = um, "UNSUBSCRIBE"
				}
				L := m.Len()
				n, err := m.Encode(buf[:cap(buf)])
				if err == nil && n == L && m.PacketID() != 0 {
					if i%64 != 0 {
						continue // full decode of every 64th packet only
					}
					if p, pn, perr := codec.Decode(buf[:n]); perr == nil && pn == n && p.PacketID == m.PacketID() {
						continue
					}
				}
				mu.Lock()
				if failure == "" {
					failure = fmt.Sprintf("with %d goroutines encoding at once: %s without explicit identifier: Encode returned (%d, %v), Len() = %d, automatic identifier %d, bytes %x", workers, what, n, err, L, m.PacketID(), buf[:n])
				}
				mu.Unlock()
				return
			}
		}(w)
	}
	wg.Wait()
	total := int64(workers) * int64(per)
	rec.Count(total, total, "concurrent-auto-id-encodes")
	rec.CaseRaw([]byte(fmt.Sprintf(`{"goroutines":%d,"encodes_each":%d,"counter_passes":%d,"shard":%d}`, workers, per, total/65535, ev.GetEnv().Shard)), true, "counter-concurrent")
	if failure != "" {
		failC03(t, rec, map[string]interface{}{"goroutines": workers, "encodes_each": per}, failure)
	}
}
