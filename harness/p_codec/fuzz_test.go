package p_codec

import (
	"testing"

	"verifharness/ev"
	"verifharness/ref/codec"
)

// Native coverage-guided fuzz targets (thorough tiers of C04 and C03). The
// semantic oracle is inside the target; a failure is written as a replay file
// of the corresponding rapid unit, so `./check <id> --replay` reproduces it
// without the fuzzing engine.

func fuzzSeeds(f *testing.F) {
	for _, p := range basePackets() {
		enc := codec.Encode(p)
		f.Add(p.Type, enc)
		if len(enc) > 3 {
			f.Add(p.Type, enc[:len(enc)-1])
			f.Add(p.Type, append(append([]byte{}, enc...), 0))
		}
	}
	for _, h := range [][]byte{
		{}, {0x10}, {0x10, 0x00}, {0x10, 0xff, 0xff, 0xff, 0x7f}, {0x10, 0xff, 0xff, 0xff, 0xff, 0x7f}, {0x30, 0x80, 0x80, 0x80, 0x80, 0x08},
		{0x30, 0x02, 0xff, 0xff}, {0x32, 0x03, 0x00, 0x01, 'a'}, {0x82, 0x02, 0x00, 0x01}, {0x82, 0x05, 0x00, 0x01, 0x00, 0x09, 'a'},
		{0xa2, 0x04, 0x00, 0x01, 0xff, 0xfe}, {0x90, 0x02, 0x00, 0x01}, {0x20, 0x01, 0x00}, {0x40, 0x01, 0x00}, {0x62, 0x00}, {0xf0, 0x00},
	} {
		for _, t := range AllTypes {
			f.Add(t, h)
		}
	}
}

func FuzzDecode(f *testing.F) {
	fuzzSeeds(f)
	f.Fuzz(func(t *testing.T, dec byte, data []byte) {
		if len(data) > 1<<16 {
			return
		}
		c := DCase{Decoder: dec%14 + 1, Input: data, Origin: "native fuzzing"}
		if fail, _ := checkDecode(c); fail != "" {
			rec := ev.New("C04", "random")
			p := rec.Violation("-", "bytes", fail, c, nil)
			t.Fatalf("VIOLATION %s replay=%s", fail, p)
		}
	})
}

// FuzzRoundTrip: every byte string that is exactly one strict-valid packet
// must be accepted and re-encode to itself (C03, byte-level clause); the
// reference decoder supplies the fields for the full field-level check.
func FuzzRoundTrip(f *testing.F) {
	fuzzSeeds(f)
	f.Fuzz(func(t *testing.T, _ byte, data []byte) {
		if len(data) > 1<<16 {
			return
		}
		p, n, err := codec.Decode(data)
		if err != nil || n != len(data) {
			return
		}
		// keep to the ASCII domain of the check (UTF-8 validity is never decisive there)
		for _, s := range [][]byte{p.ClientID, p.Topic, p.WillTopic, p.Username} {
			for _, ch := range s {
				if ch < 0x20 || ch > 0x7e {
					return
				}
			}
		}
		for _, tp := range p.Topics {
			for _, ch := range tp {
				if ch < 0x20 || ch > 0x7e {
					return
				}
			}
		}
		if fail, _ := checkPacket(codec.Clone(p)); fail != "" {
			rec := ev.New("C03", "fields")
			path := rec.Violation("-", "input", fail, p, nil)
			t.Fatalf("VIOLATION %s replay=%s", fail, path)
		}
	})
}
