package p_codec

import (
	"bytes"
	"encoding/json"
	"fmt"
	"testing"

	"github.com/mdzio/go-mqtt/message"
	"pgregory.net/rapid"
	"verifharness/ev"
	"verifharness/ref/codec"
)

// C03, unit "accepted": the second half of the statement quantifies over every
// byte string a decoder accepts, also the ones it accepts leniently (a padded
// remaining length, an acknowledgement with bytes after its identifier, a
// zero-body packet with a remaining length, a body shorter than its frame).
// For such inputs the check asserts what the statement entails without taking
// sides on what "the packet" is when the frame and the content disagree:
//   - Encode writes exactly Len() bytes;
//   - what it wrote is accepted by the same decoder and gives equal fields;
//   - when the input is exactly one frame (fixed header + the remaining length
//     it announces), the re-encoding is the input, byte for byte.
//
// Inputs come from the C04 generator (valid packets, structured mutants, random bytes).
func checkAccepted(c DCase) (fail string, classes []string) {
	m, err := message.Type(c.Decoder).New()
	if err != nil {
		return "", nil
	}
	in := exactCap(c.Input)
	if _, derr := m.Decode(in); derr != nil {
		return "", []string{"rejected"}
	}
	name := codec.TypeName(c.Decoder)
	framed := frameLen(c.Input) == len(c.Input)
	if p, pn, perr := codec.Decode(c.Input); perr == nil && pn == len(c.Input) && p.Type == c.Decoder {
		classes = append(classes, "strict-valid")
	} else {
		classes = append(classes, "accepted-leniently")
	}
	if framed {
		classes = append(classes, "exactly-one-frame")
	}
	L := m.Len()
	out := sentinel(L + 8)
	k, err := m.Encode(out)
	if err != nil {
		return fmt.Sprintf("%s.Decode accepted a %d-byte input (%s), but the decoded message cannot be encoded: %v", name, len(c.Input), c.Origin, err), classes
	}
	if k != L {
		return fmt.Sprintf("%s decoded from a %d-byte input (%s): Len() = %d, Encode wrote %d bytes", name, len(c.Input), c.Origin, L, k), classes
	}
	if !bytes.Equal(out[k:], sentinel(8)) {
		return fmt.Sprintf("%s decoded from a %d-byte input (%s): Encode wrote beyond the %d bytes it reported", name, len(c.Input), c.Origin, k), classes
	}
	if framed && !bytes.Equal(out[:k], c.Input) {
		return fmt.Sprintf("%s.Decode accepted the %d-byte packet %x (%s); re-encoding the decoded message gives %d bytes differing at byte %d: %x", name, len(c.Input), clipb(c.Input), c.Origin, k, firstDiff(out[:min(k, len(c.Input))], c.Input), clipb(out[:k])), classes
	}
	m2, _ := message.Type(c.Decoder).New()
	if _, err := m2.Decode(exactCap(out[:k])); err != nil {
		return fmt.Sprintf("%s.Decode accepted the %d-byte input %x (%s); the re-encoding of the decoded message, %x, is rejected by the same decoder: %v", name, len(c.Input), clipb(c.Input), c.Origin, clipb(out[:k]), err), classes
	}
	if df := diff(fieldsOf(m2), fieldsOf(m)); df != "" {
		return fmt.Sprintf("%s.Decode accepted a %d-byte input (%s); decoding its re-encoding gives other fields: %s", name, len(c.Input), c.Origin, df), classes
	}
	// A message object that has been used before (the library itself decodes a CONNECT
	// into the session's existing object when a session is resumed): what Decode makes
	// of the input does not depend on what the object held.
	for pi, prev := range usedWith(c.Decoder) {
		mu := usedObject(c.Decoder, pi)
		if mu == nil {
			continue
		}
		if _, err := mu.Decode(exactCap(c.Input)); err != nil {
			return fmt.Sprintf("%s.Decode accepts the %d-byte input %x (%s) into a fresh message, but rejects it when the message object was used for another %s packet before (#%d): %v", name, len(c.Input), clipb(c.Input), c.Origin, name, pi, err), classes
		}
		if df := diff(fieldsOf(mu), fieldsOf(m)); df != "" {
			return fmt.Sprintf("%s.Decode of a %d-byte input (%s) into a message object that held another %s packet before (#%d, %x) gives other fields than into a fresh one: %s", name, len(c.Input), c.Origin, name, pi, clipb(prev), df), classes
		}
		ou := sentinel(L + 8)
		ku, err := mu.Encode(ou)
		if err != nil || mu.Len() != L || ku != k || !bytes.Equal(ou[:ku], out[:k]) {
			return fmt.Sprintf("%s decoded from a %d-byte input (%s) into a message object that held another %s packet before (#%d): Len() = %d, Encode returned (%d, %v) %x; a fresh object gives %d bytes %x", name, len(c.Input), c.Origin, name, pi, mu.Len(), ku, err, clipb(ou[:max(ku, 0)]), k, clipb(out[:k])), classes
		}
	}
	classes = append(classes, "also-decoded-into-used-objects")
	return "", classes
}

// usedObject returns a message object of the type that has been used before:
// for even pi it has decoded base packet pi/2 of its type, for odd pi it was
// built through the setters from that base packet and encoded once.
func usedObject(typ byte, pi int) message.Message {
	var bases []*codec.Packet
	for _, p := range basePackets() {
		if p.Type == typ {
			bases = append(bases, p)
		}
	}
	if pi/2 >= len(bases) {
		return nil
	}
	if pi%2 == 0 {
		m, _ := message.Type(typ).New()
		if _, err := m.Decode(exactCap(codec.Encode(bases[pi/2]))); err != nil {
			return nil
		}
		return m
	}
	m, _, err := build(bases[pi/2])
	if err != nil || m == nil {
		return nil
	}
	buf := make([]byte, m.Len()+4)
	if _, err := m.Encode(buf); err != nil {
		return nil
	}
	return m
}

var usedCache = map[byte][][]byte{}

// usedWith returns encodings of the base packets of a type (what a message
// object may have held before).
func usedWith(typ byte) [][]byte {
	if u, ok := usedCache[typ]; ok {
		return u
	}
	var u [][]byte
	for _, p := range basePackets() {
		if p.Type == typ {
			u = append(u, codec.Encode(p), codec.Encode(p)) // one entry per way of having used the object (see usedObject)
		}
	}
	usedCache[typ] = u
	return u
}

// frameLen is the length of the frame the fixed header announces (the remaining
// length is read as the library reads it: any varint, also a padded one); -1 if
// there is no complete header.
func frameLen(b []byte) int {
	remlen, mult := 0, 1
	for i := 1; i < len(b) && i <= 10; i++ {
		remlen += int(b[i]&127) * mult
		if b[i]&128 == 0 {
			return i + 1 + remlen
		}
		mult *= 128
	}
	return -1
}

func TestC03Accepted(t *testing.T) {
	rec := ev.New("C03", "accepted")
	defer rec.Flush()
	if rp := ev.LoadReplay(t, "accepted"); rp != nil {
		var c DCase
		json.Unmarshal(rp.Case, &c)
		if f, _ := checkAccepted(c); f != "" {
			failC03(t, rec, c, f)
		}
		return
	} else if ev.Replaying() {
		t.Skip()
	}
	// first every single-site structured mutant of the base packets (the C04 table),
	// to the decoder of the packet's own type
	e := ev.GetEnv()
	idx := 0
	for bi, p := range basePackets() {
		var stop bool
		mutants(p, func(kind string, in []byte) {
			idx++
			if stop || idx%e.Shards != e.Shard {
				return
			}
			c := DCase{Decoder: p.Type, Input: in, Origin: fmt.Sprintf("%s of base packet %d (%s)", kind, bi, codec.TypeName(p.Type))}
			f, cls := checkAccepted(c)
			lenient := len(cls) > 0 && cls[0] == "accepted-leniently"
			if lenient {
				rec.CaseRaw([]byte(fmt.Sprintf("table/%d/%s/%x", bi, kind, in[:min(len(in), 24)])), true)
			} else {
				rec.CaseRaw(nil, false)
			}
			for _, cl := range cls {
				rec.Class("table:"+cl, 1)
			}
			if f != "" {
				stop = true
				failC03(t, rec, c, f)
			}
		})
	}
	rapid.Check(t, func(t *rapid.T) {
		c := genMutant(t)
		f, cls := checkAccepted(c)
		nt := false
		for _, cl := range cls {
			if cl == "accepted-leniently" {
				nt = true
			}
		}
		rec.Case(c, nt, cls...)
		if f != "" {
			failC03(t, rec, c, f)
		}
	})
}
