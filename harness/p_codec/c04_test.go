package p_codec

import (
	"bytes"
	"encoding/json"
	"fmt"
	"strings"
	"testing"
	"unsafe"

	"github.com/mdzio/go-mqtt/message"
	"pgregory.net/rapid"
	"verifharness/ev"
	"verifharness/ref/codec"
)

// DCase is one decoder input (replay format).
type DCase struct {
	Decoder byte   `json:"decoder"` // packet type whose Decode is called
	Input   []byte `json:"input"`
	Origin  string `json:"origin"` // how the input was derived
}

const canary = 0xC7

// decodeIn runs Decode on input placed in the middle of a canary-filled
// arena. spare=false gives the slice cap == len.
func decodeIn(c DCase, spare bool) (fail string, accepted bool, n int) {
	return decodeInUsed(c, spare, -1)
}

// decodeInUsed is decodeIn with a message object that has been used before
// (usedObject(type, used); used < 0: a fresh object).
func decodeInUsed(c DCase, spare bool, used int) (fail string, accepted bool, n int) {
	const pad = 96
	arena := make([]byte, pad+len(c.Input)+pad)
	for i := range arena {
		arena[i] = canary
	}
	copy(arena[pad:], c.Input)
	var in []byte
	if spare {
		in = arena[pad : pad+len(c.Input)]
	} else {
		in = arena[pad : pad+len(c.Input) : pad+len(c.Input)]
	}
	m, err := message.Type(c.Decoder).New()
	if err != nil {
		return "", false, 0
	}
	if used >= 0 {
		if m = usedObject(c.Decoder, used); m == nil {
			return "", false, -1
		}
	}
	var derr error
	panicked := func() (p interface{}) {
		defer func() { p = recover() }()
		n, derr = m.Decode(in)
		return nil
	}()
	if panicked != nil {
		return fmt.Sprintf("%s.Decode panicked on a %d-byte input (%s): %v", codec.TypeName(c.Decoder), len(c.Input), c.Origin, panicked), false, 0
	}
	for i := 0; i < pad; i++ {
		if arena[i] != canary || arena[pad+len(c.Input)+i] != canary {
			return fmt.Sprintf("%s.Decode wrote outside its input (%s)", codec.TypeName(c.Decoder), c.Origin), false, n
		}
	}
	if !bytes.Equal(arena[pad:pad+len(c.Input)], c.Input) && derr != nil {
		// decoders may alias but must not modify rejected input
		return fmt.Sprintf("%s.Decode modified an input it rejected (%s)", codec.TypeName(c.Decoder), c.Origin), false, n
	}
	if n < 0 || n > len(c.Input) {
		return fmt.Sprintf("%s.Decode returned byte count %d for a %d-byte input (err=%v, %s)", codec.TypeName(c.Decoder), n, len(c.Input), derr, c.Origin), derr == nil, n
	}
	if derr != nil {
		return "", false, n
	}
	// accepted: every exposed field lies inside input[0:n]
	base := uintptr(unsafe.Pointer(&arena[pad]))
	for name, f := range slicesOf(m) {
		if len(f) == 0 {
			continue
		}
		p := uintptr(unsafe.Pointer(unsafe.SliceData(f)))
		if p < base || p+uintptr(len(f)) > base+uintptr(n) {
			where := "outside the input slice"
			if p >= base && p+uintptr(len(f)) <= base+uintptr(len(c.Input)) {
				where = fmt.Sprintf("beyond the %d bytes reported as decoded", n)
			} else if p >= base && p < base+uintptr(len(arena)-pad) {
				where = "past the end of the input slice (into its spare capacity)"
			}
			return fmt.Sprintf("%s.Decode accepted a %d-byte input (%s) and exposes field %s (%d bytes) %s", codec.TypeName(c.Decoder), len(c.Input), c.Origin, name, len(f), where), true, n
		}
	}
	return "", true, n
}

// checkDecode is the C04 oracle for one input.
func checkDecode(c DCase) (fail string, classes []string) {
	f1, acc1, n1 := decodeIn(c, false)
	if f1 != "" {
		return f1, nil
	}
	f2, acc2, n2 := decodeIn(c, true)
	if f2 != "" {
		return f2 + " [slice with spare capacity]", nil
	}
	if acc1 != acc2 || n1 != n2 {
		return fmt.Sprintf("%s.Decode decides differently depending on the capacity behind the slice: accepted %v/%v, n %d/%d (%s)", codec.TypeName(c.Decoder), acc1, acc2, n1, n2, c.Origin), nil
	}
	// a message object that was used before (the library decodes the CONNECT of a resumed
	// session into the session's existing object): same decision, same count, and every
	// field it then exposes lies inside THIS input
	for pi, prev := range usedWith(c.Decoder) {
		f3, acc3, n3 := decodeInUsed(c, false, pi)
		if n3 == -1 && f3 == "" {
			continue // no such used object
		}
		if f3 != "" {
			return fmt.Sprintf("%s [message object that had decoded base packet #%d of its type before: %x]", f3, pi, clipb(prev)), nil
		}
		if acc3 != acc1 || n3 != n1 {
			return fmt.Sprintf("%s.Decode decides differently for a message object that had decoded another packet (%x) before: accepted %v/%v, n %d/%d (%s)", codec.TypeName(c.Decoder), clipb(prev), acc1, acc3, n1, n3, c.Origin), nil
		}
	}
	// the well-formed direction: strict-valid packets of the decoder's type, exactly filling the slice
	p, pn, perr := codec.Decode(c.Input)
	strict := perr == nil && pn == len(c.Input) && p.Type == c.Decoder
	switch {
	case strict:
		classes = append(classes, "strict-valid")
		m, _ := message.Type(c.Decoder).New()
		in := exactCap(c.Input)
		n, err := m.Decode(in)
		if pol := byte(0); p.Type == codec.CONNECT {
			if pol = codec.Policy(p); pol != 0 {
				classes = append(classes, "policy-refused")
				if cc, ok := err.(message.ConnackCode); !ok || byte(cc) != pol {
					return fmt.Sprintf("CONNECT outside the server policy must be refused with connack code %d, Decode returned %v", pol, err), classes
				}
				return "", classes
			}
		}
		if err != nil {
			return fmt.Sprintf("%s.Decode rejected a well-formed packet (%s): %v", codec.TypeName(c.Decoder), c.Origin, err), classes
		}
		if n != len(c.Input) {
			return fmt.Sprintf("%s.Decode consumed %d of the %d bytes of a well-formed packet", codec.TypeName(c.Decoder), n, len(c.Input)), classes
		}
		if df := diff(fieldsOf(m), p); df != "" {
			return fmt.Sprintf("%s.Decode of a well-formed packet (%s): %s", codec.TypeName(c.Decoder), c.Origin, df), classes
		}
	case acc1:
		classes = append(classes, "lenient-accept")
	default:
		classes = append(classes, "rejected")
	}
	if acc1 != (perr == nil && p != nil && p.Type == c.Decoder) {
		classes = append(classes, "decision-differs-from-reference")
	}
	return "", classes
}

// ---- base packets and structured mutants -------------------------------------------

func basePackets() []*codec.Packet {
	b := func(s string) []byte { return []byte(s) }
	return []*codec.Packet{
		{Type: codec.CONNECT, ProtoName: "MQTT", Level: 4, ConnectFlags: 2, KeepAlive: 60, ClientID: b("client1")},
		{Type: codec.CONNECT, ProtoName: "MQTT", Level: 4, ConnectFlags: 2 | 4 | 8 | 32 | 64 | 128, KeepAlive: 10, ClientID: b("c"), WillTopic: b("will/t"), WillMessage: b("gone"), Username: b("user"), Password: b("secret")},
		{Type: codec.CONNECT, ProtoName: "MQIsdp", Level: 3, ConnectFlags: 0, KeepAlive: 0, ClientID: b("abc")},
		{Type: codec.CONNECT, ProtoName: "MQTT", Level: 4, ConnectFlags: 2, KeepAlive: 1, ClientID: b("")},
		{Type: codec.CONNECT, ProtoName: "MQTT", Level: 4, ConnectFlags: 4 | 16, KeepAlive: 1, ClientID: b("x"), WillTopic: b("w"), WillMessage: b("")},
		{Type: codec.CONNECT, ProtoName: "MQTT", Level: 4, ConnectFlags: 2 | 128, KeepAlive: 1, ClientID: b("x"), Username: b("u")},
		{Type: codec.CONNACK}, {Type: codec.CONNACK, SessionPresent: true}, {Type: codec.CONNACK, ReturnCode: 5},
		{Type: codec.PUBLISH, Topic: b("a/b"), Payload: b("hello")},
		{Type: codec.PUBLISH, Topic: b("a"), Payload: b("")},
		{Type: codec.PUBLISH, QoS: 1, PacketID: 7, Topic: b("a/b"), Payload: b("hello")},
		{Type: codec.PUBLISH, QoS: 2, Dup: true, Retain: true, PacketID: 65535, Topic: b("topic/x/y"), Payload: bytes.Repeat(b("p"), 130)},
		{Type: codec.PUBLISH, QoS: 1, PacketID: 1, Topic: b("t"), Payload: b("")},
		{Type: codec.PUBACK, PacketID: 7}, {Type: codec.PUBREC, PacketID: 256}, {Type: codec.PUBREL, PacketID: 7}, {Type: codec.PUBCOMP, PacketID: 65535},
		{Type: codec.SUBSCRIBE, PacketID: 3, Topics: [][]byte{b("a/#")}, QoSs: []byte{1}},
		{Type: codec.SUBSCRIBE, PacketID: 4, Topics: [][]byte{b("a"), b("b/+"), b("#"), b("c/d"), b("e")}, QoSs: []byte{0, 1, 2, 0, 1}},
		{Type: codec.SUBACK, PacketID: 3, ReturnCodes: []byte{1}}, {Type: codec.SUBACK, PacketID: 4, ReturnCodes: []byte{0, 1, 2, 0x80, 1}},
		{Type: codec.UNSUBSCRIBE, PacketID: 5, Topics: [][]byte{b("a/#")}},
		{Type: codec.UNSUBSCRIBE, PacketID: 6, Topics: [][]byte{b("a"), b("b"), b("c"), b("d"), b("e")}},
		{Type: codec.UNSUBACK, PacketID: 5},
		{Type: codec.PINGREQ}, {Type: codec.PINGRESP}, {Type: codec.DISCONNECT},
	}
}

// lpOffsets returns the offsets (into the encoding) of the 2-byte length prefixes.
func lpOffsets(p *codec.Packet, enc []byte) []int {
	_, _, hdr, _ := codec.Header(enc)
	var offs []int
	o := hdr
	add := func(l int) { offs = append(offs, o); o += 2 + l }
	switch p.Type {
	case codec.CONNECT:
		add(len(p.ProtoName))
		o += 4
		add(len(p.ClientID))
		if p.WillFlag() {
			add(len(p.WillTopic))
			add(len(p.WillMessage))
		}
		if p.UserFlag() {
			add(len(p.Username))
		}
		if p.PassFlag() {
			add(len(p.Password))
		}
	case codec.PUBLISH:
		add(len(p.Topic))
	case codec.SUBSCRIBE:
		o += 2
		for _, t := range p.Topics {
			add(len(t))
			o++
		}
	case codec.UNSUBSCRIBE:
		o += 2
		for _, t := range p.Topics {
			add(len(t))
		}
	}
	return offs
}

func clone(b []byte) []byte { return append([]byte(nil), b...) }

// mutants enumerates the single-site structured mutants of one base packet.
func mutants(p *codec.Packet, emit func(kind string, in []byte)) {
	enc := codec.Encode(p)
	_, remlen, hdr, _ := codec.Header(enc)
	body := enc[hdr:]
	emit("valid", enc)
	for cut := 0; cut < len(enc); cut++ {
		emit(fmt.Sprintf("truncated@%d", cut), clone(enc[:cut]))
	}
	// remaining-length corruption (body kept)
	for _, d := range []int{-2, -1, 1, 2} {
		if remlen+d >= 0 {
			emit(fmt.Sprintf("remlen%+d", d), append(append([]byte{enc[0]}, codec.Varint(remlen+d)...), body...))
		}
	}
	emit("remlen=0", append([]byte{enc[0], 0}, body...))
	emit("remlen=max", append([]byte{enc[0], 0xff, 0xff, 0xff, 0x7f}, body...))
	emit("remlen-unterminated", append([]byte{enc[0], 0xff, 0xff, 0xff, 0xff, 0xff}, body...))
	emit("remlen-nonminimal", append([]byte{enc[0], byte(remlen%128) | 0x80, byte(remlen / 128)}, body...))
	emit("remlen-5byte", append([]byte{enc[0], 0x80 | byte(remlen%128), 0x80, 0x80, 0x80, 0x00}, body...))
	// five-byte remaining lengths whose value does not fit 28 bits (bits 28..34 set)
	for _, last := range []byte{0x01, 0x08, 0x0f, 0x10, 0x40, 0x70, 0x7f} {
		emit(fmt.Sprintf("remlen-5byte-high=%#x", last), append([]byte{enc[0], 0x80 | byte(remlen%128), 0x80 | byte(remlen/128%128), 0x80, 0x80, last}, body...))
		emit(fmt.Sprintf("remlen-5byte-high-ff=%#x", last), append([]byte{enc[0], 0xff, 0xff, 0xff, 0xff, last}, body...))
	}
	// longer continuation chains (6..10 length bytes)
	for n := 5; n <= 10; n++ {
		h := []byte{enc[0]}
		for i := 0; i < n; i++ {
			h = append(h, 0x80|byte(i+1))
		}
		emit(fmt.Sprintf("remlen-%dbyte", n+1), append(append(h, 0x01), body...))
	}
	emit("trailing-bytes", append(clone(enc), 0xde, 0xad))
	// length prefixes
	for i, off := range lpOffsets(p, enc) {
		l := int(enc[off])<<8 | int(enc[off+1])
		for _, v := range []int{0, l - 1, l + 1, l + 2, 0xffff} {
			if v < 0 || v == l {
				continue
			}
			m := clone(enc)
			m[off], m[off+1] = byte(v>>8), byte(v)
			emit(fmt.Sprintf("lp%d=%d", i, v), m)
		}
	}
	// flag nibble
	for f := byte(0); f < 16; f++ {
		m := clone(enc)
		m[0] = m[0]&0xf0 | f
		emit(fmt.Sprintf("flags=%d", f), m)
	}
	// connect flags
	if p.Type == codec.CONNECT {
		off := hdr + 2 + len(p.ProtoName) + 1
		for f := 0; f < 256; f++ {
			m := clone(enc)
			m[off] = byte(f)
			emit(fmt.Sprintf("connectflags=%d", f), m)
		}
		for _, lv := range []byte{0, 3, 4, 5, 255} {
			m := clone(enc)
			m[off-1] = lv
			emit(fmt.Sprintf("level=%d", lv), m)
		}
	}
	// single bit flips
	for i := 0; i < len(enc) && i < 80; i++ {
		for bit := 0; bit < 8; bit++ {
			m := clone(enc)
			m[i] ^= 1 << bit
			emit(fmt.Sprintf("bitflip@%d.%d", i, bit), m)
		}
	}
}

func mutationClass(kind string) string {
	for i, c := range kind {
		if c == '@' || c == '=' || c == '+' || c == '-' && i > 0 {
			return kind[:i]
		}
	}
	return kind
}

func failC04(t fataler, rec *ev.Rec, c DCase, msg string) {
	p := rec.Violation("-", "bytes", msg, c, nil)
	t.Fatalf("VIOLATION %s replay=%s", msg, p)
}

// TestC04Mutants enumerates all single-site structured mutants of the base
// packets, each fed to the decoder of its own type and of every other type.
func TestC04Mutants(t *testing.T) {
	rec := ev.New("C04", "mutants")
	defer rec.Flush()
	if rp := ev.LoadReplay(t, "mutants"); rp != nil {
		var c DCase
		json.Unmarshal(rp.Case, &c)
		var remlen int
		if k := strings.Index(c.Origin, "remaining length "); k >= 0 && strings.Contains(c.Origin, "input clipped") {
			// a multi-megabyte input is stored by its recipe
			fmt.Sscanf(c.Origin[k:], "remaining length %d", &remlen)
			c.Input = largePublish(remlen)
			if strings.Contains(c.Origin, "cut by one byte") {
				c.Input = c.Input[:len(c.Input)-1]
			}
		}
		if f, _ := checkDecode(c); f != "" {
			failC04(t, rec, c, f)
		}
		return
	} else if ev.Replaying() {
		t.Skip()
	}
	e := ev.GetEnv()
	idx := 0
	var n int64
	seen := map[string]bool{}
	classes := map[string]int64{}
	var firstFail *DCase
	var firstMsg string
	failures := map[string]int{}
	examples := map[string]string{}
	for bi, p := range basePackets() {
		mutants(p, func(kind string, in []byte) {
			for _, dec := range AllTypes {
				if dec != p.Type && !(kind == "valid" || len(kind) > 9 && kind[:9] == "truncated" || kind[:5] == "flags") {
					continue // other decoders get the valid packet, truncations and flag variants
				}
				idx++
				if idx%e.Shards != e.Shard {
					continue
				}
				n++
				c := DCase{Decoder: dec, Input: in, Origin: fmt.Sprintf("%s of base packet %d (%s)", kind, bi, codec.TypeName(p.Type))}
				f, cls := checkDecode(c)
				key := fmt.Sprintf("%d/%s/%d", dec, mutationClass(kind), len(in)/16)
				nt := kind != "valid"
				for _, cl := range cls {
					classes[cl]++
				}
				classes["mutation:"+mutationClass(kind)]++
				if nt && !seen[key] {
					seen[key] = true
					rec.CaseRaw([]byte(key), true)
					if len(seen)%97 == 1 {
						rec.Sample(c)
					}
				} else {
					rec.CaseRaw(nil, false)
				}
				if f != "" {
					if len(examples) < 60 {
						k := codec.TypeName(dec) + ": " + f[len(f)-min(len(f), 70):]
						if _, ok := examples[k]; !ok {
							examples[k] = fmt.Sprintf("%x <- %s", in, kind)
						}
					}
					failures[mutationClass(kind)]++
					if firstFail == nil || len(c.Input) < len(firstFail.Input) {
						cc := c
						firstFail, firstMsg = &cc, f
					}
				}
			}
		})
	}
	// well-formed packets whose remaining length needs three and four bytes (2 MiB
	// and more), and the same cut by one byte
	if e.Shard == 0 {
		for _, remlen := range []int{2097151, 2097152, 2097153, 3000000} {
			enc := largePublish(remlen)
			for _, c := range []DCase{
				{Decoder: codec.PUBLISH, Input: enc, Origin: fmt.Sprintf("valid PUBLISH with remaining length %d", remlen)},
				{Decoder: codec.PUBLISH, Input: enc[:len(enc)-1], Origin: fmt.Sprintf("PUBLISH with remaining length %d cut by one byte", remlen)},
			} {
				n++
				f, cls := checkDecode(c)
				for _, cl := range cls {
					classes[cl]++
				}
				classes["remaining-length>=2MiB"]++
				rec.CaseRaw([]byte(c.Origin), true)
				if f != "" && firstFail == nil {
					cc := DCase{Decoder: c.Decoder, Input: c.Input[:64], Origin: c.Origin + " (input clipped to 64 bytes in this file; rebuild it from the origin)"}
					firstFail, firstMsg = &cc, f
					failures["large"]++
				}
			}
		}
	}
	for k, v := range classes {
		rec.Class(k, v)
	}
	rec.Exhaustive(true)
	rec.Set("exhaustive_space_mutants", "all single-site structured mutants (truncation at every offset, remaining-length variants, every length prefix set to 0/len-1/len+1/len+2/0xFFFF, all 16 flag nibbles, all 256 connect-flag bytes, protocol levels, every single bit flip in the first 80 bytes, trailing bytes) of the base packets in basePackets(), to the decoder of the packet's own type; valid packets, truncations and flag variants also to the 13 other decoders")
	if firstFail != nil {
		rec.Set("failing_mutation_classes", failures)
		rec.Set("failure_examples", examples)
		failC04(t, rec, *firstFail, firstMsg)
	}
}

// largePublish builds the QoS 1 PUBLISH with the given remaining length.
func largePublish(remlen int) []byte {
	p := &codec.Packet{Type: codec.PUBLISH, QoS: 1, PacketID: 77, Topic: []byte("big/one")}
	p.Payload = make([]byte, remlen-2-len(p.Topic)-2)
	for i := range p.Payload {
		p.Payload[i] = byte(i * 7)
	}
	return codec.Encode(p)
}

func genMutant(t *rapid.T) DCase {
	if rapid.IntRange(0, 4).Draw(t, "pure-random") == 0 {
		n := rapid.IntRange(0, 8).Draw(t, "rlen")
		if rapid.IntRange(0, 3).Draw(t, "longer") == 0 {
			n = rapid.IntRange(0, 64).Draw(t, "rlen2")
		}
		b := rapid.SliceOfN(rapid.Byte(), n, n).Draw(t, "bytes")
		dec := rapid.SampledFrom(AllTypes).Draw(t, "decoder")
		if len(b) > 0 && rapid.Bool().Draw(t, "match-type") {
			b[0] = dec<<4 | b[0]&15
		}
		return DCase{Decoder: dec, Input: b, Origin: "random bytes"}
	}
	typ := rapid.SampledFrom(AllTypes).Draw(t, "type")
	p := genPacket(t, typ, false)
	// keep generated packets small here: the mutation sites are what matters
	if len(p.Payload) > 300 {
		p.Payload = p.Payload[:300]
	}
	enc := codec.Encode(p)
	dec := typ
	if rapid.IntRange(0, 9).Draw(t, "other-decoder") == 0 {
		dec = rapid.SampledFrom(AllTypes).Draw(t, "decoder")
	}
	origin := "valid " + codec.TypeName(typ)
	nm := rapid.IntRange(0, 3).Draw(t, "nmut")
	for i := 0; i < nm && len(enc) > 0; i++ {
		switch rapid.IntRange(0, 5).Draw(t, "mut") {
		case 0:
			cut := rapid.IntRange(0, len(enc)-1).Draw(t, "cut")
			enc = enc[:cut]
			origin += fmt.Sprintf(" truncated@%d", cut)
		case 1:
			i := rapid.IntRange(0, len(enc)-1).Draw(t, "pos")
			enc = clone(enc)
			enc[i] ^= 1 << rapid.IntRange(0, 7).Draw(t, "bit")
			origin += fmt.Sprintf(" bitflip@%d", i)
		case 2:
			offs := lpOffsets(p, codec.Encode(p))
			if len(offs) > 0 {
				off := rapid.SampledFrom(offs).Draw(t, "lpoff")
				if off+1 < len(enc) {
					enc = clone(enc)
					v := rapid.SampledFrom([]int{0, 1, 0xffff, 0x7fff, len(enc), len(enc) - off, len(enc) - off - 1, len(enc) - off - 2, len(enc) - off - 3}).Draw(t, "lpv")
					enc[off], enc[off+1] = byte(v>>8), byte(v)
					origin += fmt.Sprintf(" lp@%d=%d", off, v)
				}
			}
		case 3:
			_, remlen, hdr, err := codec.Header(enc)
			if err == nil && rapid.IntRange(0, 3).Draw(t, "overlong") == 0 {
				// over-long remaining length: 5..9 bytes with random high bits
				h := []byte{enc[0]}
				for i, n := 0, rapid.IntRange(4, 8).Draw(t, "nlen"); i < n; i++ {
					h = append(h, 0x80|byte(rapid.IntRange(0, 127).Draw(t, "lb")))
				}
				h = append(h, byte(rapid.IntRange(0, 127).Draw(t, "lastlb")))
				enc = append(h, enc[hdr:]...)
				origin += " overlong-remlen"
			} else if err == nil {
				d := rapid.SampledFrom([]int{-3, -2, -1, 1, 2, 3, 127, 16384}).Draw(t, "dremlen")
				if remlen+d >= 0 {
					enc = append(append([]byte{enc[0]}, codec.Varint(remlen+d)...), enc[hdr:]...)
					origin += fmt.Sprintf(" remlen%+d", d)
				}
			}
		case 4:
			enc = clone(enc)
			enc[0] = enc[0]&0xf0 | byte(rapid.IntRange(0, 15).Draw(t, "flags"))
			origin += " flags"
		case 5:
			extra := rapid.SliceOfN(rapid.Byte(), 1, 4).Draw(t, "extra")
			enc = append(clone(enc), extra...)
			origin += " trailing"
		}
	}
	return DCase{Decoder: dec, Input: enc, Origin: origin}
}

func TestC04Random(t *testing.T) {
	rec := ev.New("C04", "random")
	defer rec.Flush()
	if rp := ev.LoadReplay(t, "random"); rp != nil {
		var c DCase
		json.Unmarshal(rp.Case, &c)
		if f, _ := checkDecode(c); f != "" {
			failC04(t, rec, c, f)
		}
		return
	} else if ev.Replaying() {
		t.Skip()
	}
	rapid.Check(t, func(t *rapid.T) {
		c := genMutant(t)
		f, cls := checkDecode(c)
		nt := c.Origin != "random bytes" && !(len(c.Origin) > 5 && c.Origin[:5] == "valid" && len(cls) > 0 && cls[0] == "strict-valid")
		rec.Case(c, nt, cls...)
		if f != "" {
			failC04(t, rec, c, f)
		}
	})
}
