package p_codec

import (
	"bytes"
	"encoding/json"
	"fmt"
	"strings"
	"testing"

	"github.com/mdzio/go-mqtt/message"
	"pgregory.net/rapid"
	"verifharness/ev"
	"verifharness/ref/codec"
)

// Mod is one setter call applied to a decoded message (replay format).
type Mod struct {
	K string `json:"k"`
	V int    `json:"v,omitempty"`
	B []byte `json:"b,omitempty"`
}

type ModCase struct {
	P    *codec.Packet `json:"packet"`
	Mods []Mod         `json:"mods"`
	// Origin of the message the setters are applied to: "" = decoded from its
	// encoding; "built" = built through the setters; "+encoded" appended = Encode was
	// called once before the modification (an encoded message may be changed and
	// encoded again, e.g. re-sent with DUP or another identifier)
	Origin string `json:"origin,omitempty"`
}

func flag(f *byte, bit byte, v bool) {
	if v {
		*f |= bit
	} else {
		*f &^= bit
	}
}

// applyMod applies m to the library message and to the model packet.
// ok=false: not applicable to this packet (skipped).
func applyMod(lm message.Message, p *codec.Packet, m Mod) (ok bool, err error) {
	switch c := lm.(type) {
	case *message.PublishMessage:
		switch m.K {
		case "qos":
			q := byte(m.V % 3)
			if err := c.SetQoS(q); err != nil {
				return true, err
			}
			if q > 0 && p.QoS == 0 {
				if m.V%2 == 0 {
					c.SetPacketID(uint16(m.V%65535) + 1)
					p.PacketID = uint16(m.V%65535) + 1
				} else {
					p.PacketID = 0 // left to the library: Encode must assign a non-zero identifier
				}
			}
			if q == 0 {
				p.PacketID = 0
				if p.Dup { // DUP must be 0 with QoS 0: clear it through the API as a caller would
					c.SetDup(false)
					p.Dup = false
				}
			}
			p.QoS = q
		case "retain":
			c.SetRetain(m.V%2 == 1)
			p.Retain = m.V%2 == 1
		case "dup":
			if p.QoS == 0 {
				return false, nil
			}
			c.SetDup(m.V%2 == 1)
			p.Dup = m.V%2 == 1
		case "pid":
			if p.QoS == 0 {
				return false, nil
			}
			c.SetPacketID(uint16(m.V%65535) + 1)
			p.PacketID = uint16(m.V%65535) + 1
		case "topic":
			if len(m.B) == 0 {
				return false, nil
			}
			if err := c.SetTopic(append([]byte(nil), m.B...)); err != nil {
				return true, err
			}
			p.Topic = m.B
		case "payload":
			c.SetPayload(append([]byte(nil), m.B...))
			p.Payload = m.B
		default:
			return false, nil
		}
		return true, nil
	case *message.ConnectMessage:
		switch m.K {
		case "keepalive":
			c.SetKeepAlive(uint16(m.V))
			p.KeepAlive = uint16(m.V)
		case "clean":
			if len(p.ClientID) == 0 {
				return false, nil
			}
			c.SetCleanSession(m.V%2 == 1)
			flag(&p.ConnectFlags, 2, m.V%2 == 1)
		case "clientid":
			if len(m.B) == 0 || len(m.B) > 23 {
				return false, nil
			}
			if err := c.SetClientID(append([]byte(nil), m.B...)); err != nil {
				return true, err
			}
			p.ClientID = m.B
		case "willqos":
			if !p.WillFlag() {
				return false, nil
			}
			if err := c.SetWillQos(byte(m.V % 3)); err != nil {
				return true, err
			}
			p.ConnectFlags = p.ConnectFlags&^24 | byte(m.V%3)<<3
		case "willretain":
			if !p.WillFlag() {
				return false, nil
			}
			c.SetWillRetain(m.V%2 == 1)
			flag(&p.ConnectFlags, 32, m.V%2 == 1)
		case "username":
			if len(m.B) == 0 || p.PassFlag() {
				return false, nil
			}
			c.SetUsername(append([]byte(nil), m.B...))
			p.Username = m.B
			flag(&p.ConnectFlags, 128, true)
		case "password":
			if len(m.B) == 0 || !p.UserFlag() {
				return false, nil
			}
			c.SetPassword(append([]byte(nil), m.B...))
			p.Password = m.B
			flag(&p.ConnectFlags, 64, true)
		case "version":
			lv := byte(3 + m.V%2)
			if err := c.SetVersion(lv); err != nil {
				return true, err
			}
			p.Level, p.ProtoName = lv, message.SupportedVersions[lv]
		case "clearpass":
			// SetPassword with nothing takes the password out again; the expected packet
			// carries the password flag as the message's own getter reports it afterwards
			if !p.UserFlag() {
				return false, nil
			}
			c.SetPassword(nil)
			p.Password = nil
			flag(&p.ConnectFlags, 64, c.PasswordFlag())
		case "clearuser":
			if p.PassFlag() {
				return false, nil // a password needs a user name
			}
			c.SetUsername(nil)
			p.Username = nil
			flag(&p.ConnectFlags, 128, c.UsernameFlag())
		case "willmsg":
			if !p.WillFlag() || len(m.B) == 0 {
				return false, nil
			}
			c.SetWillMessage(append([]byte(nil), m.B...))
			p.WillMessage = m.B
		default:
			return false, nil
		}
		return true, nil
	case *message.ConnackMessage:
		switch m.K {
		case "sp":
			if p.ReturnCode != 0 {
				return false, nil
			}
			c.SetSessionPresent(m.V%2 == 1)
			p.SessionPresent = m.V%2 == 1
		case "code":
			if p.SessionPresent {
				return false, nil
			}
			c.SetReturnCode(message.ConnackCode(m.V % 6))
			p.ReturnCode = byte(m.V % 6)
		default:
			return false, nil
		}
		return true, nil
	case *message.SubscribeMessage:
		switch m.K {
		case "requalify":
			// AddTopic of a filter that is already in the list replaces its QoS (by another value)
			if len(p.Topics) == 0 {
				return false, nil
			}
			i := m.V % len(p.Topics)
			q := (p.QoSs[i] + 1 + byte(m.V/7%2)) % 3
			if err := c.AddTopic(append([]byte(nil), p.Topics[i]...), q); err != nil {
				return true, err
			}
			for j := range p.Topics { // the list holds a filter once; repeated entries of the reference packet follow
				if bytes.Equal(p.Topics[j], p.Topics[i]) {
					p.QoSs[j] = q
				}
			}
		case "addtopic":
			if len(m.B) == 0 {
				return false, nil
			}
			for i, t := range p.Topics {
				if bytes.Equal(t, m.B) { // AddTopic of an existing filter replaces its QoS
					if err := c.AddTopic(append([]byte(nil), m.B...), byte(m.V%3)); err != nil {
						return true, err
					}
					p.QoSs[i] = byte(m.V % 3)
					return true, nil
				}
			}
			if err := c.AddTopic(append([]byte(nil), m.B...), byte(m.V%3)); err != nil {
				return true, err
			}
			p.Topics, p.QoSs = append(p.Topics, m.B), append(p.QoSs, byte(m.V%3))
		case "rmtopic":
			// RemoveTopic of a listed filter (the first entry that equals it) or of one that is not listed
			if len(p.Topics) < 2 {
				return false, nil // a SUBSCRIBE keeps at least one filter
			}
			if m.V%5 == 0 {
				c.RemoveTopic([]byte("not/listed/\x01"))
				return true, nil
			}
			i := m.V % len(p.Topics)
			for j := range p.Topics {
				if bytes.Equal(p.Topics[j], p.Topics[i]) {
					i = j
					break
				}
			}
			c.RemoveTopic(append([]byte(nil), p.Topics[i]...))
			p.Topics = append(append([][]byte(nil), p.Topics[:i]...), p.Topics[i+1:]...)
			p.QoSs = append(append([]byte(nil), p.QoSs[:i]...), p.QoSs[i+1:]...)
		case "pid":
			c.SetPacketID(uint16(m.V%65535) + 1)
			p.PacketID = uint16(m.V%65535) + 1
		default:
			return false, nil
		}
		return true, nil
	case *message.UnsubscribeMessage:
		switch m.K {
		case "addtopic":
			if len(m.B) == 0 {
				return false, nil
			}
			if m.V%4 == 0 && len(p.Topics) > 0 {
				m.B = p.Topics[m.V/4%len(p.Topics)] // a filter that is already listed
			}
			for _, t := range p.Topics {
				if bytes.Equal(t, m.B) { // AddTopic of a listed filter changes nothing
					c.AddTopic(append([]byte(nil), m.B...))
					return true, nil
				}
			}
			c.AddTopic(append([]byte(nil), m.B...))
			p.Topics = append(p.Topics, m.B)
		case "rmtopic":
			if len(p.Topics) < 2 {
				return false, nil // an UNSUBSCRIBE keeps at least one filter
			}
			if m.V%5 == 0 {
				c.RemoveTopic([]byte("not/listed/\x01"))
				return true, nil
			}
			i := m.V % len(p.Topics)
			for j := range p.Topics {
				if bytes.Equal(p.Topics[j], p.Topics[i]) {
					i = j
					break
				}
			}
			c.RemoveTopic(append([]byte(nil), p.Topics[i]...))
			p.Topics = append(append([][]byte(nil), p.Topics[:i]...), p.Topics[i+1:]...)
		case "pid":
			c.SetPacketID(uint16(m.V%65535) + 1)
			p.PacketID = uint16(m.V%65535) + 1
		default:
			return false, nil
		}
		return true, nil
	case *message.SubackMessage:
		switch m.K {
		case "addcode":
			rc := []byte{0, 1, 2, 0x80}[m.V%4]
			if err := c.AddReturnCode(rc); err != nil {
				return true, err
			}
			p.ReturnCodes = append(p.ReturnCodes, rc)
		case "pid":
			c.SetPacketID(uint16(m.V%65535) + 1)
			p.PacketID = uint16(m.V%65535) + 1
		default:
			return false, nil
		}
		return true, nil
	}
	if m.K == "pid" && p.Type != codec.PINGREQ && p.Type != codec.PINGRESP && p.Type != codec.DISCONNECT {
		lm.(interface{ SetPacketID(uint16) }).SetPacketID(uint16(m.V%65535) + 1)
		p.PacketID = uint16(m.V%65535) + 1
		return true, nil
	}
	return false, nil
}

// checkModify: decode a well-formed packet, change fields through the
// setters, and the message must encode as the MQTT encoding of the new fields.
func checkModify(c ModCase) (fail string, applied int) {
	p := codec.Clone(c.P)
	ref := codec.Encode(p)
	name := codec.TypeName(p.Type)
	if _, why, _ := build(p); why != "" {
		return "", 0 // the setter API cannot express this packet, so it cannot re-serialise it either
	}
	var lm message.Message
	if strings.HasPrefix(c.Origin, "built") {
		lm, _, _ = build(p)
	} else {
		lm, _ = message.Type(p.Type).New()
		in := exactCap(ref)
		if _, err := lm.Decode(in); err != nil {
			return "", 0 // acceptance is judged by the other units
		}
	}
	how := "decoded"
	if strings.HasPrefix(c.Origin, "built") {
		how = "built through the setters"
	}
	if strings.HasSuffix(c.Origin, "+encoded") {
		how += ", encoded once,"
		first := make([]byte, len(ref)+4)
		if n, err := lm.Encode(first); err != nil || !bytes.Equal(first[:n], ref) {
			return "", 0 // judged by the fields unit
		}
	}
	name += " " + how
	var hist []string
	for _, m := range c.Mods {
		if pm, isPub := lm.(*message.PublishMessage); isPub && m.K == "clone" {
			// Clone is a deep copy: the copy stands for the same packet, whatever
			// happens to the original afterwards
			if p.QoS > 0 && p.PacketID == 0 {
				continue // the identifier is still to be assigned
			}
			cl, err := pm.Clone()
			if err != nil {
				return fmt.Sprintf("%s: Clone failed: %v", name, err), applied
			}
			pm.SetDup(!pm.Dup())
			pm.SetRetain(!pm.Retain())
			if pl := pm.Payload(); len(pl) > 0 {
				pl[0] ^= 0xff
			}
			if tp := pm.Topic(); len(tp) > 0 {
				tp[len(tp)-1] ^= 0x01
			}
			pm.SetPayload([]byte("something else"))
			lm = cl
			applied++
			hist = append(hist, "clone")
			continue
		}
		ok, err := applyMod(lm, p, m)
		if err != nil {
			return fmt.Sprintf("%s: setter %s rejected a valid value: %v", name, m.K, err), applied
		}
		if ok {
			applied++
			hist = append(hist, m.K)
		}
	}
	autoID := p.Type == codec.PUBLISH && p.QoS > 0 && p.PacketID == 0
	if autoID {
		p.PacketID = 1 // placeholder of the right size; replaced by the assigned identifier below
	}
	want := codec.Encode(p)
	if _, _, err := codec.Decode(want); err != nil {
		return "", 0 // the modification left the strict-valid space (harness-side guard)
	}
	L := lm.Len()
	if L != len(want) {
		return fmt.Sprintf("%s and then changed through %v: Len() = %d, the MQTT encoding of its fields has %d bytes", name, hist, L, len(want)), applied
	}
	out := sentinel(len(want) + 8)
	n, err := lm.Encode(out)
	if err != nil {
		return fmt.Sprintf("%s and then changed through %v: Encode failed: %v", name, hist, err), applied
	}
	if autoID {
		id := lm.PacketID()
		if id == 0 {
			return fmt.Sprintf("%s at QoS 0 and raised to QoS %d through %v without an explicit identifier: Encode assigned no packet identifier", name, p.QoS, hist), applied
		}
		p.PacketID = id
		want = codec.Encode(p)
	}
	if n != len(want) || !bytes.Equal(out[:n], want) {
		return fmt.Sprintf("%s and then changed through %v: Encode wrote %d bytes differing at byte %d from the MQTT encoding of its fields (%d bytes)", name, hist, n, firstDiff(out[:min(n, len(want))], want), len(want)), applied
	}
	if !bytes.Equal(out[n:], sentinel(8)) {
		return fmt.Sprintf("%s: Encode wrote beyond the bytes it reported", name), applied
	}
	if df := diff(fieldsOf(lm), p); df != "" {
		return fmt.Sprintf("%s and then changed through %v: getters disagree with what was set: %s", name, hist, df), applied
	}
	// the caller's output buffer is the caller's: when it is reused, the message
	// still is what it was (encoding it again gives the same packet)
	for i := range out {
		out[i] = 0
	}
	out2 := sentinel(len(want) + 8)
	n2, err := lm.Encode(out2)
	if err != nil || n2 != len(want) || !bytes.Equal(out2[:n2], want) {
		return fmt.Sprintf("%s and then changed through %v: after the buffer of the first Encode was overwritten, a second Encode returned (%d, %v) and differs at byte %d from the first packet: the message kept a reference into the caller's buffer", name, hist, n2, err, firstDiff(out2[:min(n2, len(want))], want)), applied
	}
	return "", applied
}

func TestC03Modify(t *testing.T) {
	rec := ev.New("C03", "modify")
	defer rec.Flush()
	if rp := ev.LoadReplay(t, "modify"); rp != nil {
		var c ModCase
		json.Unmarshal(rp.Case, &c)
		if f, _ := checkModify(c); f != "" {
			failC03(t, rec, c, f)
		}
		return
	} else if ev.Replaying() {
		t.Skip()
	}
	kinds := map[byte][]string{
		codec.PUBLISH:     {"qos", "qos", "retain", "dup", "pid", "topic", "payload", "clone"},
		codec.CONNECT:     {"keepalive", "clean", "clientid", "willqos", "willretain", "username", "password", "willmsg", "clearpass", "clearuser", "version", "version"},
		codec.CONNACK:     {"sp", "code"},
		codec.SUBSCRIBE:   {"addtopic", "pid", "requalify", "requalify", "rmtopic"},
		codec.UNSUBSCRIBE: {"addtopic", "pid", "rmtopic", "rmtopic"},
		codec.SUBACK:      {"addcode", "pid"},
	}
	rapid.Check(t, func(t *rapid.T) {
		typ := rapid.SampledFrom([]byte{3, 3, 3, 1, 1, 2, 8, 10, 9, 4, 5, 6, 7, 11}).Draw(t, "type")
		p := genPacket(t, typ, false)
		if len(p.Payload) > 2000 {
			p.Payload = p.Payload[:2000]
		}
		ks := kinds[typ]
		if ks == nil {
			ks = []string{"pid"}
		}
		var mods []Mod
		for i, n := 0, rapid.IntRange(1, 3).Draw(t, "nmods"); i < n; i++ {
			m := Mod{K: rapid.SampledFrom(ks).Draw(t, "mod"), V: rapid.IntRange(0, 70000).Draw(t, "v")}
			switch m.K {
			case "topic", "addtopic":
				m.B = genASCII(t, "mb", rapid.IntRange(1, 12).Draw(t, "mbl"), "abc/")
			case "clientid", "username":
				m.B = genASCII(t, "mb", rapid.IntRange(1, 12).Draw(t, "mbl"), alnum)
			case "payload", "password", "willmsg":
				m.B = genPayload(t, "mb", rapid.IntRange(0, 40).Draw(t, "mbl"))
			}
			mods = append(mods, m)
		}
		c := ModCase{P: p, Mods: mods, Origin: rapid.SampledFrom([]string{"", "", "built", "built+encoded", "+encoded"}).Draw(t, "origin")}
		f, applied := checkModify(c)
		d, _ := describe(p)
		cls := []string{"type:" + d.Type}
		for _, m := range mods {
			cls = append(cls, "mod:"+m.K)
		}
		cls = append(cls, "origin:"+c.Origin)
		rec.Case(struct {
			D desc  `json:"packet"`
			M []Mod `json:"mods"`
		}{d, mods}, applied > 0, cls...)
		if f != "" {
			failC03(t, rec, c, f)
		}
	})
}
