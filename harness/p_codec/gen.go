package p_codec

import (
	"pgregory.net/rapid"
	"verifharness/ref/codec"
)

// AllTypes lists the 14 packet types.
var AllTypes = []byte{1, 2, 3, 4, 5, 6, 7, 8, 9, 10, 11, 12, 13, 14}

var boundaryLens = []int{0, 1, 2, 126, 127, 128, 129, 16382, 16383, 16384, 16385, 65534, 65535}

func genLen(t *rapid.T, label string, min, max int) int {
	var n int
	switch rapid.IntRange(0, 9).Draw(t, label+"-cls") {
	case 0, 1:
		n = rapid.SampledFrom(boundaryLens).Draw(t, label+"-b")
	case 2:
		n = rapid.IntRange(0, max).Draw(t, label+"-u")
	default:
		n = rapid.IntRange(0, 40).Draw(t, label+"-s")
	}
	if n < min {
		n = min
	}
	if n > max {
		n = max
	}
	return n
}

const alnum = "0123456789abcdefghijklmnopqrstuvwxyzABCDEFGHIJKLMNOPQRSTUVWXYZ"

// genASCII draws n printable bytes; the content is derived from one drawn
// value so that long strings cost one draw.
func genASCII(t *rapid.T, label string, n int, alphabet string) []byte {
	if n == 0 {
		return []byte{}
	}
	seed := rapid.Uint32().Draw(t, label+"-seed")
	b := make([]byte, n)
	x := seed | 1
	for i := range b {
		x = x*1664525 + 1013904223
		b[i] = alphabet[int(x>>16)%len(alphabet)]
	}
	return b
}

const topicChars = "abcdefghijklmnopqrstuvwxyz0123456789/_-. $"
const filterChars = "abcdefghij0123456789/+#"

func genPayload(t *rapid.T, label string, n int) []byte {
	if n == 0 {
		return []byte{}
	}
	seed := rapid.Uint32().Draw(t, label+"-seed")
	b := make([]byte, n)
	x := seed | 1
	for i := range b {
		x = x*1664525 + 1013904223
		b[i] = byte(x >> 24)
	}
	return b
}

func genPID(t *rapid.T) uint16 {
	if rapid.IntRange(0, 3).Draw(t, "pid-cls") == 0 {
		return rapid.SampledFrom([]uint16{1, 2, 255, 256, 257, 32767, 32768, 65534, 65535}).Draw(t, "pid-b")
	}
	return uint16(rapid.IntRange(1, 65535).Draw(t, "pid"))
}

// genPacket draws a strict-valid packet of the given type.
// big allows payloads that push the remaining length over 2 MiB (rare).
func genPacket(t *rapid.T, typ byte, big bool) *codec.Packet {
	p := &codec.Packet{Type: typ}
	switch typ {
	case codec.CONNECT:
		if rapid.IntRange(0, 4).Draw(t, "v3") == 0 {
			p.ProtoName, p.Level = "MQIsdp", 3
		} else {
			p.ProtoName, p.Level = "MQTT", 4
		}
		var f byte
		if rapid.Bool().Draw(t, "clean") {
			f |= 2
		}
		if rapid.Bool().Draw(t, "will") {
			f |= 4
			f |= byte(rapid.IntRange(0, 2).Draw(t, "willqos")) << 3
			if rapid.Bool().Draw(t, "willretain") {
				f |= 32
			}
			p.WillTopic = genASCII(t, "willtopic", genLen(t, "willtopic", 1, 65535), topicChars)
			p.WillMessage = genPayload(t, "willmsg", genLen(t, "willmsg", 0, 65535))
		}
		if rapid.Bool().Draw(t, "user") {
			f |= 128
			p.Username = genASCII(t, "username", genLen(t, "username", 0, 65535), alnum)
			if rapid.Bool().Draw(t, "pass") {
				f |= 64
				p.Password = genPayload(t, "password", genLen(t, "password", 0, 65535))
			}
		}
		p.ConnectFlags = f
		p.KeepAlive = uint16(rapid.SampledFrom([]int{0, 1, 30, 60, 255, 256, 65535}).Draw(t, "ka"))
		switch rapid.IntRange(0, 5).Draw(t, "idcls") {
		case 0:
			if p.CleanSession() {
				p.ClientID = []byte{}
				break
			}
			fallthrough
		case 1:
			p.ClientID = genASCII(t, "cid", rapid.IntRange(24, 32).Draw(t, "cidlen"), alnum+" !#%&()*+,-./:;<=>?@[]^_{|}~")
		default:
			p.ClientID = genASCII(t, "cid", rapid.IntRange(1, 23).Draw(t, "cidlen"), alnum)
		}
	case codec.CONNACK:
		p.ReturnCode = byte(rapid.IntRange(0, 5).Draw(t, "code"))
		if p.ReturnCode == 0 {
			p.SessionPresent = rapid.Bool().Draw(t, "sp")
		}
	case codec.PUBLISH:
		p.QoS = byte(rapid.IntRange(0, 2).Draw(t, "qos"))
		p.Retain = rapid.Bool().Draw(t, "retain")
		if p.QoS > 0 {
			p.Dup = rapid.Bool().Draw(t, "dup")
			p.PacketID = genPID(t)
		}
		p.Topic = genASCII(t, "topic", genLen(t, "topic", 1, 65535), topicChars)
		over := 2 + len(p.Topic)
		if p.QoS > 0 {
			over += 2
		}
		switch c := rapid.IntRange(0, 11).Draw(t, "remlen-cls"); {
		case c <= 2: // aim the remaining length at a varint boundary
			targets := []int{127, 128, 16383, 16384}
			if big {
				targets = append(targets, 2097151, 2097152)
			}
			tg := rapid.SampledFrom(targets).Draw(t, "remlen-target")
			n := tg - over
			if n < 0 {
				n = 0
			}
			p.Payload = genPayload(t, "payload", n)
		default:
			p.Payload = genPayload(t, "payload", genLen(t, "payload", 0, 70000))
		}
	case codec.PUBACK, codec.PUBREC, codec.PUBREL, codec.PUBCOMP, codec.UNSUBACK:
		p.PacketID = genPID(t)
	case codec.SUBSCRIBE, codec.UNSUBSCRIBE:
		p.PacketID = genPID(t)
		n := rapid.SampledFrom([]int{1, 1, 2, 3, 4, 5, 6, 8, 12, 40}).Draw(t, "ntopics")
		short := rapid.Bool().Draw(t, "short-filters")
		for i := 0; i < n; i++ {
			var l int
			if short {
				l = rapid.IntRange(1, 3).Draw(t, "flen")
			} else {
				l = genLen(t, "flen", 1, 2000)
			}
			var f []byte
			if rapid.IntRange(0, 9).Draw(t, "repeat") == 0 && i > 0 {
				f = append([]byte(nil), p.Topics[rapid.IntRange(0, i-1).Draw(t, "rep")]...)
			} else {
				f = genASCII(t, "filter", l, filterChars)
			}
			p.Topics = append(p.Topics, f)
			if typ == codec.SUBSCRIBE {
				p.QoSs = append(p.QoSs, byte(rapid.IntRange(0, 2).Draw(t, "rq")))
			}
		}
	case codec.SUBACK:
		p.PacketID = genPID(t)
		n := genLen(t, "ncodes", 1, 300)
		for i := 0; i < n; i++ {
			p.ReturnCodes = append(p.ReturnCodes, rapid.SampledFrom([]byte{0, 1, 2, 0x80}).Draw(t, "rc"))
		}
	}
	return p
}
