// Package census inspects goroutines through runtime.Stack: the id of the
// calling goroutine, the scheduler state of every goroutine, and which of them
// have frames of the library under test.
package census

import (
	"bytes"
	"runtime"
	"strconv"
	"strings"
	"syscall"
	"time"
)

// GID returns the id of the calling goroutine.
func GID() int64 {
	var buf [64]byte
	n := runtime.Stack(buf[:], false)
	// "goroutine 123 [running]:"
	b := buf[:n]
	b = b[len("goroutine "):]
	i := bytes.IndexByte(b, ' ')
	id, _ := strconv.ParseInt(string(b[:i]), 10, 64)
	return id
}

// G is one goroutine of a census.
type G struct {
	ID    int64
	State string // e.g. "sync.Cond.Wait", "running", "IO wait"
	Stack string
}

// LibFrame marks frames of the library under test.
const LibFrame = "github.com/mdzio/go-mqtt/"

// Lib reports whether the goroutine has a frame of the library.
func (g G) Lib() bool { return strings.Contains(g.Stack, LibFrame) }

// Parked reports whether the goroutine is blocked in a synchronisation
// primitive, channel operation, network wait or sleep (i.e. not in motion).
func (g G) Parked() bool {
	if g.State == "semacquire" {
		// sync.WaitGroup.Wait shows up as plain "semacquire" (so does a goroutine
		// waiting for the runtime's world semaphore, which is in motion)
		return strings.Contains(g.Stack, "sync.(*WaitGroup).Wait")
	}
	switch g.State {
	case "sync.Cond.Wait", "sync.Mutex.Lock", "sync.RWMutex.Lock", "sync.RWMutex.RLock",
		"chan receive", "chan send", "select", "IO wait", "sleep", "sync.WaitGroup.Wait", "chan receive (nil chan)", "select (no cases)":
		return true
	}
	return false
}

// LockBlocked reports whether the goroutine waits on a mutex/condition.
func (g G) LockBlocked() bool {
	if g.State == "semacquire" {
		return strings.Contains(g.Stack, "sync.(*WaitGroup).Wait")
	}
	switch g.State {
	case "sync.Cond.Wait", "sync.Mutex.Lock", "sync.RWMutex.Lock", "sync.RWMutex.RLock", "sync.WaitGroup.Wait":
		return true
	}
	return false
}

// All returns every goroutine of the process.
func All() []G {
	buf := make([]byte, 1<<16)
	for {
		n := runtime.Stack(buf, true)
		if n < len(buf) {
			buf = buf[:n]
			break
		}
		buf = make([]byte, 2*len(buf))
	}
	var out []G
	for _, blk := range strings.Split(string(buf), "\n\n") {
		if !strings.HasPrefix(blk, "goroutine ") {
			continue
		}
		nl := strings.IndexByte(blk, '\n')
		head := blk
		if nl >= 0 {
			head = blk[:nl]
		}
		rest := head[len("goroutine "):]
		sp := strings.IndexByte(rest, ' ')
		if sp < 0 {
			continue
		}
		id, _ := strconv.ParseInt(rest[:sp], 10, 64)
		st := rest[sp+1:]
		st = strings.TrimSuffix(strings.TrimPrefix(st, "["), "]:")
		if c := strings.IndexByte(st, ','); c >= 0 {
			st = st[:c]
		}
		out = append(out, G{ID: id, State: st, Stack: blk})
	}
	return out
}

// States returns the state of the goroutines with the given ids ("" = gone).
func States(ids ...int64) map[int64]string {
	m := map[int64]string{}
	for _, g := range All() {
		for _, id := range ids {
			if g.ID == id {
				m[id] = g.State
			}
		}
	}
	return m
}

// Lib returns the goroutines that have a frame of the library under test.
func Lib() []G {
	var out []G
	for _, g := range All() {
		if g.Lib() {
			out = append(out, g)
		}
	}
	return out
}

// Summary renders goroutines compactly for failure reports.
func Summary(gs []G) []string {
	var out []string
	for _, g := range gs {
		lines := strings.Split(g.Stack, "\n")
		var fr []string
		for _, l := range lines[1:] {
			l = strings.TrimSpace(l)
			if strings.HasPrefix(l, "github.com/mdzio/go-mqtt/") || strings.HasPrefix(l, "sync.") {
				if p := strings.LastIndexByte(l, '('); p > 0 {
					l = l[:p]
				}
				fr = append(fr, strings.TrimPrefix(l, "github.com/mdzio/go-mqtt/"))
			}
			if len(fr) >= 6 {
				break
			}
		}
		out = append(out, strconv.FormatInt(g.ID, 10)+" ["+g.State+"] "+strings.Join(fr, " < "))
	}
	return out
}

// Spinning decides whether a library goroutine is stuck in a busy loop: it
// watches until the PROCESS has consumed cpu of processor time (so a starved
// machine proves nothing, and the verdict does not depend on the wall clock;
// gives up after maxWall) and reports the library goroutines that were in
// motion (not parked) in every one of the >= 20 censuses taken meanwhile with
// one and the same library function - other than the goroutine's outermost
// one - on their stack each time (a goroutine that merely has much to do
// moves between the functions its main loop calls). done is polled: if it
// returns true the awaited thing happened after all and nothing is reported.
func Spinning(cpu, maxWall time.Duration, done func() bool) (spinners []G, consumed time.Duration) {
	start, t0 := processCPU(), time.Now()
	inMotion := map[int64]map[string]bool{} // goroutine id -> library functions (outermost excluded) on its stack in every census so far
	samples := 0
	for time.Since(t0) < maxWall {
		time.Sleep(100 * time.Millisecond)
		if done != nil && done() {
			return nil, processCPU() - start
		}
		now := map[int64]map[string]bool{}
		for _, g := range Lib() {
			if !g.Parked() {
				now[g.ID] = innerLibFuncs(g)
			}
		}
		if samples == 0 {
			inMotion = now
		} else {
			for id, fns := range inMotion {
				cur, ok := now[id]
				if !ok {
					delete(inMotion, id)
					continue
				}
				for fn := range fns {
					if !cur[fn] {
						delete(fns, fn)
					}
				}
				if len(fns) == 0 {
					delete(inMotion, id)
				}
			}
		}
		samples++
		if len(inMotion) == 0 {
			return nil, processCPU() - start
		}
		if samples >= 20 && processCPU()-start >= cpu {
			break
		}
	}
	consumed = processCPU() - start
	if samples < 20 || consumed < cpu {
		return nil, consumed
	}
	for _, g := range Lib() {
		if _, ok := inMotion[g.ID]; ok && !g.Parked() {
			spinners = append(spinners, g)
		}
	}
	return spinners, consumed
}

// innerLibFuncs returns the library functions on the goroutine's stack except
// the outermost one.
func innerLibFuncs(g G) map[string]bool {
	var fns []string
	for _, l := range strings.Split(g.Stack, "\n")[1:] {
		l = strings.TrimSpace(l)
		if strings.HasPrefix(l, LibFrame) {
			if p := strings.LastIndexByte(l, '('); p > 0 {
				l = l[:p]
			}
			fns = append(fns, l)
		}
	}
	out := map[string]bool{}
	for i, f := range fns {
		if i < len(fns)-1 {
			out[f] = true
		}
	}
	return out
}

func processCPU() time.Duration {
	var ru syscall.Rusage
	if syscall.Getrusage(syscall.RUSAGE_SELF, &ru) != nil {
		return 0
	}
	return time.Duration(ru.Utime.Nano() + ru.Stime.Nano())
}
