package p_broker

import (
	"encoding/binary"
	"encoding/json"
	"fmt"
	"sync"
	"sync/atomic"
	"testing"
	"time"

	"pgregory.net/rapid"
	"verifharness/ev"
	"verifharness/fix"
	"verifharness/ref/codec"
	"verifharness/wire"
)

// C17: concurrent publishers to shared subscribers — every received byte is
// a whole well-formed packet (strict parser) and each publisher's messages on
// one topic at one QoS arrive in order and, at the final cut, completely.

type C17Pub struct {
	N      int    `json:"n"`      // messages
	QoS    []byte `json:"qos"`    // QoS per topic index
	Sizes  []int  `json:"sizes"`  // payload size cycle
	Pause  int    `json:"pause"`  // microseconds between messages (0 = none)
	Topics []int  `json:"topics"` // topic index cycle
}

type C17Case struct {
	Transport
	NTopics int      `json:"ntopics"`
	SubQoS  [][]byte `json:"subqos"` // per subscriber: granted QoS per topic
	Pubs    []C17Pub `json:"pubs"`
	// Durable: one more subscriber with a persistent session (CleanSession=0, all topics) drops its
	// connection and comes back Durable times while the publishers are sending: its restored
	// subscriptions receive traffic from the first moment of every new connection.
	Durable int `json:"durable,omitempty"`
}

const c17Ring = 16384

// message body: magic, publisher, topic, seq, total length, then a pattern.
func c17Payload(pub, topic, seq, size int) []byte {
	if size < 16 {
		size = 16
	}
	b := make([]byte, size)
	binary.BigEndian.PutUint32(b[0:], 0xC17C17C1)
	binary.BigEndian.PutUint16(b[4:], uint16(pub))
	binary.BigEndian.PutUint16(b[6:], uint16(topic))
	binary.BigEndian.PutUint32(b[8:], uint32(seq))
	binary.BigEndian.PutUint32(b[12:], uint32(size))
	for i := 16; i < size; i++ {
		b[i] = byte(pub*7 + topic*13 + seq*31 + i)
	}
	return b
}

func c17Check(b []byte) (pub, topic, seq int, err string) {
	if len(b) < 16 || binary.BigEndian.Uint32(b) != 0xC17C17C1 {
		return 0, 0, 0, fmt.Sprintf("payload of %d bytes does not start with a message header", len(b))
	}
	pub, topic, seq = int(binary.BigEndian.Uint16(b[4:])), int(binary.BigEndian.Uint16(b[6:])), int(binary.BigEndian.Uint32(b[8:]))
	if sz := int(binary.BigEndian.Uint32(b[12:])); sz != len(b) {
		return pub, topic, seq, fmt.Sprintf("message (publisher %d, topic %d, seq %d) says it has %d bytes but %d arrived", pub, topic, seq, sz, len(b))
	}
	for i := 16; i < len(b); i++ {
		if b[i] != byte(pub*7+topic*13+seq*31+i) {
			return pub, topic, seq, fmt.Sprintf("message (publisher %d, topic %d, seq %d, %d bytes) is corrupted at byte %d", pub, topic, seq, len(b), i)
		}
	}
	return pub, topic, seq, ""
}

type c17sub struct {
	mu       sync.Mutex
	last     map[[3]int]int // (publisher, topic, qos) -> last seq
	count    map[[2]int]int // (publisher, topic) -> messages received
	fail     string
	switches int
	prevPub  int
	wrapped  int
}

type c17result struct {
	Fail    string
	Classes []string
	Stats   map[string]int
}

func runC17(c C17Case) (res c17result) {
	b, err := fix.New(c17Ring, "")
	if err != nil {
		return c17result{Fail: "fixture: " + err.Error()}
	}
	c.Transport.apply(b)
	defer b.Shutdown()
	topic := func(i int) string { return fmt.Sprintf("s/%d", i) }
	subs := make([]*c17sub, len(c.SubQoS))
	sconns := make([]*fix.Conn, len(c.SubQoS))
	for si, qs := range c.SubQoS {
		st := &c17sub{last: map[[3]int]int{}, count: map[[2]int]int{}, prevPub: -1}
		subs[si] = st
		cn := b.Dial(fmt.Sprintf("S%d", si))
		sconns[si] = cn
		cn.OnPacket = func(p *codec.Packet, off int64) bool {
			if p.Type != codec.PUBLISH {
				return false
			}
			st.mu.Lock()
			defer st.mu.Unlock()
			pub, tp, seq, e := c17Check(p.Payload)
			if e != "" && st.fail == "" {
				st.fail = e
				return true
			}
			if string(p.Topic) != topic(tp) && st.fail == "" {
				st.fail = fmt.Sprintf("message of topic %d arrived on topic %q", tp, p.Topic)
			}
			k := [3]int{pub, tp, int(p.QoS)}
			if last, ok := st.last[k]; ok && seq <= last && st.fail == "" {
				st.fail = fmt.Sprintf("publisher %d, topic %d, QoS %d: message seq %d arrived after seq %d", pub, tp, p.QoS, seq, last)
			}
			st.last[k] = seq
			st.count[[2]int{pub, tp}]++
			if st.prevPub != pub {
				st.switches++
				st.prevPub = pub
			}
			// out-ring position: the CONNACK (4 bytes) is written to the socket directly
			plen := int64(len(codec.Encode(p)))
			if (off-4)%c17Ring+plen > c17Ring {
				st.wrapped++
			}
			return true
		}
		if _, err := cn.Connect(wire.ConnectPacket(fmt.Sprintf("sub%d", si), true, 120)); err != nil {
			return c17result{Fail: "subscriber connect: " + err.Error()}
		}
		sp := &codec.Packet{Type: codec.SUBSCRIBE, PacketID: 1}
		for ti := 0; ti < c.NTopics; ti++ {
			sp.Topics = append(sp.Topics, []byte(topic(ti)))
			sp.QoSs = append(sp.QoSs, qs[ti%len(qs)])
		}
		cn.Send(sp)
		if _, err := cn.Barrier(); err != nil {
			return c17result{Fail: "subscriber barrier: " + err.Error()}
		}
	}
	// publishers, truly concurrent
	pconns := make([]*fix.Conn, len(c.Pubs))
	for pi := range c.Pubs {
		cn := b.Dial(fmt.Sprintf("P%d", pi))
		cn.AutoRel = true
		cn.OnPacket = func(p *codec.Packet, off int64) bool {
			return p.Type == codec.PUBACK || p.Type == codec.PUBREC
		}
		if _, err := cn.Connect(wire.ConnectPacket(fmt.Sprintf("pub%d", pi), true, 120)); err != nil {
			return c17result{Fail: "publisher connect: " + err.Error()}
		}
		pconns[pi] = cn
	}
	var pubsRunning atomic.Int32
	sent := make([]map[int]int, len(c.Pubs)) // per publisher: topic -> count
	var wg sync.WaitGroup
	perr := make([]string, len(c.Pubs))
	start := make(chan struct{})
	for pi, pb := range c.Pubs {
		sent[pi] = map[int]int{}
		wg.Add(1)
		pubsRunning.Add(1)
		go func(pi int, pb C17Pub) {
			defer wg.Done()
			defer pubsRunning.Add(-1)
			<-start
			cn := pconns[pi]
			pid := uint16(0)
			q2 := 0
			for seq := 1; seq <= pb.N; seq++ {
				ti := pb.Topics[seq%len(pb.Topics)] % c.NTopics
				q := pb.QoS[ti%len(pb.QoS)]
				pp := &codec.Packet{Type: codec.PUBLISH, QoS: q, Topic: []byte(topic(ti)), Payload: c17Payload(pi, ti, seq, pb.Sizes[seq%len(pb.Sizes)])}
				if q > 0 {
					pid++
					if pid == 0 {
						pid = 1
					}
					pp.PacketID = pid
				}
				if q == 2 {
					q2++
				}
				if err := cn.Send(pp); err != nil {
					perr[pi] = fmt.Sprintf("publisher %d could not write message %d: %v", pi, seq, err)
					return
				}
				sent[pi][ti]++
				if pb.Pause > 0 && seq%8 == 0 {
					time.Sleep(time.Duration(pb.Pause) * time.Microsecond)
				}
			}
			// all QoS 2 exchanges completed (PUBCOMPs) => all PUBRELs processed
			for i := 0; i < q2; i++ {
				if _, err := cn.Take(func(p *codec.Packet) bool { return p.Type == codec.PUBCOMP }, wire.DefaultWait); err != nil {
					perr[pi] = fmt.Sprintf("publisher %d: PUBCOMP %d of %d missing: %v", pi, i+1, q2, err)
					return
				}
			}
			if _, err := cn.Barrier(); err != nil {
				perr[pi] = fmt.Sprintf("publisher %d final barrier: %v", pi, err)
			}
		}(pi, pb)
	}
	durFail := make(chan string, 1)
	if c.Durable > 0 {
		wg.Add(1)
		go func() {
			defer wg.Done()
			last := map[[3]int]int{}
			var mu sync.Mutex // one lock for all connections: the reader of a closed connection may still be at work when the next one starts
			connect := func(gen int) (*fix.Conn, string) {
				cn := b.Dial(fmt.Sprintf("D%d", gen))
				first := true
				var bad string
				cn.OnPacket = func(p *codec.Packet, off int64) bool {
					mu.Lock()
					defer mu.Unlock()
					if first {
						first = false
						if p.Type != codec.CONNACK {
							bad = fmt.Sprintf("connection %d of the subscriber with the persistent session: the first packet the broker wrote is %s, not the CONNACK", gen, codec.TypeName(p.Type))
						}
					}
					if p.Type != codec.PUBLISH {
						return false
					}
					pub, tp, seq, e := c17Check(p.Payload)
					if e != "" && bad == "" {
						bad = e
						return true
					}
					k := [3]int{pub, tp, int(p.QoS)}
					if l, ok := last[k]; ok && seq <= l && bad == "" {
						bad = fmt.Sprintf("publisher %d, topic %d, QoS %d: message seq %d arrived after seq %d", pub, tp, p.QoS, seq, l)
					}
					last[k] = seq
					return true
				}
				cn.AutoAck = true
				ack, err := cn.Connect(wire.ConnectPacket("durable", false, 120))
				if err != nil || ack.ReturnCode != 0 {
					mu.Lock()
					defer mu.Unlock()
					if bad != "" {
						return cn, bad
					}
					return cn, fmt.Sprintf("connection %d of the subscriber with the persistent session: no CONNACK (%v; stream: %v)", gen, err, cn.StreamErr())
				}
				return cn, ""
			}
			check := func(cn *fix.Conn, gen int) string {
				if se := cn.StreamErr(); se != nil {
					return fmt.Sprintf("connection %d of the subscriber with the persistent session received a malformed stream: %v", gen, se)
				}
				return ""
			}
			cn, f := connect(0)
			if f != "" {
				durFail <- f
				return
			}
			sp := &codec.Packet{Type: codec.SUBSCRIBE, PacketID: 1}
			for ti := 0; ti < c.NTopics; ti++ {
				sp.Topics = append(sp.Topics, []byte(topic(ti)))
				sp.QoSs = append(sp.QoSs, c.SubQoS[0][ti%len(c.SubQoS[0])])
			}
			cn.Send(sp)
			cn.Barrier()
			<-start
			// at least Durable times, and on for as long as publishers are sending (at most 80 times)
			for gen := 1; gen <= c.Durable || (pubsRunning.Load() > 0 && gen <= 80); gen++ {
				time.Sleep(time.Duration(100+50*(gen%5)) * time.Microsecond)
				cn.Close()
				cn.WaitTeardown(wire.DefaultWait)
				if f := check(cn, gen-1); f != "" {
					durFail <- f
					return
				}
				if cn, f = connect(gen); f != "" {
					durFail <- f
					return
				}
				cn.BarrierTimeout(wire.DefaultWait)
				if f := check(cn, gen); f != "" {
					durFail <- f
					return
				}
			}
			cn.Close()
			cn.WaitTeardown(wire.DefaultWait)
		}()
	}
	close(start)
	done := make(chan struct{})
	go func() { wg.Wait(); close(done) }()
	select {
	case <-done:
	case <-time.After(60 * time.Second):
		return c17result{Fail: "", Classes: []string{"inconclusive: publishers did not finish within 60 s"}}
	}
	for _, e := range perr {
		if e != "" {
			return c17result{Fail: e}
		}
	}
	select {
	case f := <-durFail:
		return c17result{Fail: f}
	default:
	}
	if c.Durable > 0 {
		res.Classes = append(res.Classes, "persistent-subscriber-reconnects-under-traffic")
	}
	res.Stats = map[string]int{}
	for si, cn := range sconns {
		if _, err := cn.Barrier(); err != nil {
			return c17result{Fail: fmt.Sprintf("subscriber %d final barrier: %v (stream: %v)", si, err, cn.StreamErr())}
		}
		if se := cn.StreamErr(); se != nil {
			return c17result{Fail: fmt.Sprintf("subscriber %d received a malformed stream: %v", si, se)}
		}
		st := subs[si]
		st.mu.Lock()
		if st.fail != "" {
			st.mu.Unlock()
			return c17result{Fail: fmt.Sprintf("subscriber %d: %s", si, st.fail)}
		}
		for pi := range c.Pubs {
			for ti, n := range sent[pi] {
				if got := st.count[[2]int{pi, ti}]; got != n {
					st.mu.Unlock()
					return c17result{Fail: fmt.Sprintf("subscriber %d received %d of the %d messages publisher %d sent on topic %d", si, got, n, pi, ti)}
				}
			}
		}
		res.Stats["publisher-switches"] += st.switches
		res.Stats["packets-written-through-wrap-path"] += st.wrapped
		st.mu.Unlock()
	}
	for _, cn := range pconns {
		if se := cn.StreamErr(); se != nil {
			return c17result{Fail: "publisher received a malformed stream: " + se.Error()}
		}
	}
	for _, x := range b.Escaped() {
		return c17result{Fail: x}
	}
	if res.Stats["publisher-switches"] > 4*len(c.SubQoS) {
		res.Classes = append(res.Classes, "publishers-interleaved")
	}
	if res.Stats["packets-written-through-wrap-path"] > 0 {
		res.Classes = append(res.Classes, "wrap-path")
	}
	return res
}

func genC17(t *rapid.T) C17Case {
	c := C17Case{NTopics: rapid.IntRange(1, 3).Draw(t, "ntopics")}
	for i, n := 0, rapid.IntRange(1, 4).Draw(t, "nsubs"); i < n; i++ {
		var qs []byte
		for j := 0; j < c.NTopics; j++ {
			qs = append(qs, byte(rapid.IntRange(0, 2).Draw(t, "gq")))
		}
		c.SubQoS = append(c.SubQoS, qs)
	}
	limit := c17Ring - 8192 - 20
	for i, n := 0, rapid.IntRange(2, 8).Draw(t, "npubs"); i < n; i++ {
		pb := C17Pub{N: rapid.IntRange(50, 400).Draw(t, "n"), Pause: rapid.SampledFrom([]int{0, 0, 50, 300}).Draw(t, "pause")}
		for j := 0; j < c.NTopics; j++ {
			pb.QoS = append(pb.QoS, byte(rapid.IntRange(0, 2).Draw(t, "pq")))
		}
		for j, m := 0, rapid.IntRange(1, 5).Draw(t, "nsizes"); j < m; j++ {
			pb.Sizes = append(pb.Sizes, rapid.SampledFrom([]int{16, 17, 40, 100, 1000, 1100, 4000, 4200, limit}).Draw(t, "size"))
		}
		for j, m := 0, rapid.IntRange(1, 4).Draw(t, "ntopiccycle"); j < m; j++ {
			pb.Topics = append(pb.Topics, rapid.IntRange(0, c.NTopics-1).Draw(t, "ti"))
		}
		c.Pubs = append(c.Pubs, pb)
	}
	c.Transport = genTransport(t)
	if rapid.Bool().Draw(t, "durable") {
		c.Durable = rapid.IntRange(2, 8).Draw(t, "reconnects")
	}
	return c
}

func TestC17Broker(t *testing.T) {
	rec := ev.New("C17", "broker-role")
	defer rec.Flush()
	if rp := ev.LoadReplay(t, "broker-role"); rp != nil {
		var c C17Case
		json.Unmarshal(rp.Case, &c)
		for i := 0; i < 5; i++ {
			if r := runC17(c); r.Fail != "" {
				p := rec.Violation("-", "schedule", r.Fail, c, nil)
				rec.Flush()
				t.Fatalf("VIOLATION %s replay=%s", r.Fail, p)
			}
		}
		return
	} else if ev.Replaying() {
		t.Skip()
	}
	rapid.Check(t, func(t *rapid.T) {
		c := genC17(t)
		r := runC17(c)
		nt := 0
		for _, cl := range r.Classes {
			if cl == "publishers-interleaved" || cl == "wrap-path" {
				nt++
			}
			if len(cl) > 12 && cl[:12] == "inconclusive" {
				rec.Inconclusive()
			}
		}
		for k, v := range r.Stats {
			rec.Class(k, int64(v))
		}
		rec.Case(c, nt == 2, r.Classes...)
		if r.Fail != "" {
			p := rec.Violation("-", "schedule", r.Fail, c, nil)
			t.Fatalf("VIOLATION %s replay=%s", r.Fail, p)
		}
	})
}
