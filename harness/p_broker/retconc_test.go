package p_broker

import (
	"bytes"
	"encoding/json"
	"fmt"
	"sync"
	"testing"
	"time"

	"pgregory.net/rapid"
	"verifharness/census"
	"verifharness/ev"
	"verifharness/fix"
	"verifharness/ref/codec"
	"verifharness/wire"
)

// Retained delivery under concurrency (units C08 "retained-concurrent" and
// C12 "retained-concurrent"). Several connections subscribe at the same time
// to the same retained messages while the publisher replaces them. The
// harness owns the schedule: each subscriber's processor is parked at every
// packet it is about to write for its SUBSCRIBE (the SUBACK, then one PUBLISH
// per retained message) and released one step at a time in a generated
// order, with retained updates placed between the steps.
//
//   C08: what a subscriber receives as retained message for a topic is,
//        byte for byte, one of the versions stored since it subscribed, with
//        retain flag 1 and QoS min(stored, granted); the stream stays intact.
//   C12: the QoS>0 PUBLISH packets in flight to one subscriber (nothing is
//        acknowledged here) carry pairwise distinct non-zero identifiers.

type RCVersion struct {
	QoS  byte `json:"qos"`
	Size int  `json:"size"` // 0 = the retained message is cleared
}

type RCSub struct {
	Filter string `json:"filter"` // rc/# | rc/+ | rc/t<i>
	QoS    byte   `json:"qos"`
	Pre    int    `json:"pre"` // unacknowledged live QoS 1 messages it already holds (its identifier counter differs from the others')
}

type RCStep struct {
	K string    `json:"k"` // release | update
	I int       `json:"i"` // subscriber / topic index
	V RCVersion `json:"v"` // update: the new version
}

type RCCase struct {
	Retained []RCVersion `json:"retained"` // initial version per topic rc/t<i>
	Subs     []RCSub     `json:"subs"`
	Steps    []RCStep    `json:"steps"`
}

type rcActor struct {
	k       int
	parked  chan struct{}
	resume  chan struct{}
	writes  int // packets released so far
	waiting bool
}

type rcFail struct{ class, text string } // class: retained | ids | stream

func rcTopic(i int) string { return fmt.Sprintf("rc/t%d", i) }

func rcMatches(filter string, i int) bool {
	return filter == "rc/#" || filter == "rc/+" || filter == rcTopic(i)
}

func runRetConc(c RCCase) (fails []rcFail, incon string, classes []string) {
	cls := map[string]bool{}
	defer func() {
		for k := range cls {
			classes = append(classes, k)
		}
	}()
	b, err := fix.New(16384, "")
	if err != nil {
		return []rcFail{{"stream", "fixture: " + err.Error()}}, "", nil
	}
	defer b.Shutdown()
	defer fix.SetYield(nil)
	P := b.Dial("P")
	P.AutoRel = true
	if _, err := P.Connect(wire.ConnectPacket("p", true, 300)); err != nil {
		return []rcFail{{"stream", "publisher connect: " + err.Error()}}, "", nil
	}
	verno := 0
	ppid := uint16(0)
	type version struct {
		RCVersion
		payload []byte
	}
	versions := make([][]version, len(c.Retained)) // per topic, in order
	publishRetained := func(i int, v RCVersion) error {
		verno++
		ppid++
		var pl []byte
		if v.Size > 0 {
			pl = payload(verno, v.Size)
		}
		versions[i] = append(versions[i], version{v, pl})
		P.Send(&codec.Packet{Type: codec.PUBLISH, QoS: v.QoS, Retain: true, PacketID: ppid, Topic: []byte(rcTopic(i)), Payload: pl})
		if v.QoS == 2 {
			if _, err := P.Take(func(p *codec.Packet) bool { return p.Type == codec.PUBCOMP }, wire.DefaultWait); err != nil {
				return fmt.Errorf("no PUBCOMP: %v", err)
			}
		}
		_, err := P.Barrier()
		return err
	}
	for i, v := range c.Retained {
		if err := publishRetained(i, v); err != nil {
			return []rcFail{{"stream", "publisher: " + err.Error()}}, "", nil
		}
	}
	K := len(c.Subs)
	subs := make([]*fix.Conn, K)
	pre := make([][]wire.Rx, K)
	for k, s := range c.Subs {
		S := b.Dial(fmt.Sprintf("S%d", k))
		S.AutoAck = false
		if _, err := S.Connect(wire.ConnectPacket(fmt.Sprintf("s%d", k), true, 300)); err != nil {
			return []rcFail{{"stream", "subscriber connect: " + err.Error()}}, "", nil
		}
		subs[k] = S
		if s.Pre > 0 {
			S.Send(&codec.Packet{Type: codec.SUBSCRIBE, PacketID: 1, Topics: [][]byte{[]byte(fmt.Sprintf("live/%d", k))}, QoSs: []byte{1}})
			if _, err := S.Barrier(); err != nil {
				return []rcFail{{"stream", "subscriber barrier: " + err.Error()}}, "", nil
			}
			for j := 0; j < s.Pre; j++ {
				ppid++
				P.Send(&codec.Packet{Type: codec.PUBLISH, QoS: 1, PacketID: ppid, Topic: []byte(fmt.Sprintf("live/%d", k)), Payload: []byte("pre")})
			}
			if _, err := P.Barrier(); err != nil {
				return []rcFail{{"stream", "publisher barrier: " + err.Error()}}, "", nil
			}
			rx, err := S.Barrier()
			if err != nil {
				return []rcFail{{"stream", "subscriber barrier: " + err.Error()}}, "", nil
			}
			pre[k] = rx
		}
	}
	// expected number of packets each processor writes for its SUBSCRIBE
	expWrites := make([]int, K)
	for k, s := range c.Subs {
		expWrites[k] = 1
		for i := range c.Retained {
			if rcMatches(s.Filter, i) {
				expWrites[k]++
			}
		}
	}
	// ---- the schedule ----
	var mu sync.Mutex
	byID := map[uint64]int{}
	for k := range subs {
		if !subs[k].Served(wire.DefaultWait) || subs[k].ID() == 0 {
			return nil, "connection handling did not return", nil
		}
		byID[subs[k].ID()] = k
	}
	actors := make([]*rcActor, K)
	for k := range actors {
		actors[k] = &rcActor{k: k, parked: make(chan struct{}, 1), resume: make(chan struct{})}
	}
	byGID := map[int64]*rcActor{}
	claimed := map[int]bool{}
	armed := true
	fix.SetYield(func(point string, obj interface{}) {
		if point != "writeMessage.enter" {
			return
		}
		id, _ := obj.(uint64)
		gid := census.GID()
		mu.Lock()
		if !armed {
			mu.Unlock()
			return
		}
		a := byGID[gid]
		if a == nil {
			// the first packet written to a subscriber after its SUBSCRIBE is its SUBACK,
			// written by its own processor: that goroutine is the one to schedule
			if k, ok := byID[id]; ok && !claimed[k] {
				claimed[k] = true
				a = actors[k]
				byGID[gid] = a
			}
		}
		if a == nil || a.writes >= expWrites[a.k] {
			mu.Unlock()
			return
		}
		a.waiting = true
		mu.Unlock()
		a.parked <- struct{}{}
		<-a.resume
	})
	disarm := func() {
		mu.Lock()
		armed = false
		var w []*rcActor
		for _, a := range actors {
			if a.waiting {
				a.waiting = false
				w = append(w, a)
			}
		}
		mu.Unlock()
		for _, a := range w {
			a.resume <- struct{}{}
		}
	}
	defer disarm()
	for k, s := range c.Subs {
		subs[k].Send(&codec.Packet{Type: codec.SUBSCRIBE, PacketID: 9, Topics: [][]byte{[]byte(s.Filter)}, QoSs: []byte{s.QoS}})
	}
	isParked := make([]bool, K)
	waitPark := func(k int, d time.Duration) bool {
		select {
		case <-actors[k].parked:
			isParked[k] = true
			return true
		case <-time.After(d):
			return false
		}
	}
	for k := range actors {
		if !waitPark(k, 3*time.Second) {
			return nil, fmt.Sprintf("the processor of subscriber %d did not reach its SUBACK write", k), nil
		}
	}
	interleaved, updatesWhileParked := false, 0
	lastReleased := -1
	for _, st := range c.Steps {
		switch st.K {
		case "release":
			k := st.I % K
			if !isParked[k] {
				continue
			}
			if lastReleased >= 0 && lastReleased != k && isParked[lastReleased] {
				interleaved = true
			}
			lastReleased = k
			a := actors[k]
			mu.Lock()
			a.writes++
			a.waiting = false
			more := a.writes < expWrites[k]
			mu.Unlock()
			isParked[k] = false
			a.resume <- struct{}{}
			if more && !waitPark(k, 2*time.Second) {
				// fewer packets than the model expects: judged below from what arrives
				cls["processor-wrote-fewer-packets-than-expected"] = true
			}
		case "update":
			i := st.I % len(c.Retained)
			anyParked := false
			for k := range isParked {
				anyParked = anyParked || isParked[k]
			}
			if err := publishRetained(i, st.V); err != nil {
				return []rcFail{{"stream", "publisher (retained update): " + err.Error()}}, "", nil
			}
			if anyParked {
				updatesWhileParked++
			}
		}
	}
	disarm()
	if interleaved {
		cls["subscribers-interleaved-between-their-writes"] = true
	}
	if updatesWhileParked > 0 {
		cls["retained-updated-while-a-subscriber-holds-the-old-message"] = true
	}
	if _, err := P.Barrier(); err != nil {
		fails = append(fails, rcFail{"stream", "publisher final barrier: " + err.Error()})
	}
	// ---- verdicts ----
	for k, s := range c.Subs {
		rx, err := subs[k].Barrier()
		if err != nil {
			fails = append(fails, rcFail{"stream", fmt.Sprintf("subscriber %d: final barrier failed: %v (stream error: %v)", k, err, subs[k].StreamErr())})
			continue
		}
		subacks := 0
		retainedGot := map[int][]*codec.Packet{}
		liveGot := map[int][]*codec.Packet{}
		ids := map[uint16]string{}
		note := func(p *codec.Packet) {
			if p.QoS == 0 {
				return
			}
			desc := fmt.Sprintf("%q (%d bytes, retain=%v)", p.Topic, len(p.Payload), p.Retain)
			if p.PacketID == 0 {
				fails = append(fails, rcFail{"ids", fmt.Sprintf("subscriber %d: QoS %d PUBLISH %s with packet identifier 0", k, p.QoS, desc)})
			} else if prev, dup := ids[p.PacketID]; dup {
				fails = append(fails, rcFail{"ids", fmt.Sprintf("subscriber %d: two PUBLISH packets in flight (nothing acknowledged) with the same packet identifier %d: %s and %s", k, p.PacketID, prev, desc)})
			}
			ids[p.PacketID] = desc
		}
		for _, r := range pre[k] {
			if r.P.Type == codec.PUBLISH {
				note(r.P)
			}
		}
		for _, r := range rx {
			switch r.P.Type {
			case codec.SUBACK:
				subacks++
				if r.P.PacketID != 9 || len(r.P.ReturnCodes) != 1 || r.P.ReturnCodes[0] != s.QoS {
					fails = append(fails, rcFail{"stream", fmt.Sprintf("subscriber %d: SUBACK id %d codes %v, expected id 9 code %d", k, r.P.PacketID, r.P.ReturnCodes, s.QoS)})
				}
			case codec.PUBLISH:
				note(r.P)
				var ti int
				if n, _ := fmt.Sscanf(string(r.P.Topic), "rc/t%d", &ti); n != 1 || ti >= len(c.Retained) || !rcMatches(s.Filter, ti) {
					fails = append(fails, rcFail{"retained", fmt.Sprintf("subscriber %d (filter %q): received a PUBLISH on %q", k, s.Filter, r.P.Topic)})
					continue
				}
				if r.P.Retain {
					retainedGot[ti] = append(retainedGot[ti], r.P)
				} else {
					liveGot[ti] = append(liveGot[ti], r.P)
				}
			}
		}
		if subacks != 1 {
			fails = append(fails, rcFail{"stream", fmt.Sprintf("subscriber %d: %d SUBACK packets", k, subacks)})
		}
		minq := func(a, b byte) byte {
			if a < b {
				return a
			}
			return b
		}
		for i := range c.Retained {
			if !rcMatches(s.Filter, i) {
				continue
			}
			vs := versions[i]
			cleared := false
			for _, v := range vs {
				cleared = cleared || v.Size == 0
			}
			got := retainedGot[i]
			if len(got) > 1 || (len(got) == 0 && !cleared) {
				fails = append(fails, rcFail{"retained", fmt.Sprintf("subscriber %d (filter %q): %d retained copies for %q, expected 1 (%d versions were stored since it subscribed, cleared in between: %v)", k, s.Filter, len(got), rcTopic(i), len(vs), cleared)})
			}
			for _, g := range got {
				ok := false
				for _, v := range vs {
					if v.Size > 0 && bytes.Equal(g.Payload, v.payload) && g.QoS == minq(v.QoS, s.QoS) {
						ok = true
					}
				}
				if !ok {
					var d []string
					for _, v := range vs {
						d = append(d, fmt.Sprintf("%d bytes at QoS %d (first difference at %d)", v.Size, v.QoS, firstDiff(g.Payload, v.payload)))
					}
					fails = append(fails, rcFail{"retained", fmt.Sprintf("subscriber %d (granted QoS %d): the retained message delivered for %q (%d bytes, QoS %d) is none of the versions stored since it subscribed: %v", k, s.QoS, rcTopic(i), len(g.Payload), g.QoS, d)})
				}
			}
			// live copies of the updates: one each, in order
			ups := vs[1:]
			lg := liveGot[i]
			if len(lg) != len(ups) {
				fails = append(fails, rcFail{"retained", fmt.Sprintf("subscriber %d: %d live copies (retain flag 0) on %q for %d publishes made after its subscription was in place", k, len(lg), rcTopic(i), len(ups))})
				continue
			}
			for j, g := range lg {
				if !bytes.Equal(g.Payload, ups[j].payload) || g.QoS != minq(ups[j].QoS, s.QoS) {
					fails = append(fails, rcFail{"retained", fmt.Sprintf("subscriber %d: live copy %d on %q has %d bytes at QoS %d, published were %d bytes at QoS %d (granted %d)", k, j, rcTopic(i), len(g.Payload), g.QoS, ups[j].Size, ups[j].QoS, s.QoS)})
				}
			}
		}
	}
	for _, x := range b.Escaped() {
		fails = append(fails, rcFail{"stream", x})
	}
	return fails, "", nil
}

func genRetConc(t *rapid.T) RCCase {
	var c RCCase
	sizes := []int{4, 12, 60, 300, 2000}
	genV := func(allowClear bool) RCVersion {
		v := RCVersion{QoS: byte(rapid.IntRange(0, 2).Draw(t, "vq")), Size: rapid.SampledFrom(sizes).Draw(t, "vsize")}
		if allowClear && rapid.IntRange(0, 7).Draw(t, "clear") == 0 {
			v.Size = 0
		}
		return v
	}
	R := rapid.IntRange(1, 3).Draw(t, "ntopics")
	for i := 0; i < R; i++ {
		c.Retained = append(c.Retained, genV(false))
	}
	K := rapid.IntRange(2, 3).Draw(t, "nsubs")
	total := 0
	for k := 0; k < K; k++ {
		f := rapid.SampledFrom([]string{"rc/#", "rc/#", "rc/+", "rc/t0", rcTopic(R - 1)}).Draw(t, "filter")
		c.Subs = append(c.Subs, RCSub{Filter: f, QoS: byte(rapid.IntRange(0, 2).Draw(t, "gq")), Pre: rapid.IntRange(0, 3).Draw(t, "pre")})
		total += 1 + R
	}
	n := rapid.IntRange(total/2, total+3).Draw(t, "nsteps")
	for j := 0; j < n; j++ {
		if rapid.IntRange(0, 4).Draw(t, "upd") == 0 {
			c.Steps = append(c.Steps, RCStep{K: "update", I: rapid.IntRange(0, R-1).Draw(t, "ui"), V: genV(true)})
		} else {
			c.Steps = append(c.Steps, RCStep{K: "release", I: rapid.IntRange(0, K-1).Draw(t, "ri")})
		}
	}
	return c
}

func testRetConc(t *testing.T, prop string, classes ...string) {
	rec := ev.New(prop, "retained-concurrent")
	defer rec.Flush()
	mine := func(fs []rcFail) *rcFail {
		for i := range fs {
			for _, c := range classes {
				if fs[i].class == c {
					return &fs[i]
				}
			}
		}
		return nil
	}
	if rp := ev.LoadReplay(t, "retained-concurrent"); rp != nil {
		var c RCCase
		json.Unmarshal(rp.Case, &c)
		fs, _, _ := runRetConc(c)
		if f := mine(fs); f != nil {
			p := rec.Violation("-", "schedule", f.text, c, fs)
			rec.Flush()
			t.Fatalf("VIOLATION %s replay=%s", f.text, p)
		}
		return
	} else if ev.Replaying() {
		t.Skip()
	}
	rapid.Check(t, func(t *rapid.T) {
		c := genRetConc(t)
		fs, incon, cls := runRetConc(c)
		if incon != "" {
			rec.Inconclusive()
			rec.Class("inconclusive: "+incon, 1)
		}
		nt := false
		for _, x := range cls {
			if x == "subscribers-interleaved-between-their-writes" || x == "retained-updated-while-a-subscriber-holds-the-old-message" {
				nt = true
			}
		}
		rec.Case(c, nt && incon == "", cls...)
		if f := mine(fs); f != nil {
			p := rec.Violation("-", "schedule", f.text, c, fs)
			t.Fatalf("VIOLATION %s replay=%s", f.text, p)
		}
	})
}

func TestC08RetConc(t *testing.T) { testRetConc(t, "C08", "retained", "stream") }
func TestC12RetConc(t *testing.T) { testRetConc(t, "C12", "ids", "stream") }
