package p_broker

import (
	"bytes"
	"encoding/json"
	"fmt"
	"sync"
	"testing"
	"time"

	"pgregory.net/rapid"
	"verifharness/ev"
	"verifharness/fix"
	"verifharness/ref/codec"
	"verifharness/wire"
)

// C11, unit "handshake-overlap": connection attempts overlap in time. A
// legitimate client A (CONNECT with will and credentials) is held inside the
// authenticator - a slow credential check - while 1-4 other connections send
// their first packets and are dealt with completely: CONNECTs with wrong
// credentials (refused with code 4), garbage, truncated CONNECTs, and
// acceptable CONNECTs of other clients. Then A's check completes.
//
// Verdict ("no packet sent on a connection that was not accepted has any
// effect", and the accepted ones are what they asked to be): A is accepted;
// the session, will and keep-alive A ends up with are those of A's own
// CONNECT - observed through the will a witness receives when A's connection
// is cut, and through SessionPresent / the restored subscription when A's
// identifier connects again; the others' wills are published exactly for the
// accepted ones among them, when those are cut.

type HOther struct {
	Kind    string `json:"kind"` // badpass | garbage | truncated | accepted
	ID      string `json:"id"`
	Will    int    `json:"will"`    // length of the will message (0: no will)
	SameLen bool   `json:"samelen"` // pad the client identifier so that the CONNECT is as long as A's
	Clean   bool   `json:"clean"`
}

type HOCase struct {
	Transport
	AClean bool     `json:"a_clean"`
	AWill  int      `json:"a_will"`
	Others []HOther `json:"others"`
}

func hoConnect(id, user, pass string, clean bool, willTopic string, will int) *codec.Packet {
	p := &codec.Packet{Type: codec.CONNECT, ProtoName: "MQTT", Level: 4, KeepAlive: 300, ClientID: []byte(id), ConnectFlags: 128 | 64, Username: []byte(user), Password: []byte(pass)}
	if clean {
		p.ConnectFlags |= 2
	}
	if will > 0 {
		p.ConnectFlags |= 4 | 1<<3
		p.WillTopic = []byte(willTopic)
		p.WillMessage = bytes.Repeat([]byte(id[:1]), will)
	}
	return p
}

func runHO(c HOCase) (fail, incon string, classes []string) {
	b, err := fix.New(16384, fix.AuthGate)
	if err != nil {
		return "", "fixture: " + err.Error(), nil
	}
	c.Transport.apply(b)
	defer b.Shutdown()
	defer fix.SetAuthHook(nil)
	W := b.Dial("W")
	if _, err := W.Connect(hoConnect("witness", "w", "pass", true, "", 0)); err != nil {
		return "", "witness connect: " + err.Error(), nil
	}
	W.Send(&codec.Packet{Type: codec.SUBSCRIBE, PacketID: 1, Topics: [][]byte{[]byte("hw/#")}, QoSs: []byte{1}})
	if _, err := W.Barrier(); err != nil {
		return "", "witness barrier: " + err.Error(), nil
	}
	var once sync.Once
	reached, release := make(chan struct{}), make(chan struct{})
	fix.SetAuthHook(func(user string) {
		if user == "hold" {
			once.Do(func() { close(reached) })
			<-release
		}
	})
	released := false
	rel := func() {
		if !released {
			released = true
			close(release)
		}
	}
	defer rel()
	aCP := hoConnect("alice", "hold", "pass", c.AClean, "hw/alice", c.AWill)
	aLen := len(codec.Encode(aCP))
	A := b.Dial("A")
	A.SendAsync(codec.Encode(aCP))
	select {
	case <-reached:
	case <-time.After(3 * time.Second):
		return "", "A's handshake did not reach the authenticator", nil
	}
	// the others, each dealt with completely while A waits
	type acc struct {
		cn   *fix.Conn
		id   string
		wt   string
		will []byte
	}
	var accepted []acc
	for i, o := range c.Others {
		id := fmt.Sprintf("%s%d", o.ID, i)
		pass := "pass"
		if o.Kind == "badpass" {
			pass = "nope"
		}
		cp := hoConnect(id, "u"+id, pass, o.Clean, "hw/"+id, o.Will)
		if o.SameLen {
			for d := aLen - len(codec.Encode(cp)); d > 0 && len(cp.ClientID) < 23; d-- {
				cp.ClientID = append(cp.ClientID, 'x')
			}
			if len(codec.Encode(cp)) == aLen {
				classes = append(classes, "other-CONNECT-as-long-as-A's")
			}
		}
		cn := b.Dial(fmt.Sprintf("O%d", i))
		enc := codec.Encode(cp)
		switch o.Kind {
		case "garbage":
			enc = bytes.Repeat([]byte{0xF0 | byte(i), 0x00}, aLen/2+1)[:aLen]
		case "truncated":
			enc = enc[:len(enc)*2/3]
		}
		cn.SendAsync(enc)
		classes = append(classes, "other:"+o.Kind)
		switch o.Kind {
		case "accepted":
			rx, err := cn.WaitFor(func(p *codec.Packet) bool { return p.Type == codec.CONNACK }, wire.DefaultWait)
			if err != nil || rx[len(rx)-1].P.ReturnCode != 0 {
				return fmt.Sprintf("acceptable CONNECT of client %q, sent while another handshake was waiting for its credential check, was not accepted: %v", id, err), "", classes
			}
			if _, err := cn.Barrier(); err != nil {
				return fmt.Sprintf("client %q (accepted while another handshake was in progress) does not answer PINGREQ: %v", id, err), "", classes
			}
			accepted = append(accepted, acc{cn, string(cp.ClientID), string(cp.WillTopic), cp.WillMessage})
		case "truncated":
			cn.Close()
			cn.Served(wire.DefaultWait)
		default:
			rx, err := cn.WaitFor(func(p *codec.Packet) bool { return p.Type == codec.CONNACK }, 3*time.Second)
			if err == nil && rx[len(rx)-1].P.ReturnCode == 0 {
				return fmt.Sprintf("first packet that must be refused (%s) was answered with CONNACK code 0", o.Kind), "", classes
			}
			if !cn.WaitClosed(3 * time.Second) {
				return fmt.Sprintf("connection not closed after its first packet (%s) was refused", o.Kind), "", classes
			}
			cn.Close()
			cn.Served(wire.DefaultWait)
		}
	}
	rel()
	rx, err := A.WaitFor(func(p *codec.Packet) bool { return p.Type == codec.CONNACK }, wire.DefaultWait)
	if err != nil {
		return fmt.Sprintf("A's acceptable CONNECT got no CONNACK after its credential check completed (%d other first packets were handled meanwhile): %v", len(c.Others), err), "", classes
	}
	if ack := rx[len(rx)-1].P; ack.ReturnCode != 0 || ack.SessionPresent {
		return fmt.Sprintf("A's acceptable first CONNECT was answered with code %d, SessionPresent=%v", ack.ReturnCode, ack.SessionPresent), "", classes
	}
	A.Send(&codec.Packet{Type: codec.SUBSCRIBE, PacketID: 1, Topics: [][]byte{[]byte("ha/alice")}, QoSs: []byte{1}})
	if _, err := A.Barrier(); err != nil {
		return fmt.Sprintf("A (accepted) does not answer PINGREQ: %v", err), "", classes
	}
	if rx, err := W.Barrier(); err != nil {
		return "", "witness barrier: " + err.Error(), classes
	} else if pubs, _ := pubsOf(rx); len(pubs) > 0 {
		return fmt.Sprintf("the witness received a PUBLISH on %q (%d bytes) although no accepted connection has ended or published", pubs[0].Topic, len(pubs[0].Payload)), "", classes
	}
	// cut A: exactly A's own will
	expectWill := func(who string, cn *fix.Conn, topic string, will []byte) string {
		cn.Close()
		if !cn.WaitTeardown(wire.DefaultWait) {
			return "teardown of " + who + " did not finish"
		}
		rx, err := W.Barrier()
		if err != nil {
			return "witness: " + err.Error()
		}
		pubs, _ := pubsOf(rx)
		if len(will) == 0 {
			if len(pubs) > 0 {
				return fmt.Sprintf("%s had no will; when its connection was cut the witness received a PUBLISH on %q (%d bytes, starts %q)", who, pubs[0].Topic, len(pubs[0].Payload), clip(pubs[0].Payload, 8))
			}
			return ""
		}
		if len(pubs) != 1 || string(pubs[0].Topic) != topic || !bytes.Equal(pubs[0].Payload, will) {
			got := "nothing"
			if len(pubs) > 0 {
				got = fmt.Sprintf("%d PUBLISH, the first on %q with %d bytes starting %q", len(pubs), pubs[0].Topic, len(pubs[0].Payload), clip(pubs[0].Payload, 8))
			}
			return fmt.Sprintf("%s connected with the will %q / %d bytes starting %q; when its connection was cut the witness received %s (other first packets were handled while its credentials were being checked)", who, topic, len(will), clip(will, 8), got)
		}
		return ""
	}
	if f := expectWill("A", A, "hw/alice", aCP.WillMessage); f != "" {
		return f, "", classes
	}
	for _, a := range accepted {
		if f := expectWill(fmt.Sprintf("client %q", a.id), a.cn, a.wt, a.will); f != "" {
			return f, "", classes
		}
	}
	// A's identifier again: the session is A's own
	fix.SetAuthHook(nil)
	A2 := b.Dial("A2")
	ack, err := A2.Connect(hoConnect("alice", "hold", "pass", false, "", 0))
	if err != nil || ack.ReturnCode != 0 {
		return fmt.Sprintf("A's reconnect was not accepted: %v %v", ack, err), "", classes
	}
	if ack.SessionPresent != !c.AClean {
		return fmt.Sprintf("A connected with CleanSession=%v and subscribed; its identifier's next CONNECT (CleanSession=0) was answered with SessionPresent=%v", c.AClean, ack.SessionPresent), "", classes
	}
	for _, x := range b.Escaped() {
		return x, "", classes
	}
	return "", "", classes
}

func genHO(t *rapid.T) HOCase {
	c := HOCase{AClean: rapid.Bool().Draw(t, "aclean"), AWill: rapid.SampledFrom([]int{0, 3, 3, 40, 200}).Draw(t, "awill")}
	n := rapid.IntRange(1, 4).Draw(t, "nothers")
	for i := 0; i < n; i++ {
		c.Others = append(c.Others, HOther{Kind: rapid.SampledFrom([]string{"badpass", "badpass", "badpass", "garbage", "truncated", "accepted"}).Draw(t, "kind"),
			ID: rapid.SampledFrom([]string{"bob", "mallory", "alice"}).Draw(t, "id"), Will: rapid.SampledFrom([]int{0, 3, 40, 200}).Draw(t, "will"),
			SameLen: rapid.Bool().Draw(t, "samelen"), Clean: rapid.Bool().Draw(t, "clean")})
	}
	c.Transport = genTransport(t)
	return c
}

func TestC11Overlap(t *testing.T) {
	rec := ev.New("C11", "handshake-overlap")
	defer rec.Flush()
	if rp := ev.LoadReplay(t, "handshake-overlap"); rp != nil {
		var c HOCase
		json.Unmarshal(rp.Case, &c)
		for i := 0; i < 3; i++ {
			if f, _, _ := runHO(c); f != "" {
				p := rec.Violation("-", "schedule", f, c, nil)
				rec.Flush()
				t.Fatalf("VIOLATION %s replay=%s", f, p)
			}
		}
		return
	} else if ev.Replaying() {
		t.Skip()
	}
	rapid.Check(t, func(t *rapid.T) {
		c := genHO(t)
		f, incon, cls := runHO(c)
		if incon != "" {
			rec.Inconclusive()
			rec.Class("inconclusive: "+incon, 1)
		}
		nt := false
		for _, o := range c.Others {
			nt = nt || o.Kind != "accepted"
		}
		rec.Case(c, incon == "" && nt, cls...)
		if f != "" {
			p := rec.Violation("-", "schedule", f, c, nil)
			t.Fatalf("VIOLATION %s replay=%s", f, p)
		}
	})
}
