package p_broker

import (
	"encoding/json"
	"fmt"
	"sync"
	"testing"

	"github.com/mdzio/go-mqtt/message"
	"pgregory.net/rapid"
	"verifharness/ev"
	"verifharness/fix"
	"verifharness/ref/codec"
	"verifharness/wire"
)

// C12 broker role: the packet identifiers of PUBLISH packets the broker has
// sent to one subscriber and that are not yet acknowledged are non-zero and
// pairwise distinct, whoever published them.

type C12Pub struct {
	From  int    `json:"from"` // publisher index; -1 = in-process Server.Publish; -2 = a will
	QoS   byte   `json:"qos"`
	PID   uint16 `json:"pid"`
	Topic string `json:"topic"`
}

type C12BCase struct {
	Transport
	NPubs  int      `json:"npubs"`
	SubQoS byte     `json:"subqos"`
	Pubs   []C12Pub `json:"pubs"`
	// Retained: a retained QoS>0 message exists before the subscriber subscribes
	Retained *C12Pub `json:"retained,omitempty"`
}

func runC12Broker(c C12BCase) (fail string, classes []string) {
	b, err := fix.New(16384, "")
	if err != nil {
		return "fixture: " + err.Error(), nil
	}
	c.Transport.apply(b)
	defer b.Shutdown()
	pubs := make([]*fix.Conn, c.NPubs)
	for i := range pubs {
		pubs[i] = b.Dial(fmt.Sprintf("P%d", i))
		pubs[i].AutoRel = true
		cp := wire.ConnectPacket(fmt.Sprintf("pub%d", i), true, 120)
		if _, err := pubs[i].Connect(cp); err != nil {
			return "publisher connect: " + err.Error(), nil
		}
	}
	if c.Retained != nil {
		pubs[0].Send(&codec.Packet{Type: codec.PUBLISH, QoS: c.Retained.QoS, PacketID: c.Retained.PID, Retain: true, Topic: []byte("ids/retained"), Payload: []byte("retained")})
		if _, err := pubs[0].Barrier(); err != nil {
			return "publisher barrier: " + err.Error(), nil
		}
		classes = append(classes, "retained-message-with-publisher-id")
	}
	S := b.Dial("S")
	S.AutoAck = false // the subscriber withholds every acknowledgement
	if _, err := S.Connect(wire.ConnectPacket("sub", true, 120)); err != nil {
		return "subscriber connect: " + err.Error(), nil
	}
	S.Send(&codec.Packet{Type: codec.SUBSCRIBE, PacketID: 1, Topics: [][]byte{[]byte("ids/#")}, QoSs: []byte{c.SubQoS}})
	if _, err := S.Barrier(); err != nil {
		return "subscriber barrier: " + err.Error(), nil
	}
	for i, p := range c.Pubs {
		switch {
		case p.From == -1:
			m := message.NewPublishMessage()
			m.SetTopic([]byte("ids/inproc"))
			m.SetPayload([]byte(fmt.Sprintf("m%d", i)))
			m.SetQoS(p.QoS)
			b.Srv.Publish(m)
			classes = append(classes, "in-process-publish")
		default:
			pc := pubs[p.From%c.NPubs]
			pc.Send(&codec.Packet{Type: codec.PUBLISH, QoS: p.QoS, PacketID: p.PID, Topic: []byte("ids/t"), Payload: []byte(fmt.Sprintf("m%d", i))})
			if _, err := pc.Barrier(); err != nil {
				return fmt.Sprintf("publisher %d barrier: %v", p.From, err), classes
			}
		}
	}
	// QoS 2 publishes are forwarded at PUBREL time; the publishers' AutoRel does that. Cut all.
	for _, pc := range pubs {
		if _, err := pc.Barrier(); err != nil {
			return "publisher final barrier: " + err.Error(), classes
		}
	}
	rx, err := S.Barrier()
	if err != nil {
		return "subscriber final barrier: " + err.Error(), classes
	}
	seen := map[uint16]string{}
	inflight := 0
	for _, r := range rx {
		if r.P.Type != codec.PUBLISH || r.P.QoS == 0 {
			continue
		}
		inflight++
		desc := fmt.Sprintf("%q/%q", r.P.Topic, r.P.Payload)
		if r.P.PacketID == 0 {
			return fmt.Sprintf("the broker sent the subscriber a QoS %d PUBLISH (%s) with packet identifier 0", r.P.QoS, desc), classes
		}
		if prev, dup := seen[r.P.PacketID]; dup {
			return fmt.Sprintf("two PUBLISH packets are in flight to the subscriber (none acknowledged) with the same packet identifier %d: %s and %s", r.P.PacketID, prev, desc), classes
		}
		seen[r.P.PacketID] = desc
	}
	if inflight >= 2 {
		classes = append(classes, ">=2-in-flight")
	}
	return "", classes
}

func genC12Broker(t *rapid.T) C12BCase {
	c := C12BCase{NPubs: rapid.IntRange(2, 3).Draw(t, "npubs"), SubQoS: byte(rapid.IntRange(1, 2).Draw(t, "subqos"))}
	ids := []uint16{1, 2, 3, 7}
	if rapid.IntRange(0, 3).Draw(t, "retained") == 0 {
		c.Retained = &C12Pub{QoS: byte(rapid.IntRange(1, 2).Draw(t, "rq")), PID: rapid.SampledFrom(ids).Draw(t, "rid")}
	}
	used := map[[2]int]bool{}
	for i, n := 0, rapid.IntRange(2, 10).Draw(t, "n"); i < n; i++ {
		p := C12Pub{From: rapid.IntRange(-1, c.NPubs-1).Draw(t, "from"), QoS: byte(rapid.IntRange(0, 2).Draw(t, "q"))}
		if p.From >= 0 && p.QoS > 0 {
			// a publisher does not reuse an identifier of its own that may still be open
			for try := 0; try < 8; try++ {
				p.PID = rapid.SampledFrom(ids).Draw(t, "pid")
				if !used[[2]int{p.From, int(p.PID)}] {
					break
				}
				p.PID = uint16(100 + i)
			}
			used[[2]int{p.From, int(p.PID)}] = true
		}
		c.Pubs = append(c.Pubs, p)
	}
	c.Transport = genTransport(t)
	return c
}

func TestC12Broker(t *testing.T) {
	rec := ev.New("C12", "broker-role")
	defer rec.Flush()
	judge := func(c C12BCase) (string, string, []string) {
		f, cls := runC12Broker(c)
		return "-", f, cls
	}
	if rp := ev.LoadReplay(t, "broker-role"); rp != nil {
		var c C12BCase
		json.Unmarshal(rp.Case, &c)
		if sig, f, _ := judge(c); f != "" {
			p := rec.Violation(sig, "plan", f, c, nil)
			rec.Flush()
			t.Fatalf("VIOLATION %s replay=%s", f, p)
		}
		return
	} else if ev.Replaying() {
		t.Skip()
	}
	rapid.Check(t, func(t *rapid.T) {
		c := genC12Broker(t)
		sig, f, cls := judge(c)
		nt := false
		for _, x := range cls {
			if x == ">=2-in-flight" {
				nt = true
			}
		}
		rec.Case(c, nt, cls...)
		if f != "" {
			p := rec.Violation(sig, "plan", f, c, nil)
			t.Fatalf("VIOLATION %s replay=%s", f, p)
		}
	})
}

// ---- unit "id-wrap": the identifier counter of a connection passes 65535 ----
//
// One subscriber receives more than 65536 QoS>0 messages (in-process
// publishes, so the run takes about a second) and acknowledges with a lag: at
// any moment the identifiers of the PUBLISH packets it has not acknowledged
// yet must be non-zero and pairwise distinct - also where the counter wraps.

type C12WCase struct {
	Lag    int  `json:"lag"`    // acknowledgements are held back until this many are outstanding
	Extra  int  `json:"extra"`  // messages beyond 65536
	QoS2   bool `json:"qos2"`   // subscription and publishes at QoS 2 (PUBREC/PUBREL/PUBCOMP) instead of 1
	Second bool `json:"second"` // a second wrap (another 65536 messages)
	// Publishers > 1: Total messages (fewer than 65535, so that the subscriber can leave them
	// all unacknowledged) are published by that many goroutines calling Server.Publish at once:
	// deliveries to one connection from several goroutines draw their identifiers concurrently
	Publishers int `json:"publishers,omitempty"`
	Total      int `json:"total,omitempty"`
}

func runC12Wrap(c C12WCase) (fail string) {
	b, err := fix.New(16384, "")
	if err != nil {
		return "fixture: " + err.Error()
	}
	defer b.Shutdown()
	S := b.Dial("S")
	S.AutoAck = false
	var mu sync.Mutex
	outstanding := map[uint16]int{} // id -> message number
	var order []uint16
	seen, failed := 0, ""
	q := byte(1)
	if c.QoS2 {
		q = 2
	}
	S.OnPacket = func(p *codec.Packet, off int64) bool {
		switch p.Type {
		case codec.PUBLISH:
			if p.QoS == 0 {
				return true
			}
			mu.Lock()
			seen++
			if failed == "" {
				if p.PacketID == 0 {
					failed = fmt.Sprintf("PUBLISH #%d carries packet identifier 0", seen)
				} else if prev, dup := outstanding[p.PacketID]; dup {
					failed = fmt.Sprintf("PUBLISH #%d has packet identifier %d, which PUBLISH #%d still has in flight (%d unacknowledged)", seen, p.PacketID, prev, len(outstanding))
				}
			}
			outstanding[p.PacketID] = seen
			order = append(order, p.PacketID)
			var acks []byte
			for len(order) > c.Lag {
				id := order[0]
				order = order[1:]
				delete(outstanding, id)
				t := byte(codec.PUBACK)
				if c.QoS2 {
					t = codec.PUBREC
				}
				acks = append(acks, codec.Encode(&codec.Packet{Type: t, PacketID: id})...)
			}
			mu.Unlock()
			if len(acks) > 0 {
				S.SendAsync(acks)
			}
			return true
		case codec.PUBREL:
			S.SendAsync(codec.Encode(&codec.Packet{Type: codec.PUBCOMP, PacketID: p.PacketID}))
			return true
		}
		return false
	}
	if _, err := S.Connect(wire.ConnectPacket("wrap", true, 300)); err != nil {
		return "subscriber connect: " + err.Error()
	}
	S.Send(&codec.Packet{Type: codec.SUBSCRIBE, PacketID: 1, Topics: [][]byte{[]byte("wrap/#")}, QoSs: []byte{q}})
	if _, err := S.Barrier(); err != nil {
		return "subscriber barrier: " + err.Error()
	}
	total := 65536 + c.Extra
	if c.Second {
		total += 65536
	}
	if c.Total > 0 {
		total = c.Total
	}
	publish := func(i int) string {
		m := message.NewPublishMessage()
		m.SetTopic([]byte("wrap/t"))
		m.SetPayload([]byte{byte(i), byte(i >> 8), byte(i >> 16)})
		m.SetQoS(q)
		if err := b.Srv.Publish(m); err != nil {
			return fmt.Sprintf("Server.Publish #%d: %v", i, err)
		}
		return ""
	}
	if c.Publishers > 1 {
		var wg sync.WaitGroup
		errs := make([]string, c.Publishers)
		for g := 0; g < c.Publishers; g++ {
			wg.Add(1)
			go func(g int) {
				defer wg.Done()
				for i := g; i < total; i += c.Publishers {
					if f := publish(i); f != "" {
						errs[g] = f
						return
					}
				}
			}(g)
		}
		wg.Wait()
		for _, f := range errs {
			if f != "" {
				return f
			}
		}
	} else {
		for i := 0; i < total; i++ {
			if f := publish(i); f != "" {
				return f
			}
		}
	}
	if _, err := S.Barrier(); err != nil {
		return fmt.Sprintf("subscriber barrier after %d messages: %v (stream error %v)", total, err, S.StreamErr())
	}
	mu.Lock()
	defer mu.Unlock()
	if failed != "" {
		return failed
	}
	if seen != total {
		return fmt.Sprintf("the subscriber received %d of %d QoS %d messages", seen, total, q)
	}
	return ""
}

func TestC12Wrap(t *testing.T) {
	rec := ev.New("C12", "id-wrap")
	defer rec.Flush()
	if rp := ev.LoadReplay(t, "id-wrap"); rp != nil {
		var c C12WCase
		json.Unmarshal(rp.Case, &c)
		if f := runC12Wrap(c); f != "" {
			p := rec.Violation("-", "plan", f, c, nil)
			rec.Flush()
			t.Fatalf("VIOLATION %s replay=%s", f, p)
		}
		return
	} else if ev.Replaying() {
		t.Skip()
	}
	e := ev.GetEnv()
	cases := []C12WCase{{Lag: 1, Extra: 40}, {Lag: 4, Extra: 40, QoS2: true}, {Lag: 50, Extra: 200}, {Lag: 2, Extra: 10, Second: true},
		{Lag: 70000, Publishers: 8, Total: 32000}, {Lag: 70000, Publishers: 3, Total: 20000, QoS2: true}, {Lag: 70000, Publishers: 16, Total: 48000}, {Lag: 500, Publishers: 6, Total: 60000}}
	if ev.Thorough() {
		for _, lag := range []int{1, 2, 3, 7, 100, 1000} {
			cases = append(cases, C12WCase{Lag: lag, Extra: 3000}, C12WCase{Lag: lag, Extra: 3000, QoS2: true, Second: lag%2 == 1})
		}
	}
	for i, c := range cases {
		if i%e.Shards != e.Shard {
			continue
		}
		f := runC12Wrap(c)
		if c.Publishers > 1 {
			rec.Case(c, true, "concurrent-deliveries-to-one-connection")
		} else {
			rec.Case(c, true, "identifier-counter-wrapped")
		}
		if f != "" {
			p := rec.Violation("-", "plan", f, c, nil)
			rec.Flush()
			t.Fatalf("VIOLATION %s replay=%s", f, p)
		}
	}
}
