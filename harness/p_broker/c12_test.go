package p_broker

import (
	"encoding/json"
	"fmt"
	"testing"

	"github.com/mdzio/go-mqtt/message"
	"pgregory.net/rapid"
	"verifharness/ev"
	"verifharness/fix"
	"verifharness/ref/codec"
	"verifharness/wire"
)

// C12 broker role: the packet identifiers of PUBLISH packets the broker has
// sent to one subscriber and that are not yet acknowledged are non-zero and
// pairwise distinct, whoever published them.

type C12Pub struct {
	From  int    `json:"from"` // publisher index; -1 = in-process Server.Publish; -2 = a will
	QoS   byte   `json:"qos"`
	PID   uint16 `json:"pid"`
	Topic string `json:"topic"`
}

type C12BCase struct {
	NPubs  int      `json:"npubs"`
	SubQoS byte     `json:"subqos"`
	Pubs   []C12Pub `json:"pubs"`
	// Retained: a retained QoS>0 message exists before the subscriber subscribes
	Retained *C12Pub `json:"retained,omitempty"`
}

func runC12Broker(c C12BCase) (fail string, classes []string) {
	b, err := fix.New(16384, "")
	if err != nil {
		return "fixture: " + err.Error(), nil
	}
	defer b.Shutdown()
	pubs := make([]*fix.Conn, c.NPubs)
	for i := range pubs {
		pubs[i] = b.Dial(fmt.Sprintf("P%d", i))
		pubs[i].AutoRel = true
		cp := wire.ConnectPacket(fmt.Sprintf("pub%d", i), true, 120)
		if _, err := pubs[i].Connect(cp); err != nil {
			return "publisher connect: " + err.Error(), nil
		}
	}
	if c.Retained != nil {
		pubs[0].Send(&codec.Packet{Type: codec.PUBLISH, QoS: c.Retained.QoS, PacketID: c.Retained.PID, Retain: true, Topic: []byte("ids/retained"), Payload: []byte("retained")})
		if _, err := pubs[0].Barrier(); err != nil {
			return "publisher barrier: " + err.Error(), nil
		}
		classes = append(classes, "retained-message-with-publisher-id")
	}
	S := b.Dial("S")
	S.AutoAck = false // the subscriber withholds every acknowledgement
	if _, err := S.Connect(wire.ConnectPacket("sub", true, 120)); err != nil {
		return "subscriber connect: " + err.Error(), nil
	}
	S.Send(&codec.Packet{Type: codec.SUBSCRIBE, PacketID: 1, Topics: [][]byte{[]byte("ids/#")}, QoSs: []byte{c.SubQoS}})
	if _, err := S.Barrier(); err != nil {
		return "subscriber barrier: " + err.Error(), nil
	}
	for i, p := range c.Pubs {
		switch {
		case p.From == -1:
			m := message.NewPublishMessage()
			m.SetTopic([]byte("ids/inproc"))
			m.SetPayload([]byte(fmt.Sprintf("m%d", i)))
			m.SetQoS(p.QoS)
			b.Srv.Publish(m)
			classes = append(classes, "in-process-publish")
		default:
			pc := pubs[p.From%c.NPubs]
			pc.Send(&codec.Packet{Type: codec.PUBLISH, QoS: p.QoS, PacketID: p.PID, Topic: []byte("ids/t"), Payload: []byte(fmt.Sprintf("m%d", i))})
			if _, err := pc.Barrier(); err != nil {
				return fmt.Sprintf("publisher %d barrier: %v", p.From, err), classes
			}
		}
	}
	// QoS 2 publishes are forwarded at PUBREL time; the publishers' AutoRel does that. Cut all.
	for _, pc := range pubs {
		if _, err := pc.Barrier(); err != nil {
			return "publisher final barrier: " + err.Error(), classes
		}
	}
	rx, err := S.Barrier()
	if err != nil {
		return "subscriber final barrier: " + err.Error(), classes
	}
	seen := map[uint16]string{}
	inflight := 0
	for _, r := range rx {
		if r.P.Type != codec.PUBLISH || r.P.QoS == 0 {
			continue
		}
		inflight++
		desc := fmt.Sprintf("%q/%q", r.P.Topic, r.P.Payload)
		if r.P.PacketID == 0 {
			return fmt.Sprintf("the broker sent the subscriber a QoS %d PUBLISH (%s) with packet identifier 0", r.P.QoS, desc), classes
		}
		if prev, dup := seen[r.P.PacketID]; dup {
			return fmt.Sprintf("two PUBLISH packets are in flight to the subscriber (none acknowledged) with the same packet identifier %d: %s and %s", r.P.PacketID, prev, desc), classes
		}
		seen[r.P.PacketID] = desc
	}
	if inflight >= 2 {
		classes = append(classes, ">=2-in-flight")
	}
	return "", classes
}

func genC12Broker(t *rapid.T) C12BCase {
	c := C12BCase{NPubs: rapid.IntRange(2, 3).Draw(t, "npubs"), SubQoS: byte(rapid.IntRange(1, 2).Draw(t, "subqos"))}
	ids := []uint16{1, 2, 3, 7}
	if rapid.IntRange(0, 3).Draw(t, "retained") == 0 {
		c.Retained = &C12Pub{QoS: byte(rapid.IntRange(1, 2).Draw(t, "rq")), PID: rapid.SampledFrom(ids).Draw(t, "rid")}
	}
	used := map[[2]int]bool{}
	for i, n := 0, rapid.IntRange(2, 10).Draw(t, "n"); i < n; i++ {
		p := C12Pub{From: rapid.IntRange(-1, c.NPubs-1).Draw(t, "from"), QoS: byte(rapid.IntRange(0, 2).Draw(t, "q"))}
		if p.From >= 0 && p.QoS > 0 {
			// a publisher does not reuse an identifier of its own that may still be open
			for try := 0; try < 8; try++ {
				p.PID = rapid.SampledFrom(ids).Draw(t, "pid")
				if !used[[2]int{p.From, int(p.PID)}] {
					break
				}
				p.PID = uint16(100 + i)
			}
			used[[2]int{p.From, int(p.PID)}] = true
		}
		c.Pubs = append(c.Pubs, p)
	}
	return c
}

func TestC12Broker(t *testing.T) {
	rec := ev.New("C12", "broker-role")
	defer rec.Flush()
	judge := func(c C12BCase) (string, string, []string) {
		f, cls := runC12Broker(c)
		return "-", f, cls
	}
	if rp := ev.LoadReplay(t, "broker-role"); rp != nil {
		var c C12BCase
		json.Unmarshal(rp.Case, &c)
		if sig, f, _ := judge(c); f != "" {
			p := rec.Violation(sig, "plan", f, c, nil)
			rec.Flush()
			t.Fatalf("VIOLATION %s replay=%s", f, p)
		}
		return
	} else if ev.Replaying() {
		t.Skip()
	}
	rapid.Check(t, func(t *rapid.T) {
		c := genC12Broker(t)
		sig, f, cls := judge(c)
		nt := false
		for _, x := range cls {
			if x == ">=2-in-flight" {
				nt = true
			}
		}
		rec.Case(c, nt, cls...)
		if f != "" {
			p := rec.Violation(sig, "plan", f, c, nil)
			t.Fatalf("VIOLATION %s replay=%s", f, p)
		}
	})
}
