package p_broker

import (
	"bytes"
	"encoding/json"
	"fmt"
	"sync"
	"sync/atomic"
	"testing"
	"time"

	"pgregory.net/rapid"
	"verifharness/ev"
	"verifharness/fix"
	"verifharness/ref/codec"
	"verifharness/wire"
)

// C19: keep-alive — silent clients are dropped as failed (will published),
// clients that send anything at intervals shorter than K never are.

type KAStep struct {
	GapPct int    `json:"gap_pct"` // pause before the packet, in percent of K
	Kind   string `json:"kind"`    // ping pub0 pub1 sub
}

type KAScenario struct {
	K      int      `json:"k"`
	Steps  []KAStep `json:"steps"`
	Silent bool     `json:"silent"` // go silent after the steps (else: stay active, then DISCONNECT)
	// Feed: the client is subscribed to a topic on which another client keeps
	// publishing, so the broker keeps WRITING to it while it is silent.
	Feed bool `json:"feed,omitempty"`
	// Partial: before going silent the client writes the first Partial bytes of a
	// 24-byte PUBLISH (the silence begins in the middle of a packet).
	Partial int `json:"partial,omitempty"`
	// Flood: the client never stops sending but does not read for 2.2 x K: it
	// writes 24 576 PINGREQs, which fill both buffers of its connection, so that
	// the broker stops taking its bytes until it reads again; then it reads, goes
	// on pinging every 0.15 x K and must still be connected with every PINGREQ
	// answered (from its own point of view it always had a write in progress).
	Flood bool `json:"flood,omitempty"`
	// HugeK: a keep-alive near the top of the 16-bit range (54614, 54615, 65535 s): the client
	// pings after pauses of 0.5, 0.5, 3.5 and 0.5 s and must of course still be connected.
	HugeK int `json:"huge_k,omitempty"`
	// Resume: the scenario's connection resumes a session (CleanSession=0): a first
	// connection with the byte-identical CONNECT was ended by a DISCONNECT packet before.
	Resume bool `json:"resume,omitempty"`
}

type C19Case struct {
	Scenarios []KAScenario `json:"scenarios"`
}

type kaOutcome struct {
	fail  string
	incon string
	cls   []string
}

func runC19(c C19Case) (fails []string, incon int, classes []string) {
	b, err := fix.New(16384, "")
	if err != nil {
		return []string{"fixture: " + err.Error()}, 0, nil
	}
	defer b.Shutdown()
	W := b.Dial("witness")
	if _, err := W.Connect(wire.ConnectPacket("witness", true, 600)); err != nil {
		return []string{"witness connect: " + err.Error()}, 0, nil
	}
	W.Send(&codec.Packet{Type: codec.SUBSCRIBE, PacketID: 1, Topics: [][]byte{[]byte("ka/will/#")}, QoSs: []byte{1}})
	if _, err := W.Barrier(); err != nil {
		return []string{"witness barrier: " + err.Error()}, 0, nil
	}
	// a feeder publishes every 300 ms for as long as the scenarios run
	stopFeed := make(chan struct{})
	feedDone := make(chan struct{})
	F := b.Dial("feeder")
	if _, err := F.Connect(wire.ConnectPacket("feeder", true, 600)); err != nil {
		return []string{"feeder connect: " + err.Error()}, 0, nil
	}
	go func() {
		defer close(feedDone)
		for {
			select {
			case <-stopFeed:
				return
			case <-time.After(300 * time.Millisecond):
				F.SendAsync(codec.Encode(&codec.Packet{Type: codec.PUBLISH, Topic: []byte("ka/feed"), Payload: []byte("tick")}))
			}
		}
	}()
	defer func() { close(stopFeed); <-feedDone }()
	outs := make([]kaOutcome, len(c.Scenarios))
	wantWill := make([]int, len(c.Scenarios))
	var wg sync.WaitGroup
	for si, sc := range c.Scenarios {
		wg.Add(1)
		go func(si int, sc KAScenario) {
			defer wg.Done()
			o := &outs[si]
			K := time.Duration(sc.K) * time.Second
			cp := wire.ConnectPacket(fmt.Sprintf("ka%d", si), true, uint16(sc.K))
			if sc.HugeK > 0 {
				cp.KeepAlive = uint16(sc.HugeK)
			}
			cp.ConnectFlags |= 4
			cp.WillTopic, cp.WillMessage = []byte(fmt.Sprintf("ka/will/%d", si)), []byte("expired")
			if sc.Resume {
				cp.ConnectFlags &^= 2 // CleanSession=0
				c0 := b.Dial(fmt.Sprintf("ka%d-first", si))
				if _, err := c0.Connect(cp); err != nil {
					o.fail = fmt.Sprintf("scenario %d: first connect: %v", si, err)
					return
				}
				c0.Send(&codec.Packet{Type: codec.DISCONNECT})
				if !c0.WaitTeardown(wire.DefaultWait) {
					o.incon = fmt.Sprintf("scenario %d: teardown of the first connection not seen", si)
					return
				}
				c0.Close()
				o.cls = append(o.cls, "session-resumed-with-identical-CONNECT-after-DISCONNECT")
			}
			cn := b.Dial(fmt.Sprintf("ka%d", si))
			if _, err := cn.Connect(cp); err != nil {
				o.fail = fmt.Sprintf("scenario %d: connect: %v", si, err)
				return
			}
			cn.OnPacket = func(p *codec.Packet, off int64) bool { return p.Type == codec.PUBLISH }
			if sc.Feed {
				cn.Send(&codec.Packet{Type: codec.SUBSCRIBE, PacketID: 999, Topics: [][]byte{[]byte("ka/feed")}, QoSs: []byte{0}})
				o.cls = append(o.cls, "receives-deliveries-while-silent-or-active")
			}
			if sc.HugeK > 0 {
				for i, gap := range []time.Duration{500, 500, 3500, 500} {
					time.Sleep(gap * time.Millisecond)
					if err := cn.Send(&codec.Packet{Type: codec.PINGREQ}); err != nil {
						o.fail = fmt.Sprintf("scenario %d (K=%ds): the connection was closed although the client's pauses (0.5 s, 0.5 s, 3.5 s, 0.5 s) are nowhere near its keep-alive: PINGREQ %d: %v", si, sc.HugeK, i+1, err)
						return
					}
					if _, err := cn.Take(func(p *codec.Packet) bool { return p.Type == codec.PINGRESP }, 3*time.Second); err != nil {
						o.fail = fmt.Sprintf("scenario %d (K=%ds): PINGREQ %d was not answered (%v) although the client's pauses (0.5 s, 0.5 s, 3.5 s, 0.5 s) are nowhere near its keep-alive", si, sc.HugeK, i+1, err)
						return
					}
				}
				o.cls = append(o.cls, "keep-alive-near-65535")
				cn.Send(&codec.Packet{Type: codec.DISCONNECT})
				cn.WaitTeardown(wire.DefaultWait)
				cn.Close()
				return
			}
			if sc.Flood {
				var resp atomic.Int64
				cn.OnPacket = func(p *codec.Packet, off int64) bool {
					if p.Type == codec.PINGRESP {
						resp.Add(1)
						return true
					}
					return p.Type == codec.PUBLISH
				}
				cn.Stall()
				chunk := bytes.Repeat([]byte{0xC0, 0}, 512)
				sent := int64(0)
				for i := 0; i < 48; i++ {
					cn.SendAsync(chunk)
					sent += 512
				}
				time.Sleep(K * 22 / 10)
				cn.Unstall()
				what := fmt.Sprintf("scenario %d (K=%ds): the client wrote PINGREQs without a pause but did not read for 2.2 x K, so that the broker stopped taking its bytes; when it read again", si, sc.K)
				for i := 0; i < 11; i++ {
					if err := cn.SendRawTimeout([]byte{0xC0, 0}, wire.DefaultWait); err != nil {
						o.fail = fmt.Sprintf("%s it was disconnected (%v) although it never stopped sending", what, err)
						return
					}
					sent++
					time.Sleep(K * 15 / 100)
				}
				for i := 0; i < 2000 && resp.Load() < sent && !cn.PeerClosed(); i++ {
					time.Sleep(5 * time.Millisecond)
				}
				if resp.Load() != sent {
					o.fail = fmt.Sprintf("%s %d of its %d PINGREQs were answered (connection closed by the broker: %v)", what, resp.Load(), sent, cn.PeerClosed())
					return
				}
				o.cls = append(o.cls, "sending-without-reading-for-2.2K-then-resuming")
				cn.Send(&codec.Packet{Type: codec.DISCONNECT})
				cn.WaitTeardown(wire.DefaultWait)
				cn.Close()
				return
			}
			last := time.Now()
			pings, maxGap, timely := 0, time.Duration(0), 0
			send := func(kind string, pid uint16) bool {
				var p *codec.Packet
				switch kind {
				case "ping":
					p = &codec.Packet{Type: codec.PINGREQ}
					pings++
				case "pub0":
					p = &codec.Packet{Type: codec.PUBLISH, Topic: []byte("ka/traffic"), Payload: []byte("x")}
				case "pub1":
					p = &codec.Packet{Type: codec.PUBLISH, QoS: 1, PacketID: pid, Topic: []byte("ka/traffic"), Payload: []byte("x")}
				case "pubblock":
					// a packet of exactly 8192 bytes: one full read block of the broker's receiver (and the
					// largest packet its 16 KiB buffer takes in)
					p = &codec.Packet{Type: codec.PUBLISH, Topic: []byte("ka/traffic"), Payload: make([]byte, 8192-15)}
				default:
					p = &codec.Packet{Type: codec.SUBSCRIBE, PacketID: pid, Topics: [][]byte{[]byte("ka/none")}, QoSs: []byte{0}}
				}
				err := cn.Send(p)
				now := time.Now()
				gap := now.Sub(last)
				last = now
				if gap > maxGap {
					maxGap = gap
				}
				if err != nil {
					if maxGap >= K*99/100 {
						o.incon = fmt.Sprintf("scenario %d: own write was late (gap %v of K=%v)", si, gap, K)
					} else {
						o.fail = fmt.Sprintf("scenario %d (K=%ds): the connection was closed although every gap between its packets stayed below K (largest %v): %v", si, sc.K, maxGap, err)
					}
					return false
				}
				timely++
				return true
			}
			pid := uint16(0)
			for _, st := range sc.Steps {
				time.Sleep(K * time.Duration(st.GapPct) / 100)
				pid++
				if !send(st.Kind, pid) {
					return
				}
			}
			if maxGap >= K*70/100 {
				o.cls = append(o.cls, "gap>=0.7K")
			}
			if maxGap >= K*95/100 {
				o.cls = append(o.cls, "gap>=0.95K")
			}
			if !sc.Silent {
				// active throughout: still open, every PINGREQ answered
				pid++
				if !send("ping", pid) {
					return
				}
				got := 0
				for i := 0; i < pings; i++ {
					if _, err := cn.Take(func(p *codec.Packet) bool { return p.Type == codec.PINGRESP }, 3*time.Second); err == nil {
						got++
					}
				}
				if got != pings {
					if maxGap >= K*99/100 {
						o.incon = fmt.Sprintf("scenario %d: own write was late", si)
					} else {
						o.fail = fmt.Sprintf("scenario %d (K=%ds): %d of %d PINGREQs were answered although every gap stayed below K (largest %v)", si, sc.K, got, pings, maxGap)
					}
					return
				}
				o.cls = append(o.cls, "active-throughout")
				cn.Send(&codec.Packet{Type: codec.DISCONNECT})
				cn.WaitTeardown(wire.DefaultWait)
				cn.Close()
				return
			}
			// silence: must stay open until K, must be closed well before the cap
			o.cls = append(o.cls, "silent")
			if timely >= 2 {
				o.cls = append(o.cls, "silent-after>=2-timely-packets")
			}
			wantWill[si] = 1
			if sc.Partial > 0 {
				pkt := codec.Encode(&codec.Packet{Type: codec.PUBLISH, Topic: []byte("ka/traffic"), Payload: []byte("0123456789")})
				if err := cn.SendRaw(pkt[:minInt(sc.Partial, len(pkt)-1)]); err == nil {
					if g := time.Since(last); g > maxGap {
						maxGap = g
					}
					last = time.Now()
					o.cls = append(o.cls, "silence-begins-inside-a-packet")
				}
			}
			early := K * 90 / 100
			if cn.WaitClosed(early - time.Since(last)) {
				if time.Since(last) < K {
					o.fail = fmt.Sprintf("scenario %d (K=%ds): disconnected %v after its last packet, before the keep-alive interval had passed", si, sc.K, time.Since(last).Round(time.Millisecond))
					return
				}
			}
			limit := K*3/2 + 8*time.Second
			if !cn.WaitClosed(limit - time.Since(last)) {
				o.fail = fmt.Sprintf("scenario %d (K=%ds): still connected %v after its last packet (well over 1.5 x K)", si, sc.K, time.Since(last).Round(time.Millisecond))
				return
			}
			if !cn.WaitTeardown(wire.DefaultWait) {
				o.fail = fmt.Sprintf("scenario %d: teardown after keep-alive expiry did not finish", si)
			}
			cn.Close()
		}(si, sc)
	}
	wg.Wait()
	rx, err := W.Barrier()
	if err != nil {
		return []string{"the witness connection was closed: " + err.Error()}, 0, nil
	}
	wills := map[string]int{}
	for _, r := range rx {
		if r.P.Type == codec.PUBLISH {
			wills[string(r.P.Topic)]++
		}
	}
	seen := map[string]bool{}
	for si, o := range outs {
		if o.incon != "" {
			incon++
			continue
		}
		if o.fail != "" {
			fails = append(fails, o.fail)
			continue
		}
		if g := wills[fmt.Sprintf("ka/will/%d", si)]; g != wantWill[si] {
			fails = append(fails, fmt.Sprintf("scenario %d (K=%ds, silent=%v): its will was published %d times, expected %d", si, c.Scenarios[si].K, c.Scenarios[si].Silent, g, wantWill[si]))
		}
		for _, cl := range o.cls {
			if !seen[cl] {
				seen[cl] = true
				classes = append(classes, cl)
			}
		}
	}
	for _, x := range b.Escaped() {
		fails = append(fails, x)
	}
	return
}

func genC19(t *rapid.T) C19Case {
	var c C19Case
	for i, n := 0, 8; i < n; i++ {
		sc := KAScenario{K: rapid.SampledFrom([]int{1, 1, 2}).Draw(t, "k"), Silent: rapid.IntRange(0, 2).Draw(t, "silent") > 0, Feed: rapid.IntRange(0, 2).Draw(t, "feed") == 0}
		budget := 500 // percent of K spent on gaps at most
		for j, m := 0, rapid.IntRange(0, 8).Draw(t, "nsteps"); j < m && budget > 0; j++ {
			st := KAStep{GapPct: rapid.SampledFrom([]int{20, 28, 35, 50, 70, 80, 85, 97}).Draw(t, "gap"), Kind: rapid.SampledFrom([]string{"ping", "ping", "pub0", "pub1", "sub", "pubblock"}).Draw(t, "kind")}
			budget -= st.GapPct
			sc.Steps = append(sc.Steps, st)
			if rapid.IntRange(0, 5).Draw(t, "short-then-long") == 0 && budget > 0 {
				// irregular activity: a packet shortly after the previous one, then a long
				// pause that is still shorter than K (together more than 1.2 x K)
				sc.Steps[len(sc.Steps)-1].GapPct = rapid.SampledFrom([]int{12, 28, 45, 55}).Draw(t, "short")
				lg := KAStep{GapPct: rapid.SampledFrom([]int{85, 97, 97}).Draw(t, "long"), Kind: "ping"}
				budget -= lg.GapPct
				sc.Steps = append(sc.Steps, lg)
			}
		}
		sc.Resume = rapid.IntRange(0, 3).Draw(t, "resume") == 0
		if sc.Silent && rapid.IntRange(0, 2).Draw(t, "partial") == 0 {
			sc.Partial = rapid.SampledFrom([]int{1, 2, 9, 22}).Draw(t, "cut")
		}
		if i == 7 && rapid.IntRange(0, 1).Draw(t, "flood") == 0 {
			sc = KAScenario{K: 1, Flood: true}
		}
		if i == 6 {
			sc = KAScenario{K: 1, HugeK: rapid.SampledFrom([]int{54613, 54614, 54615, 54616, 65535}).Draw(t, "hugekv")}
		}
		c.Scenarios = append(c.Scenarios, sc)
	}
	return c
}

func TestC19(t *testing.T) {
	rec := ev.New("C19", "timed")
	defer rec.Flush()
	if rp := ev.LoadReplay(t, "timed"); rp != nil {
		var c C19Case
		json.Unmarshal(rp.Case, &c)
		if fails, _, _ := runC19(c); len(fails) > 0 {
			p := rec.Violation("-", "timing", fails[0], c, fails)
			rec.Flush()
			t.Fatalf("VIOLATION %s replay=%s", fails[0], p)
		}
		return
	} else if ev.Replaying() {
		t.Skip()
	}
	rapid.Check(t, func(t *rapid.T) {
		c := genC19(t)
		fails, incon, cls := runC19(c)
		for i := 0; i < incon; i++ {
			rec.Inconclusive()
		}
		// every scenario is a case of its own
		for si, sc := range c.Scenarios {
			nt := (sc.Silent && len(sc.Steps) >= 2) || (!sc.Silent && func() bool {
				for _, st := range sc.Steps {
					if st.GapPct >= 70 {
						return true
					}
				}
				return false
			}())
			var k []string
			if si == 0 {
				k = cls
			}
			rec.Case(sc, nt, k...)
		}
		if len(fails) > 0 {
			p := rec.Violation("-", "timing", fails[0], c, fails)
			t.Fatalf("VIOLATION %s replay=%s", fails[0], p)
		}
	})
}
