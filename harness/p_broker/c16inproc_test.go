package p_broker

import (
	"bytes"
	"encoding/json"
	"fmt"
	"testing"
	"time"

	"pgregory.net/rapid"
	"verifharness/census"
	"verifharness/ev"
	"verifharness/fix"
	"verifharness/ref/codec"
	"verifharness/wire"
)

// C16, unit "inproc-blocked": goroutines of the embedding program are blocked
// inside Server.Publish - a subscriber has stopped reading and its buffers are
// full - when the connection ends or Server.Close is called. The end of the
// subscriber's connection (its own close, or Server.Close) releases them: the
// subscriber is torn down, Server.Close returns, every Server.Publish call
// returns (with or without an error), no goroutine of the library remains.

type IBCase struct {
	Transport
	Publishers int    `json:"publishers"` // goroutines calling Server.Publish
	NetPub     bool   `json:"net_pub"`    // a network publisher is blocked on the subscriber as well
	Size       int    `json:"size"`
	End        string `json:"end"` // serverclose | subclose-then-serverclose | resume-then-serverclose (the subscriber reads again: the blocked calls finish)
	BufSize    int    `json:"bufsize,omitempty"`
}

func runIB(c IBCase) (fail, incon string, classes []string) {
	if left := census.Lib(); len(left) > 0 {
		time.Sleep(50 * time.Millisecond)
		if left = census.Lib(); len(left) > 0 {
			return "", "library goroutines left over from an earlier case", nil
		}
	}
	if c.BufSize == 0 {
		c.BufSize = 16384
	}
	b, err := fix.New(int64(c.BufSize), "")
	if err != nil {
		return "", "fixture: " + err.Error(), nil
	}
	c.Transport.apply(b)
	defer b.Shutdown()
	S, P := b.Dial("S"), b.Dial("P")
	for i, cn := range []*fix.Conn{S, P} {
		if _, err := cn.Connect(wire.ConnectPacket(fmt.Sprintf("ib%d", i), true, 300)); err != nil {
			return "", "connect: " + err.Error(), nil
		}
	}
	S.Send(&codec.Packet{Type: codec.SUBSCRIBE, PacketID: 1, Topics: [][]byte{[]byte("ib/t")}, QoSs: []byte{0}})
	if _, err := S.Barrier(); err != nil {
		return "", "barrier: " + err.Error(), nil
	}
	S.Stall()
	pl := bytes.Repeat([]byte{'i'}, c.Size)
	done := make(chan int, c.Publishers)
	for g := 0; g < c.Publishers; g++ {
		go func(g int) {
			defer func() { recover(); done <- g }() // Server.Publish after Server.Close may panic in the caller's goroutine (topics provider closed); not this unit's business
			for i := 0; i < 3*c.BufSize/c.Size+4; i++ {
				if serverPublish(b, "ib/t", pl, 0) != nil {
					return
				}
			}
		}(g)
	}
	if c.NetPub {
		for sent := 0; sent < 3*c.BufSize && c.Size <= c.BufSize-8192-20; sent += c.Size {
			P.SendAsync(codec.Encode(&codec.Packet{Type: codec.PUBLISH, Topic: []byte("ib/t"), Payload: pl}))
		}
	}
	// the publishers run into the full buffers of the subscriber
	settled(300 * time.Millisecond)
	blocked := c.Publishers - len(done)
	if blocked > 0 {
		classes = append(classes, "Server.Publish-blocked-on-a-subscriber-that-stopped-reading")
	}
	what := fmt.Sprintf("%d goroutine(s) were blocked inside Server.Publish on a subscriber that had stopped reading", blocked)
	if c.End == "resume-then-serverclose" {
		// the subscriber reads again: everything that was held up goes through
		S.OnPacket = func(p *codec.Packet, off int64) bool { return p.Type == codec.PUBLISH }
		S.Unstall()
		for g := 0; g < c.Publishers; g++ {
			select {
			case x := <-done:
				done <- x // counted again below
			case <-time.After(wire.DefaultWait):
				if libQuiet() {
					time.Sleep(200 * time.Millisecond)
					if libQuiet() {
						return fmt.Sprintf("%s; the subscriber reads again (its buffers have drained), yet a Server.Publish call of a %d-byte message is still blocked and every library goroutine is parked: %v", what, c.Size, census.Summary(census.Lib())), "", classes
					}
				}
				return "", "Server.Publish slow after the subscriber resumed", classes
			}
			time.Sleep(time.Millisecond)
		}
		classes = append(classes, "subscriber-resumed-reading")
	}
	if c.End == "subclose-then-serverclose" {
		S.Close()
		if !S.WaitTeardown(wire.DefaultWait) {
			if libQuiet() {
				return fmt.Sprintf("%s; the subscriber closed its connection, yet its teardown has not finished after %v and every library goroutine is parked: %v", what, wire.DefaultWait, census.Summary(census.Lib())), "", classes
			}
			return "", "teardown slow while goroutines were running", classes
		}
	}
	returned, p := b.CloseServer(wire.DefaultWait)
	if p != nil {
		return fmt.Sprintf("Server.Close panicked: %v", p), "", classes
	}
	if !returned {
		if libQuiet() {
			time.Sleep(200 * time.Millisecond)
			if libQuiet() {
				return fmt.Sprintf("%s; Server.Close has not returned after %v and every library goroutine is parked: %v", what, wire.DefaultWait, census.Summary(census.Lib())), "", classes
			}
		}
		return "", "Server.Close slow while goroutines were running", classes
	}
	for g := 0; g < c.Publishers; g++ {
		select {
		case <-done:
		case <-time.After(wire.DefaultWait):
			return fmt.Sprintf("%s; Server.Close has returned, yet a Server.Publish call is still blocked: %v", what, census.Summary(census.Lib())), "", classes
		}
	}
	S.Close()
	P.Close()
	var left []census.G
	for try := 0; try < 400; try++ {
		if left = census.Lib(); len(left) == 0 {
			break
		}
		time.Sleep(5 * time.Millisecond)
	}
	if len(left) > 0 {
		return fmt.Sprintf("%s; Server.Close returned and every connection was closed, but %d goroutine(s) of the library remain: %v", what, len(left), census.Summary(left)), "", classes
	}
	return "", "", classes
}

func TestC16InprocBlocked(t *testing.T) {
	rec := ev.New("C16", "inproc-blocked")
	defer rec.Flush()
	if rp := ev.LoadReplay(t, "inproc-blocked"); rp != nil {
		var c IBCase
		json.Unmarshal(rp.Case, &c)
		for i := 0; i < 3; i++ {
			if f, _, _ := runIB(c); f != "" {
				p := rec.Violation("-", "fault", f, c, nil)
				rec.Flush()
				t.Fatalf("VIOLATION %s replay=%s", f, p)
			}
		}
		return
	} else if ev.Replaying() {
		t.Skip()
	}
	rapid.Check(t, func(t *rapid.T) {
		c := IBCase{Publishers: rapid.IntRange(1, 3).Draw(t, "pubs"), NetPub: rapid.Bool().Draw(t, "netpub"), Size: rapid.SampledFrom([]int{2000, 4096, 7000}).Draw(t, "size"),
			End: rapid.SampledFrom([]string{"serverclose", "serverclose", "subclose-then-serverclose", "resume-then-serverclose", "resume-then-serverclose"}).Draw(t, "end")}
		if rapid.Bool().Draw(t, "bigbuf") {
			c.BufSize = rapid.SampledFrom([]int{32768, 65536}).Draw(t, "bufsize")
			c.Size = rapid.SampledFrom([]int{4096, 9000, 20000}).Draw(t, "bigsize")
		}
		c.Transport = genTransport(t)
		f, incon, cls := runIB(c)
		if incon != "" {
			rec.Inconclusive()
			rec.Class("inconclusive: "+incon, 1)
		}
		rec.Case(c, incon == "" && len(cls) > 0, cls...)
		if f != "" {
			p := rec.Violation("-", "fault", f, c, nil)
			t.Fatalf("VIOLATION %s replay=%s", f, p)
		}
	})
}
