package p_broker

import (
	"bytes"
	"encoding/json"
	"fmt"
	"sync"
	"testing"

	"pgregory.net/rapid"
	"verifharness/ev"
	"verifharness/fix"
	"verifharness/ref/codec"
	"verifharness/wire"
)

// C01, unit "unacked-resume": a subscriber with a persistent session leaves
// deliveries unacknowledged (no PUBACK / no PUBREC / PUBREC but no PUBCOMP for a
// generated subset), loses or ends its connection, and comes back with
// CleanSession=0, 1-3 times. What the broker still remembers about the
// unacknowledged deliveries (identifiers in flight in the session) must not
// cost the subscriber any message accepted after it is back: every message
// published while it is connected reaches it exactly once per cut, with its
// own topic and payload, at min(publish QoS, granted QoS). A retransmission of
// a message of an earlier connection that was left unacknowledged is allowed
// (MQTT 4.4), any other PUBLISH is not.

type URPhase struct {
	PQ    []byte `json:"pq"`    // publish QoS of each message of this connection
	Ack   []int  `json:"ack"`   // per message: 0 = no acknowledgement at all, 1 = first step only (PUBREC without PUBCOMP; for QoS 1 the same as 0), 2 = complete
	End   string `json:"end"`   // close | disconnect
	Resub byte   `json:"resub"` // after the resume: 0 = nothing, 1 = SUBSCRIBE the filter again at the same QoS, 2 = at the other QoS (1 <-> 2)
	Size  []int  `json:"size,omitempty"`
}

type URCase struct {
	Transport
	BufSize int       `json:"bufsize"`
	Filter  string    `json:"filter"`
	Topic   string    `json:"topic"`
	SubQoS  byte      `json:"subqos"`
	Phases  []URPhase `json:"phases"`
	Own     bool      `json:"own,omitempty"` // the subscriber publishes the messages itself (its own deliveries and acknowledgements share one connection)
}

func runUR(c URCase) (fail, incon string, classes []string) {
	b, err := fix.New(int64(c.BufSize), "")
	if err != nil {
		return "", "fixture: " + err.Error(), nil
	}
	c.Transport.apply(b)
	defer b.Shutdown()
	P := b.Dial("P")
	if _, err := P.Connect(wire.ConnectPacket("ur-p", true, 300)); err != nil {
		return "", "connect: " + err.Error(), nil
	}
	granted := c.SubQoS
	minq := func(a, b byte) byte {
		if a < b {
			return a
		}
		return b
	}
	type rxm struct {
		no  int
		p   *codec.Packet
		old bool
	}
	var mu sync.Mutex
	var got []rxm
	mode := map[int]int{}        // message number -> acknowledgement mode
	payloads := map[int][]byte{} // every message published so far
	unacked := map[int]bool{}    // messages of earlier connections that were left without a complete acknowledgement
	msgno := 0
	pid := uint16(0)
	var S *fix.Conn
	for pi, ph := range c.Phases {
		where := fmt.Sprintf("connection %d of the subscriber", pi+1)
		S = b.Dial(fmt.Sprintf("S%d", pi))
		S.AutoAck = false
		cn := S
		S.OnPacket = func(pk *codec.Packet, off int64) bool {
			switch pk.Type {
			case codec.PUBLISH:
				no := -1
				if len(pk.Payload) >= 4 {
					no = int(pk.Payload[0])<<24 | int(pk.Payload[1])<<16 | int(pk.Payload[2])<<8 | int(pk.Payload[3])
				}
				mu.Lock()
				got = append(got, rxm{no: no, p: pk})
				m, known := mode[no]
				mu.Unlock()
				if !known {
					m = 2
				}
				switch {
				case pk.QoS == 1 && m == 2:
					cn.SendAsync(codec.Encode(&codec.Packet{Type: codec.PUBACK, PacketID: pk.PacketID}))
				case pk.QoS == 2 && m >= 1:
					cn.SendAsync(codec.Encode(&codec.Packet{Type: codec.PUBREC, PacketID: pk.PacketID}))
				}
				return true
			case codec.PUBREL:
				// complete the exchange unless the message it belongs to is one whose PUBCOMP is withheld:
				// the identifier tells (the last PUBLISH received with it)
				mu.Lock()
				m := 2
				for i := len(got) - 1; i >= 0; i-- {
					if got[i].p.PacketID == pk.PacketID && got[i].p.QoS == 2 {
						if mm, ok := mode[got[i].no]; ok {
							m = mm
						}
						break
					}
				}
				mu.Unlock()
				if m == 2 {
					cn.SendAsync(codec.Encode(&codec.Packet{Type: codec.PUBCOMP, PacketID: pk.PacketID}))
				}
				return true
			}
			return false
		}
		ack, err := S.Connect(wire.ConnectPacket("ur-s", false, 300))
		if err != nil || ack.ReturnCode != 0 {
			return fmt.Sprintf("%s: CONNECT (CleanSession=0) not accepted: %v %v", where, ack, err), "", classes
		}
		if ack.SessionPresent != (pi > 0) {
			return fmt.Sprintf("%s: SessionPresent=%v", where, ack.SessionPresent), "", classes
		}
		if pi == 0 || ph.Resub > 0 {
			if pi > 0 && ph.Resub == 2 && granted > 0 {
				granted = 3 - granted
			}
			pid++
			id := pid
			S.Send(&codec.Packet{Type: codec.SUBSCRIBE, PacketID: id, Topics: [][]byte{[]byte(c.Filter)}, QoSs: []byte{granted}})
			if a, err := S.Take(func(p *codec.Packet) bool { return p.Type == codec.SUBACK && p.PacketID == id }, wire.DefaultWait); err != nil || len(a.ReturnCodes) != 1 || a.ReturnCodes[0] != granted {
				return fmt.Sprintf("%s: SUBSCRIBE %q at QoS %d answered by %v (%v)", where, c.Filter, granted, a, err), "", classes
			}
			if pi > 0 {
				classes = append(classes, "subscribed-again-after-the-resume")
			}
		}
		if _, err := S.Barrier(); err != nil {
			return fmt.Sprintf("%s: barrier: %v (stream %v)", where, err, S.StreamErr()), "", classes
		}
		pub := P
		if c.Own {
			pub = S
		}
		for mi, pq := range ph.PQ {
			msgno++
			no := msgno
			size := 8
			if mi < len(ph.Size) && ph.Size[mi] > 8 {
				size = ph.Size[mi]
			}
			pl := payload(no, size)
			mu.Lock()
			mode[no] = ph.Ack[mi]
			payloads[no] = pl
			mark := len(got)
			mu.Unlock()
			pp := &codec.Packet{Type: codec.PUBLISH, Topic: []byte(c.Topic), QoS: pq, Payload: pl}
			if pq > 0 {
				pid++
				if pid == 0 {
					pid = 1
				}
				pp.PacketID = pid
			}
			pub.Send(pp)
			switch pq {
			case 1:
				if _, err := pub.Take(func(p *codec.Packet) bool { return p.Type == codec.PUBACK && p.PacketID == pp.PacketID }, wire.DefaultWait); err != nil {
					return fmt.Sprintf("%s, message %d: the publisher got no PUBACK: %v", where, no, err), "", classes
				}
			case 2:
				if _, err := pub.Take(func(p *codec.Packet) bool { return p.Type == codec.PUBREC && p.PacketID == pp.PacketID }, wire.DefaultWait); err != nil {
					return fmt.Sprintf("%s, message %d: the publisher got no PUBREC: %v", where, no, err), "", classes
				}
				pub.Send(&codec.Packet{Type: codec.PUBREL, PacketID: pp.PacketID})
				if _, err := pub.Take(func(p *codec.Packet) bool { return p.Type == codec.PUBCOMP && p.PacketID == pp.PacketID }, wire.DefaultWait); err != nil {
					return fmt.Sprintf("%s, message %d: the publisher got no PUBCOMP: %v", where, no, err), "", classes
				}
			}
			if _, err := pub.Barrier(); err != nil {
				return fmt.Sprintf("%s, message %d: publisher barrier: %v (stream %v)", where, no, err, pub.StreamErr()), "", classes
			}
			if _, err := S.Barrier(); err != nil {
				return fmt.Sprintf("%s, message %d: subscriber barrier: %v (stream %v)", where, no, err, S.StreamErr()), "", classes
			}
			mu.Lock()
			n := 0
			var desc string
			for _, g := range got[mark:] {
				switch {
				case g.no == no:
					n++
					if string(g.p.Topic) != c.Topic || !bytes.Equal(g.p.Payload, pl) || g.p.QoS != minq(pq, granted) {
						desc = fmt.Sprintf("message %d arrived with topic %q, %d payload bytes, QoS %d; published: topic %q, %d bytes, QoS %d, subscription granted QoS %d", no, g.p.Topic, len(g.p.Payload), g.p.QoS, c.Topic, len(pl), pq, granted)
					}
				case unacked[g.no] && bytes.Equal(g.p.Payload, payloads[g.no]):
					classes = append(classes, "retransmission-of-an-unacknowledged-message")
				default:
					desc = fmt.Sprintf("a PUBLISH arrived (topic %q, %d bytes, first bytes say message %d) that is neither the message just published nor an unacknowledged one of an earlier connection", g.p.Topic, len(g.p.Payload), g.no)
				}
			}
			nun := len(unacked)
			mu.Unlock()
			if desc == "" && n != 1 {
				desc = fmt.Sprintf("message %d (topic %q, QoS %d) reached the subscriber (filter %q, granted QoS %d) %d times, expected once", no, c.Topic, pq, c.Filter, granted, n)
			}
			if desc != "" {
				return fmt.Sprintf("%s (%d deliveries of earlier connections were left unacknowledged): %s", where, nun, desc), "", classes
			}
			if nun > 0 {
				classes = append(classes, "delivery-after-a-resume-with-unacknowledged-deliveries")
			}
		}
		// the connection ends; whatever this connection left without a complete acknowledgement may come again
		mu.Lock()
		for mi := range ph.PQ {
			no := msgno - len(ph.PQ) + 1 + mi
			if ph.Ack[mi] < 2 && minq(ph.PQ[mi], granted) > 0 {
				unacked[no] = true
			}
		}
		mu.Unlock()
		if pi == len(c.Phases)-1 {
			break
		}
		if ph.End == "disconnect" {
			S.Send(&codec.Packet{Type: codec.DISCONNECT})
		} else {
			S.Close()
		}
		if !S.WaitTeardown(wire.DefaultWait) {
			return "", "teardown of the subscriber's connection did not finish", classes
		}
		S.Close()
	}
	for _, x := range b.Escaped() {
		return x, "", classes
	}
	return "", "", classes
}

func genUR(t *rapid.T) URCase {
	ft := rapid.SampledFrom([]struct{ f, t string }{{"ur/a", "ur/a"}, {"ur/+", "ur/x"}, {"ur/#", "ur/y/z"}, {"#", "ur/q"}}).Draw(t, "ft")
	c := URCase{BufSize: rapid.SampledFrom([]int{16384, 32768}).Draw(t, "bufsize"), Filter: ft.f, Topic: ft.t,
		SubQoS: byte(rapid.IntRange(1, 2).Draw(t, "subqos")), Own: rapid.IntRange(0, 4).Draw(t, "own") == 0}
	for i, n := 0, rapid.IntRange(2, 4).Draw(t, "phases"); i < n; i++ {
		ph := URPhase{End: rapid.SampledFrom([]string{"close", "disconnect"}).Draw(t, "end"), Resub: byte(rapid.IntRange(0, 2).Draw(t, "resub"))}
		m := rapid.IntRange(1, 12).Draw(t, "msgs")
		if rapid.IntRange(0, 5).Draw(t, "many") == 0 {
			m = rapid.IntRange(17, 40).Draw(t, "msgsmany")
		}
		lazy := rapid.IntRange(0, 2).Draw(t, "lazy") // 0: acknowledges most, 1: half, 2: hardly anything
		for j := 0; j < m; j++ {
			ph.PQ = append(ph.PQ, byte(rapid.IntRange(0, 2).Draw(t, "pq")))
			a := 2
			switch lazy {
			case 0:
				if rapid.IntRange(0, 4).Draw(t, "a") == 0 {
					a = rapid.IntRange(0, 1).Draw(t, "am")
				}
			case 1:
				a = rapid.IntRange(0, 2).Draw(t, "a")
			default:
				if rapid.IntRange(0, 4).Draw(t, "a") > 0 {
					a = rapid.IntRange(0, 1).Draw(t, "am")
				}
			}
			ph.Ack = append(ph.Ack, a)
			ph.Size = append(ph.Size, rapid.SampledFrom([]int{8, 8, 40, 700}).Draw(t, "size"))
		}
		c.Phases = append(c.Phases, ph)
	}
	c.Transport = genTransport(t)
	return c
}

func TestC01Resume(t *testing.T) {
	rec := ev.New("C01", "unacked-resume")
	defer rec.Flush()
	if rp := ev.LoadReplay(t, "unacked-resume"); rp != nil {
		var c URCase
		json.Unmarshal(rp.Case, &c)
		for i := 0; i < 3; i++ {
			if f, _, _ := runUR(c); f != "" {
				p := rec.Violation("-", "plan", f, c, nil)
				rec.Flush()
				t.Fatalf("VIOLATION %s replay=%s", f, p)
			}
		}
		return
	} else if ev.Replaying() {
		t.Skip()
	}
	rapid.Check(t, func(t *rapid.T) {
		c := genUR(t)
		f, incon, cls := runUR(c)
		if incon != "" {
			rec.Inconclusive()
			rec.Class("inconclusive: "+incon, 1)
		}
		nt := false
		seen := map[string]bool{}
		var ucls []string
		for _, k := range cls {
			if !seen[k] {
				seen[k] = true
				ucls = append(ucls, k)
			}
			nt = nt || k == "delivery-after-a-resume-with-unacknowledged-deliveries"
		}
		rec.Case(c, incon == "" && nt, ucls...)
		if f != "" {
			p := rec.Violation("-", "plan", f, c, nil)
			t.Fatalf("VIOLATION %s replay=%s", f, p)
		}
	})
}
