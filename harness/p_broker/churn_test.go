package p_broker

import (
	"encoding/json"
	"fmt"
	"sync"
	"sync/atomic"
	"testing"
	"time"

	"github.com/mdzio/go-mqtt/message"
	"github.com/mdzio/go-mqtt/service"
	"pgregory.net/rapid"
	"verifharness/ev"
	"verifharness/fix"
	"verifharness/ref/codec"
	"verifharness/wire"
)

// Unit "fanout-churn" (C01 and C07): the subscriptions change while a
// message is being fanned out. 3-6 subscribers hold filters that match one
// topic (mostly the very same filter, so that they share a node of the
// subscription tree). The publisher's processor is held right after it has
// handed the message to the ParkAt-th subscriber it serves (yield
// publish.after-write, or before it: writeMessage.enter); while it is held,
// other subscribers unsubscribe, change their QoS, drop their connection, and
// new ones subscribe - each step acknowledged before the next. Then the
// fan-out goes on.
//
// Verdict: a subscriber whose acknowledged subscription was not touched
// receives the message exactly once at min(publish QoS, granted QoS),
// whatever the others did; a subscriber that changed something during the
// fan-out receives it at most once (either outcome is "at that moment");
// a marker message published afterwards reaches exactly the holders of the
// final subscriptions. Only observed orders are used: the churn steps are
// acknowledged while the publisher's processor is provably parked.

var churnFilters = []string{"t/x", "t/x", "t/x", "t/+", "t/#", "#", "+/x"}

type ChurnSub struct {
	Filter int  `json:"filter"` // index into churnFilters
	QoS    byte `json:"qos"`
}

type ChurnStep struct {
	K   string    `json:"k"`             // unsub | requalify | close | newsub | iunsub
	S   int       `json:"s"`             // subscriber index (unsub requalify close)
	Sub *ChurnSub `json:"sub,omitempty"` // newsub / requalify: filter and QoS
}

type ChurnCase struct {
	Transport
	Subs   []ChurnSub  `json:"subs"`
	Inproc *ChurnSub   `json:"inproc,omitempty"` // an in-process subscriber (Server.Subscribe) among them
	PubQoS byte        `json:"pubqos"`
	Size   int         `json:"size"`
	ParkAt int         `json:"park_at"` // the fan-out is held at the ParkAt-th delivery
	Before bool        `json:"before"`  // held before (writeMessage.enter) instead of after that delivery
	Steps  []ChurnStep `json:"steps"`
	ViaAPI bool        `json:"via_api,omitempty"` // the message is published through Server.Publish
}

func runChurn(c ChurnCase) (fail, incon string, classes []string) {
	b, err := fix.New(16384, "")
	if err != nil {
		return "", "fixture: " + err.Error(), nil
	}
	c.Transport.apply(b)
	defer b.Shutdown()
	defer fix.SetYield(nil)
	const topic = "t/x"
	P := b.Dial("P")
	if _, err := P.Connect(wire.ConnectPacket("p", true, 300)); err != nil {
		return "", "connect: " + err.Error(), nil
	}
	type sub struct {
		cn      *fix.Conn
		filter  string
		qos     byte
		touched bool // changed something while the fan-out was held
		gone    bool // connection dropped / unsubscribed in the end
		late    bool // subscribed while the fan-out was held
	}
	var subs []*sub
	ids := map[uint64]bool{}
	dial := func(name string, s ChurnSub) (*sub, string) {
		cn := b.Dial(name)
		if _, err := cn.Connect(wire.ConnectPacket(name, true, 300)); err != nil {
			return nil, "connect: " + err.Error()
		}
		f := churnFilters[s.Filter%len(churnFilters)]
		cn.Send(&codec.Packet{Type: codec.SUBSCRIBE, PacketID: 1, Topics: [][]byte{[]byte(f)}, QoSs: []byte{s.QoS}})
		if _, err := cn.Take(func(p *codec.Packet) bool { return p.Type == codec.SUBACK && p.PacketID == 1 }, wire.DefaultWait); err != nil {
			return nil, fmt.Sprintf("no SUBACK for %q: %v", f, err)
		}
		return &sub{cn: cn, filter: f, qos: s.QoS}, ""
	}
	for i, s := range c.Subs {
		sb, e := dial(fmt.Sprintf("s%d", i), s)
		if e != "" {
			return "", e, nil
		}
		subs = append(subs, sb)
		ids[sb.cn.ID()] = true
	}
	// the in-process subscriber
	ip := newChurnInproc()
	ipHeld := false
	if c.Inproc != nil {
		f := churnFilters[c.Inproc.Filter%len(churnFilters)]
		if err := b.Srv.Subscribe(f, c.Inproc.QoS, &ip.fn); err != nil {
			return "", "Server.Subscribe: " + err.Error(), nil
		}
		ipHeld = true
		classes = append(classes, "in-process-subscriber")
	}

	var armed, trapped atomic.Bool
	var served atomic.Int32
	release := make(chan struct{})
	point := "publish.after-write"
	if c.Before {
		point = "writeMessage.enter"
	}
	fix.SetYield(func(pt string, obj interface{}) {
		if pt != point || !armed.Load() {
			return
		}
		if id, ok := obj.(uint64); ok && ids[id] {
			if int(served.Add(1))-1 == c.ParkAt && trapped.CompareAndSwap(false, true) {
				<-release
			}
		}
	})
	released := false
	rel := func() {
		if !released {
			released = true
			armed.Store(false)
			close(release)
		}
	}
	defer rel()

	pl1 := payload(1, c.Size)
	armed.Store(true)
	pubDone := make(chan error, 1)
	if c.ViaAPI {
		classes = append(classes, "published-through-Server.Publish")
		go func() { pubDone <- serverPublish(b, topic, pl1, c.PubQoS) }()
	} else {
		P.Send(&codec.Packet{Type: codec.PUBLISH, QoS: c.PubQoS, PacketID: 11, Topic: []byte(topic), Payload: pl1})
	}
	for i := 0; i < 12000 && !trapped.Load(); i++ {
		time.Sleep(250 * time.Microsecond)
	}
	if !trapped.Load() {
		rel()
		return "", "the fan-out did not reach the delivery it was to be held at", classes
	}
	classes = append(classes, "fan-out-held")
	// churn while the fan-out is held; every step is acknowledged before the next
	for si, st := range c.Steps {
		var s *sub
		if st.K != "newsub" && st.K != "iunsub" {
			s = subs[st.S%len(c.Subs)]
			if s.gone {
				continue
			}
		}
		switch st.K {
		case "unsub":
			s.cn.Send(&codec.Packet{Type: codec.UNSUBSCRIBE, PacketID: uint16(100 + si), Topics: [][]byte{[]byte(s.filter)}})
			if _, err := s.cn.Take(func(p *codec.Packet) bool { return p.Type == codec.UNSUBACK && p.PacketID == uint16(100+si) }, wire.DefaultWait); err != nil {
				rel()
				return "", fmt.Sprintf("no UNSUBACK while the fan-out was held: %v", err), classes
			}
			s.touched, s.gone = true, true
			classes = append(classes, "unsubscribe-during-fan-out")
		case "requalify":
			s.cn.Send(&codec.Packet{Type: codec.SUBSCRIBE, PacketID: uint16(100 + si), Topics: [][]byte{[]byte(s.filter)}, QoSs: []byte{st.Sub.QoS}})
			if _, err := s.cn.Take(func(p *codec.Packet) bool { return p.Type == codec.SUBACK && p.PacketID == uint16(100+si) }, wire.DefaultWait); err != nil {
				rel()
				return "", fmt.Sprintf("no SUBACK while the fan-out was held: %v", err), classes
			}
			s.touched = true
			s.qos = st.Sub.QoS
			classes = append(classes, "QoS-change-during-fan-out")
		case "close":
			s.cn.Close()
			if !s.cn.WaitTeardown(wire.DefaultWait) {
				rel()
				return "", "a subscriber's teardown did not finish while the fan-out was held", classes
			}
			s.touched, s.gone = true, true
			classes = append(classes, "subscriber-dropped-during-fan-out")
		case "newsub":
			nb, e := dial(fmt.Sprintf("n%d", si), *st.Sub)
			if e != "" {
				rel()
				return "", e, classes
			}
			nb.touched, nb.late = true, true
			subs = append(subs, nb)
			classes = append(classes, "new-subscriber-during-fan-out")
		case "iunsub":
			if ipHeld {
				b.Srv.Unsubscribe(churnFilters[c.Inproc.Filter%len(churnFilters)], &ip.fn)
				ipHeld = false
				ip.touched = true
				classes = append(classes, "in-process-unsubscribe-during-fan-out")
			}
		}
	}
	rel()
	// cut: the publisher first, then every subscriber
	if c.ViaAPI {
		select {
		case err := <-pubDone:
			if err != nil {
				return fmt.Sprintf("Server.Publish returned %v", err), "", classes
			}
		case <-time.After(wire.DefaultWait):
			return "", "Server.Publish did not return", classes
		}
	} else if _, err := P.Barrier(); err != nil {
		return fmt.Sprintf("the publisher's connection broke: %v", err), "", classes
	}
	pl2 := payload(2, 20)
	P.Send(&codec.Packet{Type: codec.PUBLISH, QoS: 1, PacketID: 12, Topic: []byte(topic), Payload: pl2})
	if _, err := P.Barrier(); err != nil {
		return fmt.Sprintf("the publisher's connection broke: %v", err), "", classes
	}
	minq := func(a, b byte) byte {
		if a < b {
			return a
		}
		return b
	}
	judge := func(name string, got []delivery, held, touched, late bool, q byte, filter string) string {
		var q1, q2 []byte
		for _, d := range got {
			switch {
			case d.topic == topic && string(d.payload) == string(pl1):
				q1 = append(q1, d.qos)
			case d.topic == topic && string(d.payload) == string(pl2):
				q2 = append(q2, d.qos)
			default:
				return fmt.Sprintf("%s received a PUBLISH (topic %q, %d bytes) that is neither of the two messages published", name, d.topic, len(d.payload))
			}
		}
		switch {
		case !touched:
			if len(q1) != 1 || q1[0] != minq(c.PubQoS, q) {
				return fmt.Sprintf("%s holds the acknowledged subscription %q (QoS %d) and did nothing while the message (QoS %d) was being fanned out; it received %d copies at QoS %v, expected one at QoS %d (%d other subscribers changed their subscriptions meanwhile)", name, filter, q, c.PubQoS, len(q1), q1, minq(c.PubQoS, q), len(c.Steps))
			}
		default:
			if len(q1) > 1 {
				return fmt.Sprintf("%s (subscription %q changed during the fan-out) received the message %d times", name, filter, len(q1))
			}
		}
		want := 0
		if held {
			want = 1
		}
		if len(q2) != want || (want == 1 && q2[0] != minq(1, q)) {
			return fmt.Sprintf("after the fan-out: %s (subscription %q, QoS %d, held at the end: %v) received the marker message %d times at QoS %v, expected %d", name, filter, q, held, len(q2), q2, want)
		}
		return ""
	}
	for i, s := range subs {
		name := fmt.Sprintf("subscriber %d", i)
		if s.late {
			name = fmt.Sprintf("late subscriber %d", i)
		}
		if s.gone && s.cn.PeerClosed() {
			continue
		}
		rx, err := s.cn.Barrier()
		if err != nil {
			if s.gone {
				continue
			}
			return fmt.Sprintf("%s: connection broke: %v", name, err), "", classes
		}
		pubs, _ := pubsOf(rx)
		var got []delivery
		for _, p := range pubs {
			got = append(got, delivery{string(p.Topic), p.Payload, p.QoS, p.Retain, p.Dup})
		}
		if f := judge(name, got, !s.gone, s.touched, s.late, s.qos, s.filter); f != "" {
			return f, "", classes
		}
	}
	if c.Inproc != nil {
		if f := judge("the in-process subscriber", ip.take(), ipHeld, ip.touched, false, c.Inproc.QoS, churnFilters[c.Inproc.Filter%len(churnFilters)]); f != "" {
			return f, "", classes
		}
	}
	for _, x := range b.Escaped() {
		return x, "", classes
	}
	return "", "", classes
}

type churnInproc struct {
	mu      sync.Mutex
	fn      service.OnPublishFunc
	got     []delivery
	touched bool
}

func newChurnInproc() *churnInproc {
	ip := &churnInproc{}
	ip.fn = func(m *message.PublishMessage) error {
		ip.mu.Lock()
		ip.got = append(ip.got, delivery{string(m.Topic()), append([]byte(nil), m.Payload()...), m.QoS(), m.Retain(), m.Dup()})
		ip.mu.Unlock()
		return nil
	}
	return ip
}

func (ip *churnInproc) take() []delivery {
	ip.mu.Lock()
	defer ip.mu.Unlock()
	g := ip.got
	ip.got = nil
	return g
}

func serverPublish(b *fix.Broker, topic string, pl []byte, q byte) error {
	m := message.NewPublishMessage()
	m.SetTopic([]byte(topic))
	m.SetPayload(append([]byte(nil), pl...))
	m.SetQoS(q)
	return b.Srv.Publish(m)
}

func serverPublishRetained(b *fix.Broker, topic string, pl []byte, q byte) error {
	m := message.NewPublishMessage()
	m.SetTopic([]byte(topic))
	m.SetPayload(append([]byte(nil), pl...))
	m.SetQoS(q)
	m.SetRetain(true)
	return b.Srv.Publish(m)
}

func genChurn(t *rapid.T) ChurnCase {
	c := ChurnCase{PubQoS: byte(rapid.IntRange(0, 2).Draw(t, "pubqos")), Size: rapid.SampledFrom([]int{8, 8, 100, 3000}).Draw(t, "size"),
		Before: rapid.Bool().Draw(t, "before"), ViaAPI: rapid.IntRange(0, 4).Draw(t, "viaapi") == 0}
	genSub := func() ChurnSub {
		return ChurnSub{Filter: rapid.IntRange(0, len(churnFilters)-1).Draw(t, "filter"), QoS: byte(rapid.IntRange(0, 2).Draw(t, "sq"))}
	}
	n := rapid.IntRange(3, 6).Draw(t, "nsubs")
	same := rapid.IntRange(0, 2).Draw(t, "samefilter") > 0
	for i := 0; i < n; i++ {
		s := genSub()
		if same {
			s.Filter = 0
		}
		c.Subs = append(c.Subs, s)
	}
	if rapid.IntRange(0, 3).Draw(t, "inproc") == 0 {
		s := genSub()
		if same {
			s.Filter = 0
		}
		c.Inproc = &s
	}
	c.ParkAt = rapid.IntRange(0, n-1).Draw(t, "parkat")
	ns := rapid.IntRange(1, 4).Draw(t, "nsteps")
	for i := 0; i < ns; i++ {
		st := ChurnStep{K: rapid.SampledFrom([]string{"unsub", "unsub", "unsub", "close", "requalify", "newsub", "iunsub"}).Draw(t, "k"), S: rapid.IntRange(0, n-1).Draw(t, "s")}
		if st.K == "newsub" || st.K == "requalify" {
			s := genSub()
			if same {
				s.Filter = 0
			}
			st.Sub = &s
		}
		c.Steps = append(c.Steps, st)
	}
	c.Transport = genTransport(t)
	if c.PubQoS == 2 && !c.ViaAPI {
		c.PubQoS = 1 // a QoS 2 message is handed on at PUBREL only; one exchange more adds nothing here
	}
	return c
}

func testChurn(t *testing.T, prop string) {
	rec := ev.New(prop, "fanout-churn")
	defer rec.Flush()
	if rp := ev.LoadReplay(t, "fanout-churn"); rp != nil {
		var c ChurnCase
		json.Unmarshal(rp.Case, &c)
		for i := 0; i < 5; i++ {
			if f, _, _ := runChurn(c); f != "" {
				p := rec.Violation("-", "schedule", f, c, nil)
				rec.Flush()
				t.Fatalf("VIOLATION %s replay=%s", f, p)
			}
		}
		return
	} else if ev.Replaying() {
		t.Skip()
	}
	rapid.Check(t, func(t *rapid.T) {
		c := genChurn(t)
		f, incon, cls := runChurn(c)
		if incon != "" {
			rec.Inconclusive()
			rec.Class("inconclusive: "+incon, 1)
		}
		rec.Case(c, incon == "" && len(c.Steps) >= 1, cls...)
		if f != "" {
			p := rec.Violation("-", "schedule", f, c, nil)
			t.Fatalf("VIOLATION %s replay=%s", f, p)
		}
	})
}

func TestC01Churn(t *testing.T) { testChurn(t, "C01") }
func TestC07Churn(t *testing.T) { testChurn(t, "C07") }
