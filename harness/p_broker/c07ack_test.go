package p_broker

import (
	"encoding/json"
	"fmt"
	"sync"
	"sync/atomic"
	"testing"
	"time"

	"pgregory.net/rapid"
	"verifharness/ev"
	"verifharness/fix"
	"verifharness/ref/codec"
	"verifharness/wire"
)

// C07, unit "ack-timing": the acknowledgement is the moment a request takes
// effect. The subscriber's processor is held inside one of the calls it makes
// into the subscription store while it handles a SUBSCRIBE / UNSUBSCRIBE
// packet (the schedule is the harness's, through the provider gate). If the
// client has the acknowledgement in its hands at that point, a message another
// client publishes now - accepted by the broker after the acknowledgement was
// sent - must (SUBACK) / must not (UNSUBACK) reach it. Whatever happened in
// the window, after the acknowledgement the request is in force.

var ackVocab = []struct{ filter, topic string }{
	{"u/a", "u/a"}, {"u/b", "u/b"}, {"v/+", "v/q"}, {"w/#", "w/r/s"}, {"x/y/z", "x/y/z"}, {"+/solo", "t/solo"},
}

type C07AckCase struct {
	Kind    string `json:"kind"`    // sub | unsub
	Filters []int  `json:"filters"` // indexes into ackVocab, distinct
	GateAt  int    `json:"gate_at"` // the processor is held in its GateAt-th store call for the request
	Phase   string `json:"phase"`   // before | after that call
	Aim     int    `json:"aim"`     // the publishes go to the topic of Filters[Aim]
	PubQoS  byte   `json:"pubqos"`
}

func runC07Ack(c C07AckCase) (fail, incon string, classes []string) {
	b, err := fix.New(16384, "")
	if err != nil {
		return "fixture: " + err.Error(), "", nil
	}
	defer b.Shutdown()
	defer b.SetGate(nil)
	S, P := b.Dial("S"), b.Dial("P")
	if _, err := S.Connect(wire.ConnectPacket("s", true, 300)); err != nil {
		return "connect: " + err.Error(), "", nil
	}
	if _, err := P.Connect(wire.ConnectPacket("p", true, 300)); err != nil {
		return "connect: " + err.Error(), "", nil
	}
	var filters [][]byte
	var qoss []byte
	for _, f := range c.Filters {
		filters = append(filters, []byte(ackVocab[f].filter))
		qoss = append(qoss, 1)
	}
	topic := ackVocab[c.Filters[c.Aim%len(c.Filters)]].topic
	msgno := 0
	publish := func() (string, error) {
		msgno++
		pl := fmt.Sprintf("m%d", msgno)
		P.Send(&codec.Packet{Type: codec.PUBLISH, QoS: c.PubQoS, PacketID: uint16(msgno), Topic: []byte(topic), Payload: []byte(pl)})
		_, err := P.Barrier() // QoS 1: the PUBACK precedes the PINGRESP; QoS 0: the packet was handled
		return pl, err
	}
	copies := func(rx []wire.Rx, pl string) int {
		n := 0
		for _, r := range rx {
			if r.P.Type == codec.PUBLISH && string(r.P.Payload) == pl {
				n++
			}
		}
		return n
	}
	method, ackType, ackName := "Subscribe", byte(codec.SUBACK), "SUBACK"
	if c.Kind == "unsub" {
		method, ackType, ackName = "Unsubscribe", byte(codec.UNSUBACK), "UNSUBACK"
		S.Send(&codec.Packet{Type: codec.SUBSCRIBE, PacketID: 1, Topics: filters, QoSs: qoss})
		if _, err := S.Barrier(); err != nil {
			return "subscriber barrier: " + err.Error(), "", nil
		}
		pl, err := publish()
		if err != nil {
			return "publisher barrier: " + err.Error(), "", nil
		}
		rx, err := S.Barrier()
		if err != nil {
			return "subscriber barrier: " + err.Error(), "", nil
		}
		if copies(rx, pl) != 1 {
			return fmt.Sprintf("before the UNSUBSCRIBE: %d copies of a message on %q delivered for the held filters %q", copies(rx, pl), topic, filters), "", nil
		}
	}
	var calls atomic.Int32
	var once sync.Once
	reached, release := make(chan struct{}), make(chan struct{})
	b.SetGate(func(m, phase, tp string) {
		if m != method || phase != c.Phase {
			return
		}
		if int(calls.Add(1))-1 == c.GateAt%len(c.Filters) {
			once.Do(func() { close(reached) })
			<-release
		}
	})
	req := &codec.Packet{Type: codec.SUBSCRIBE, PacketID: 7, Topics: filters, QoSs: qoss}
	if c.Kind == "unsub" {
		req = &codec.Packet{Type: codec.UNSUBSCRIBE, PacketID: 7, Topics: filters}
	}
	S.Send(req)
	select {
	case <-reached:
	case <-time.After(3 * time.Second):
		close(release)
		return "", "the processor did not reach the store call", nil
	}
	isAck := func(p *codec.Packet) bool { return p.Type == ackType && p.PacketID == 7 }
	_, aerr := S.Take(isAck, 8*time.Millisecond)
	ackSeen := aerr == nil
	if ackSeen {
		classes = append(classes, "ack-in-hand-while-request-in-progress")
	}
	pl1, err := publish()
	close(release)
	if err != nil {
		return "publisher barrier (publish inside the window): " + err.Error(), "", classes
	}
	classes = append(classes, "publish-inside-window")
	if !ackSeen {
		if _, err := S.Take(isAck, wire.DefaultWait); err != nil {
			return fmt.Sprintf("no %s for the request: %v", ackName, err), "", classes
		}
	}
	rx, err := S.Barrier()
	if err != nil {
		return "subscriber barrier: " + err.Error(), "", classes
	}
	n1 := copies(rx, pl1)
	if ackSeen {
		// the client held the acknowledgement before the publish was even sent
		if c.Kind == "unsub" && n1 != 0 {
			return fmt.Sprintf("the client had received the UNSUBACK for %q; a message published afterwards on %q (QoS %d, accepted by the broker) was still delivered to it (%d copies): the UNSUBACK was sent before the subscriptions were removed", filters, topic, c.PubQoS, n1), "", classes
		}
		if c.Kind == "sub" && n1 != 1 {
			return fmt.Sprintf("the client had received the SUBACK for %q; a message published afterwards on %q (QoS %d, accepted by the broker) was delivered %d times, expected once: the SUBACK was sent before the subscriptions were in place", filters, topic, c.PubQoS, n1), "", classes
		}
	} else if n1 > 1 {
		return fmt.Sprintf("a message published while the request was in progress was delivered %d times", n1), "", classes
	}
	// after the acknowledgement the request is in force
	pl2, err := publish()
	if err != nil {
		return "publisher barrier: " + err.Error(), "", classes
	}
	rx, err = S.Barrier()
	if err != nil {
		return "subscriber barrier: " + err.Error(), "", classes
	}
	want := 1
	if c.Kind == "unsub" {
		want = 0
	}
	if n := copies(rx, pl2); n != want {
		return fmt.Sprintf("after the %s for %q a message on %q was delivered %d times, expected %d", ackName, filters, topic, n, want), "", classes
	}
	for _, x := range b.Escaped() {
		return x, "", classes
	}
	return "", "", classes
}

func genC07Ack(t *rapid.T) C07AckCase {
	c := C07AckCase{Kind: rapid.SampledFrom([]string{"unsub", "unsub", "sub"}).Draw(t, "kind"), Phase: rapid.SampledFrom([]string{"before", "after"}).Draw(t, "phase"), PubQoS: byte(rapid.IntRange(0, 1).Draw(t, "pubqos"))}
	perm := rapid.Permutation([]int{0, 1, 2, 3, 4, 5}).Draw(t, "perm")
	c.Filters = perm[:rapid.IntRange(1, 4).Draw(t, "nfilters")]
	c.GateAt = rapid.IntRange(0, len(c.Filters)-1).Draw(t, "gate")
	c.Aim = rapid.IntRange(0, len(c.Filters)-1).Draw(t, "aim")
	return c
}

func TestC07Ack(t *testing.T) {
	rec := ev.New("C07", "ack-timing")
	defer rec.Flush()
	if rp := ev.LoadReplay(t, "ack-timing"); rp != nil {
		var c C07AckCase
		json.Unmarshal(rp.Case, &c)
		for i := 0; i < 3; i++ {
			if f, _, _ := runC07Ack(c); f != "" {
				p := rec.Violation("-", "schedule", f, c, nil)
				rec.Flush()
				t.Fatalf("VIOLATION %s replay=%s", f, p)
			}
		}
		return
	} else if ev.Replaying() {
		t.Skip()
	}
	rapid.Check(t, func(t *rapid.T) {
		c := genC07Ack(t)
		f, incon, cls := runC07Ack(c)
		if incon != "" {
			rec.Inconclusive()
			rec.Class("inconclusive: "+incon, 1)
		}
		rec.Case(c, incon == "" && len(c.Filters) >= 2, cls...)
		if f != "" {
			p := rec.Violation("-", "schedule", f, c, nil)
			t.Fatalf("VIOLATION %s replay=%s", f, p)
		}
	})
}
