package p_broker

import (
	"bytes"
	"encoding/json"
	"fmt"
	"sort"
	"sync/atomic"
	"testing"
	"time"

	"github.com/mdzio/go-mqtt/message"
	"pgregory.net/rapid"
	"verifharness/census"
	"verifharness/ev"
	"verifharness/fix"
	"verifharness/ref/codec"
	"verifharness/wire"
)

// C16: every connection is torn down completely in bounded time, in any
// state (full rings, blocked processors, cross-blocked pairs), however it ends.

type C16Client struct {
	Clean   bool  `json:"clean"`
	Will    bool  `json:"will"`
	SubsTo  []int `json:"subs_to"` // indexes of clients whose topic this client subscribes to
	Stall   bool  `json:"stall"`   // stops reading after its subscriptions are acknowledged
	Publish int   `json:"publish"` // bytes to publish on its own topic (0 = none)
	MsgSize int   `json:"msg_size"`
	KA1     bool  `json:"ka1"` // negotiates keep-alive 1 s
	// EmptyID: the CONNECT carries a zero-length client identifier (allowed with CleanSession=1; the
	// broker makes one up); Clean is taken as true
	EmptyID bool `json:"empty_id,omitempty"`
	// WillSize > 0: the will message has this many bytes (up to 65535; a will may be
	// larger than the 16 KiB buffers of the connections it would be delivered to)
	WillSize int `json:"will_size,omitempty"`
}

type C16End struct {
	C     int    `json:"c"`
	Cause string `json:"cause"` // disconnect | close | garbage | keepalive | serverclose | oversize
	// oversize: before it closes, the client sends a PUBLISH with Total payload bytes (around and
	// beyond what the 16 KiB inbound buffer can take in), the first Frag bytes in a
	// write of their own
	Total int `json:"total,omitempty"`
	Frag  int `json:"frag,omitempty"`
	// Bulk (oversize): this many 5001-byte PUBLISH packets are written back to back, in one
	// write, before the big packet (a connection that has seen bulk traffic earlier in its life)
	Bulk int `json:"bulk,omitempty"`
}

type C16Case struct {
	Transport
	BufSize int `json:"bufsize,omitempty"` // 0 = 16384
	// Visitors short-lived connections come and go after the first VisitAfter clients have
	// connected (a server that has seen many connections in its life)
	Visitors   int         `json:"visitors,omitempty"`
	VisitAfter int         `json:"visit_after,omitempty"`
	Clients    []C16Client `json:"clients"`
	Ends       []C16End    `json:"ends"`
}

type c16result struct {
	Fail    string
	Incon   string
	Classes []string
}

func libQuiet() bool {
	for _, g := range census.Lib() {
		if !g.Parked() {
			return false
		}
	}
	return true
}

// settled waits until the library's goroutines are all parked in two
// consecutive censuses (traffic has gone as far as it can).
func settled(max time.Duration) bool {
	deadline := time.Now().Add(max)
	for time.Now().Before(deadline) {
		if libQuiet() {
			time.Sleep(3 * time.Millisecond)
			if libQuiet() {
				return true
			}
		}
		time.Sleep(500 * time.Microsecond)
	}
	return false
}

func c16topic(i int) string { return fmt.Sprintf("t/%d", i) }

func runC16(c C16Case) (res c16result) {
	cls := map[string]bool{}
	defer func() {
		for k := range cls {
			res.Classes = append(res.Classes, k)
		}
		sort.Strings(res.Classes)
	}()
	// no goroutine of the library may be left over from an earlier case
	if left := census.Lib(); len(left) > 0 {
		time.Sleep(50 * time.Millisecond)
		if left = census.Lib(); len(left) > 0 {
			return c16result{Incon: fmt.Sprintf("library goroutines left over from an earlier case: %v", census.Summary(left))}
		}
	}
	bs := c.BufSize
	if bs == 0 {
		bs = 16384
	}
	b, err := fix.New(int64(bs), "")
	if err != nil {
		return c16result{Fail: "fixture: " + err.Error()}
	}
	c.Transport.apply(b)
	serverClosed := false
	defer func() {
		if !serverClosed {
			b.Shutdown()
		}
	}()
	n := len(c.Clients)
	W := b.Dial("witness")
	if _, err := W.Connect(wire.ConnectPacket("witness", true, 300)); err != nil {
		return c16result{Fail: "witness connect: " + err.Error()}
	}
	W.Send(&codec.Packet{Type: codec.SUBSCRIBE, PacketID: 1, Topics: [][]byte{[]byte("will/#")}, QoSs: []byte{1}})
	if _, err := W.Barrier(); err != nil {
		return c16result{Fail: "witness barrier: " + err.Error()}
	}
	conns := make([]*fix.Conn, n)
	open := make([]bool, n)
	for i, cl := range c.Clients {
		if c.Visitors > 0 && n > 1 && i == 1+((c.VisitAfter%(n-1))+(n-1))%(n-1) {
			var vs []*fix.Conn
			for v := 0; v < c.Visitors; v++ {
				vc := b.Dial(fmt.Sprintf("v%d", v))
				if _, err := vc.Connect(wire.ConnectPacket(fmt.Sprintf("v%d", v), true, 300)); err != nil {
					return c16result{Fail: fmt.Sprintf("visitor %d connect: %v", v, err)}
				}
				if v%2 == 0 {
					vc.Send(&codec.Packet{Type: codec.DISCONNECT})
				}
				vc.Close()
				vs = append(vs, vc)
			}
			for v, vc := range vs {
				if !vc.WaitTeardown(wire.DefaultWait) {
					return c16result{Incon: fmt.Sprintf("teardown of visitor %d not seen", v)}
				}
			}
			cls[fmt.Sprintf("visitors>=%d-before-client-%d", c.Visitors/100*100, i)] = true
			if c.Visitors >= 256 {
				cls["server-has-seen->=256-connections"] = true
			}
		}
		cn := b.Dial(fmt.Sprintf("k%d", i))
		ka := uint16(300)
		if cl.KA1 {
			ka = 1
		}
		cp := wire.ConnectPacket(fmt.Sprintf("k%d", i), cl.Clean, ka)
		if cl.EmptyID {
			cp = wire.ConnectPacket("", true, ka)
			cls["zero-length-client-identifier"] = true
		}
		if cl.Will {
			cp.ConnectFlags |= 4 | 8
			cp.WillTopic, cp.WillMessage = []byte(fmt.Sprintf("will/%d", i)), []byte(fmt.Sprintf("will-of-%d", i))
			if cl.WillSize > 0 {
				cp.WillMessage = bytes.Repeat([]byte{byte('a' + i)}, cl.WillSize)
				cls["will-larger-than-a-connection-buffer"] = cls["will-larger-than-a-connection-buffer"] || cl.WillSize > bs
			}
		}
		if _, err := cn.Connect(cp); err != nil {
			return c16result{Fail: fmt.Sprintf("client %d connect: %v", i, err)}
		}
		if len(cl.SubsTo) > 0 {
			sp := &codec.Packet{Type: codec.SUBSCRIBE, PacketID: 1}
			for _, j := range cl.SubsTo {
				sp.Topics = append(sp.Topics, []byte(c16topic(j%n)))
				sp.QoSs = append(sp.QoSs, 0)
			}
			cn.Send(sp)
		}
		if _, err := cn.Barrier(); err != nil {
			return c16result{Fail: fmt.Sprintf("client %d barrier: %v", i, err)}
		}
		conns[i], open[i] = cn, true
	}
	for i, cl := range c.Clients {
		if cl.Stall {
			conns[i].Stall()
			cls["stalled-subscriber"] = true
		}
	}
	// traffic: queued asynchronously, it goes as far as the rings allow
	for i, cl := range c.Clients {
		for sent := 0; sent < cl.Publish; sent += cl.MsgSize {
			conns[i].SendAsync(codec.Encode(&codec.Packet{Type: codec.PUBLISH, Topic: []byte(c16topic(i)), Payload: bytes.Repeat([]byte{byte('A' + i)}, cl.MsgSize)}))
		}
	}
	if !settled(3 * time.Second) {
		return c16result{Incon: "traffic phase did not settle within 3 s"}
	}
	// which processors are (possibly) blocked delivering to a stalled, still open subscriber?
	heldUp := func(x int) bool {
		if c.Clients[x].Publish == 0 {
			return false
		}
		for s, cl := range c.Clients {
			// a stalled connection subscribed to its own topic holds up its own deliveries
			if !open[s] || !cl.Stall {
				continue
			}
			for _, j := range cl.SubsTo {
				if j%n == x {
					return true
				}
			}
		}
		return false
	}
	if nb := func() (k int) {
		for i := range c.Clients {
			if heldUp(i) {
				k++
			}
		}
		return
	}(); nb >= 16 {
		cls[">=16-processors-blocked-on-one-subscriber"] = true
	} else if nb >= 8 {
		cls[">=8-processors-blocked-on-one-subscriber"] = true
	}
	for i := range c.Clients {
		if heldUp(i) {
			cls["publisher-blocked-on-stalled-subscriber"] = true
			for _, j := range c.Clients[i].SubsTo {
				if j%n != i && heldUp(j%n) && c.Clients[i].Stall {
					cls["cross-blocked-pair"] = true
				}
			}
		}
	}
	type pend struct {
		i     int
		since time.Time
		cause string
	}
	var pending []pend // ended connections whose teardown may legitimately wait for a stalled peer
	wantWill := map[int]bool{}
	var leftover []string // topics on which nobody may be subscribed once every connection is gone
	awaitTeardown := func(i int, cause string) string {
		if conns[i].WaitTeardown(wire.DefaultWait) {
			return ""
		}
		if libQuiet() {
			time.Sleep(200 * time.Millisecond)
			if libQuiet() && !fix.TornDown(conns[i].ID()) {
				return fmt.Sprintf("connection %d ended by %s and no still-open stalled connection holds up a delivery from it, yet its teardown has not finished after %v and every library goroutine is parked: %v", i, cause, wire.DefaultWait, census.Summary(census.Lib()))
			}
		}
		// something is in motion: slow machine, or a busy loop? (decided by processor time consumed, not by the clock)
		id := conns[i].ID()
		spin, cpu := census.Spinning(3*time.Second, 45*time.Second, func() bool { return fix.TornDown(id) })
		if fix.TornDown(id) {
			return ""
		}
		if len(spin) > 0 {
			return fmt.Sprintf("connection %d ended by %s and no still-open stalled connection holds up a delivery from it, yet its teardown has not finished: since the deadline of %v the process has consumed %v of processor time while goroutine(s) of the library stayed in motion inside the same function in every census (a busy loop): %v", i, cause, wire.DefaultWait, cpu.Round(time.Millisecond), census.Summary(spin))
		}
		res.Incon = fmt.Sprintf("teardown of connection %d not seen within %v while goroutines were still running", i, wire.DefaultWait)
		return ""
	}
	recheckPending := func() string {
		var still []pend
		for _, p := range pending {
			if fix.TornDown(conns[p.i].ID()) {
				continue
			}
			if heldUp(p.i) {
				still = append(still, p)
				continue
			}
			if f := awaitTeardown(p.i, p.cause+" (earlier, then held up by a stalled peer that has ended now)"); f != "" {
				return f
			}
		}
		pending = still
		return ""
	}
	for _, e := range c.Ends {
		i := e.C % n
		if !open[i] && e.Cause != "serverclose" {
			continue
		}
		cause := e.Cause
		if (cause == "disconnect" || cause == "garbage" || cause == "oversize" || cause == "subscribe-close" || cause == "second-connect") && c.Clients[i].Publish > 0 {
			cause = "close" // its writer may be blocked behind unsent publishes
		}
		if cause == "keepalive" && !c.Clients[i].KA1 {
			cause = "close"
		}
		if cause == "keepalive" && heldUp(i) {
			// the broker cannot notice the silence of a connection whose processor is
			// blocked on a stalled, still open subscriber (its own reader included): the
			// inbound ring is full, the receiver does not read and no read deadline
			// runs. Such a connection has not ended - it is still open and, if it has
			// stopped reading itself, still holds up others (the statement's proviso) -
			// so the harness ends it by closing the socket instead.
			cause = "close"
		}
		if cause == "disconnect" && c.Clients[i].KA1 {
			// a connection with a keep-alive of 1 s that nobody keeps alive expires on
			// its own about 1.2 s after its last packet, possibly before this point:
			// whether its will is due would depend on timing, so its end is one for
			// which the will is due either way
			cause = "close"
		}
		cls["end:"+cause] = true
		if cause == "serverclose" {
			// Server.Close with the remaining connections still open
			anyOpen := false
			for _, o := range open {
				anyOpen = anyOpen || o
			}
			if anyOpen {
				cls["server-close-with-open-connections"] = true
			}
			returned, p := b.CloseServer(wire.DefaultWait)
			if p != nil {
				return c16result{Fail: fmt.Sprintf("Server.Close panicked: %v", p)}
			}
			if !returned {
				if libQuiet() {
					time.Sleep(200 * time.Millisecond)
					if libQuiet() {
						return c16result{Fail: fmt.Sprintf("Server.Close has not returned after %v and every library goroutine is parked: %v", wire.DefaultWait, census.Summary(census.Lib()))}
					}
				}
				var run []string
				for _, g := range census.Lib() {
					if !g.Parked() {
						run = append(run, g.State)
					}
				}
				res.Incon = fmt.Sprintf("Server.Close slow while goroutines were running: %v", run)
				return
			}
			serverClosed = true
			for j := range open {
				if open[j] {
					open[j] = false
					if c.Clients[j].Will {
						wantWill[j] = true
					}
				}
			}
			break
		}
		held := heldUp(i)
		full := c.Clients[i].Stall && len(c.Clients[i].SubsTo) > 0
		if held || full {
			cls["ended-with-a-full-ring"] = true
		}
		switch cause {
		case "disconnect":
			conns[i].SendAsync([]byte{0xE0, 0})
		case "garbage":
			conns[i].SendAsync([]byte{0xF0, 0})
			wantWill[i] = c.Clients[i].Will
		case "second-connect":
			// a second CONNECT is a protocol violation (MQTT-3.1.0-2); whether the broker ignores it
			// or drops the client, the socket is cut afterwards: no DISCONNECT was sent, the will is due
			conns[i].SendAsync(codec.Encode(wire.ConnectPacket(fmt.Sprintf("k%d", i), c.Clients[i].Clean, 300)))
			settled(300 * time.Millisecond)
			conns[i].Close()
			wantWill[i] = c.Clients[i].Will
			cls["end:second-connect"] = true
		case "oversize":
			// a PUBLISH the inbound buffer may be unable to take in, then the socket is
			// closed: whatever the broker does with the packet, the connection has ended
			total := e.Total
			if total < 16 {
				total = 16
			}
			pk := codec.Encode(&codec.Packet{Type: codec.PUBLISH, Topic: []byte("big/x"), Payload: make([]byte, total)})
			if e.Bulk > 0 {
				one := codec.Encode(&codec.Packet{Type: codec.PUBLISH, Topic: []byte("big/y"), Payload: make([]byte, 5001)})
				conns[i].SendAsync(bytes.Repeat(one, e.Bulk))
				settled(time.Second)
				cls["end:oversize-packet-after-bulk-traffic"] = true
			}
			f := e.Frag
			if f < 1 || f >= len(pk) {
				f = 1
			}
			conns[i].SendAsync(pk[:f])
			conns[i].SendAsync(pk[f:])
			settled(500 * time.Millisecond)
			conns[i].Close()
			wantWill[i] = c.Clients[i].Will
			cls["end:oversize-packet"] = true
		case "subscribe-close":
			// the client has stopped reading, sends a SUBSCRIBE with many filters and is
			// gone: the SUBACK cannot be delivered any more
			conns[i].Stall()
			sp := &codec.Packet{Type: codec.SUBSCRIBE, PacketID: 77}
			for j := 0; j < e.Total; j++ {
				sp.Topics = append(sp.Topics, []byte(fmt.Sprintf("lk/%d/%d", i, j)))
				sp.QoSs = append(sp.QoSs, byte(j%3))
			}
			conns[i].SendAsync(codec.Encode(sp))
			time.Sleep(time.Duration(e.Frag) * 100 * time.Microsecond)
			conns[i].Close()
			wantWill[i] = c.Clients[i].Will
			leftover = append(leftover, fmt.Sprintf("lk/%d/0", i), fmt.Sprintf("lk/%d/%d", i, e.Total-1), fmt.Sprintf("lk/%d/%d", i, e.Total/2))
			cls["end:subscribe-in-flight"] = true
		case "keepalive":
			// silence; the broker's read deadline (1.2 s) does the rest
			wantWill[i] = c.Clients[i].Will
		default:
			conns[i].Close()
			wantWill[i] = c.Clients[i].Will
		}
		open[i] = false
		if held {
			pending = append(pending, pend{i, time.Now(), cause})
			cls["teardown-may-wait-for-stalled-peer"] = true
		} else if f := awaitTeardown(i, cause); f != "" {
			return c16result{Fail: f}
		}
		if res.Incon != "" {
			return
		}
		if f := recheckPending(); f != "" {
			return c16result{Fail: f}
		}
	}
	// end whatever is still open (abruptly), stalled peers last so that held-up ones get released
	for i := range open {
		if open[i] {
			conns[i].Close()
			open[i] = false
			wantWill[i] = c.Clients[i].Will
		}
	}
	for i := range conns {
		if serverClosed {
			conns[i].Close()
		}
		if f := awaitTeardown(i, "final close"); f != "" {
			return c16result{Fail: f}
		}
		if res.Incon != "" {
			return
		}
	}
	// wills (only judged while the server is still up: after Server.Close nobody can observe them)
	if !serverClosed {
		rx, err := W.Barrier()
		if err != nil {
			return c16result{Fail: fmt.Sprintf("the witness connection does not answer after all other connections ended: %v", err)}
		}
		got := map[string]int{}
		for _, r := range rx {
			if r.P.Type == codec.PUBLISH {
				got[string(r.P.Topic)]++
			}
		}
		for i, cl := range c.Clients {
			want := 0
			if cl.Will && wantWill[i] {
				want = 1
			}
			if cl.WillSize+len(fmt.Sprintf("will/%d", i))+8 > bs {
				want = 0 // larger than the witness connection's buffer: it cannot be delivered to it
			}
			if g := got[fmt.Sprintf("will/%d", i)]; g != want {
				return c16result{Fail: fmt.Sprintf("connection %d (will=%v) ended: its will was published %d times, expected %d", i, cl.Will, g, want)}
			}
		}
		// clean sessions are discarded, persistent ones kept: the store holds the witness's session and
		// one per client that connected with CleanSession=0
		wantSess := 1
		for _, cl := range c.Clients {
			if !cl.Clean && !cl.EmptyID {
				wantSess++
			}
		}
		if n := b.SessionCount(); n >= 0 && n != wantSess {
			return c16result{Fail: fmt.Sprintf("every connection but the witness's has ended and been torn down: the session store holds %d sessions, expected %d (the witness's and one per CleanSession=0 client): a clean session was not discarded, or a persistent one was", n, wantSess)}
		}
		for i, cl := range c.Clients {
			if cl.EmptyID {
				continue
			}
			pr := b.Dial(fmt.Sprintf("probe%d", i))
			ack, err := pr.Connect(wire.ConnectPacket(fmt.Sprintf("k%d", i), false, 300))
			if err != nil {
				return c16result{Fail: fmt.Sprintf("probe connect for id k%d failed: %v", i, err)}
			}
			if ack.SessionPresent == cl.Clean {
				return c16result{Fail: fmt.Sprintf("after the teardown of connection %d (CleanSession=%v) a CleanSession=0 connect with its id is answered with SessionPresent=%v", i, cl.Clean, ack.SessionPresent)}
			}
			pr.Send(&codec.Packet{Type: codec.DISCONNECT})
			if !pr.WaitTeardown(wire.DefaultWait) {
				return c16result{Fail: fmt.Sprintf("teardown of the probe connection for id k%d did not finish", i)}
			}
			pr.Close()
		}
		W.Close()
		W.WaitTeardown(wire.DefaultWait)
		// every connection has been torn down: the subscription store hands messages to nobody
		for i := range c.Clients {
			leftover = append(leftover, c16topic(i))
		}
		for _, tp := range leftover {
			if n, err := b.SubscribersOf(tp); err == nil && n > 0 {
				return c16result{Fail: fmt.Sprintf("every connection has ended and been torn down, yet the subscription store still hands messages on %q to %d subscriber(s): a dead connection's subscriptions were left behind", tp, n)}
			}
		}
		returned, p := b.CloseServer(wire.DefaultWait)
		if p != nil {
			return c16result{Fail: fmt.Sprintf("Server.Close panicked: %v", p)}
		}
		if !returned {
			return c16result{Fail: fmt.Sprintf("Server.Close with no open connection has not returned after %v: %v", wire.DefaultWait, census.Summary(census.Lib()))}
		}
		serverClosed = true
	} else {
		W.Close()
		W.WaitTeardown(wire.DefaultWait)
	}
	// no goroutine of the library remains
	var left []census.G
	for try := 0; try < 400; try++ {
		if left = census.Lib(); len(left) == 0 {
			break
		}
		time.Sleep(5 * time.Millisecond)
	}
	if len(left) > 0 {
		return c16result{Fail: fmt.Sprintf("all connections have ended and Server.Close returned, but %d goroutine(s) of the library remain: %v", len(left), census.Summary(left))}
	}
	for _, x := range b.Escaped() {
		return c16result{Fail: x}
	}
	return res
}

// genC16Crowd: many publishers whose processors are all blocked on one
// stalled subscriber (connected last or first), some ended one by one, the
// rest by Server.Close.
func genC16Crowd(t *rapid.T) C16Case {
	n := rapid.SampledFrom([]int{7, 9, 10, 12, 14, 17, 18, 21}).Draw(t, "crowd")
	var c C16Case
	subFirst := rapid.IntRange(0, 3).Draw(t, "subscriber-first") == 0
	si := n - 1
	if subFirst {
		si = 0
	}
	for i := 0; i < n; i++ {
		cl := C16Client{Clean: rapid.Bool().Draw(t, "clean"), Will: rapid.IntRange(0, 3).Draw(t, "will") == 0}
		if i == si {
			for j := 0; j < n; j++ {
				if j != si {
					cl.SubsTo = append(cl.SubsTo, j)
				}
			}
			cl.Stall = true
		} else {
			cl.Publish, cl.MsgSize = rapid.SampledFrom([]int{40000, 70000}).Draw(t, "pubbytes"), rapid.SampledFrom([]int{2000, 4000}).Draw(t, "msgsize")
		}
		c.Clients = append(c.Clients, cl)
	}
	for i, k := 0, rapid.IntRange(0, 3).Draw(t, "single-ends"); i < k; i++ {
		c.Ends = append(c.Ends, C16End{C: rapid.IntRange(0, n-1).Draw(t, "ec"), Cause: rapid.SampledFrom([]string{"close", "disconnect", "garbage"}).Draw(t, "cause")})
	}
	c.Ends = append(c.Ends, C16End{Cause: "serverclose"})
	if rapid.IntRange(0, 2).Draw(t, "visitors") == 0 {
		c.Visitors, c.VisitAfter = rapid.SampledFrom([]int{260, 300, 520}).Draw(t, "nvisitors"), rapid.IntRange(0, n-1).Draw(t, "visitafter")
	}
	c.Transport = genTransport(t)
	return c
}

// genC16Bulk: a connection that has carried bulk traffic (back-to-back packets filling every
// read of the broker) sends one packet at the size limit of its buffer and ends.
func genC16Bulk(t *rapid.T) C16Case {
	var c C16Case
	c.BufSize = rapid.SampledFrom([]int{32768, 65536, 65536, 262144}).Draw(t, "bufsize")
	n := rapid.IntRange(1, 3).Draw(t, "nclients")
	for i := 0; i < n; i++ {
		c.Clients = append(c.Clients, C16Client{Clean: rapid.Bool().Draw(t, "clean"), Will: true})
	}
	limit := c.BufSize - 8192
	for i := 0; i < n; i++ {
		end := C16End{C: i, Cause: "oversize", Bulk: rapid.SampledFrom([]int{10, 70, 120, 250}).Draw(t, "nbulk")}
		end.Total = limit - 11 + rapid.IntRange(-3, 4).Draw(t, "over")
		end.Frag = rapid.SampledFrom([]int{1, 100, 5000, limit - 1, limit, limit + 1, limit + 2, limit + 3}).Draw(t, "bulkfrag")
		if rapid.IntRange(0, 3).Draw(t, "nobulk") == 0 {
			end.Bulk = 0 // the packet at the limit on a connection that has carried nothing yet
		}
		c.Ends = append(c.Ends, end)
	}
	c.Transport = genTransport(t)
	return c
}

func genC16(t *rapid.T) C16Case {
	switch rapid.IntRange(0, 7).Draw(t, "crowd-case") {
	case 0:
		return genC16Crowd(t)
	case 1:
		return genC16Bulk(t)
	}
	n := rapid.IntRange(2, 5).Draw(t, "nclients")
	var c C16Case
	c.BufSize = rapid.SampledFrom([]int{0, 0, 0, 65536}).Draw(t, "bufsize")
	bs := 16384
	if c.BufSize > 0 {
		bs = c.BufSize
	}
	if rapid.IntRange(0, 11).Draw(t, "visitors") == 0 {
		c.Visitors, c.VisitAfter = rapid.SampledFrom([]int{120, 260, 300}).Draw(t, "nvisitors"), rapid.IntRange(0, n-1).Draw(t, "visitafter")
	}
	for i := 0; i < n; i++ {
		cl := C16Client{Clean: rapid.Bool().Draw(t, "clean"), Will: rapid.Bool().Draw(t, "will"), KA1: rapid.IntRange(0, 6).Draw(t, "ka1") == 0}
		if rapid.IntRange(0, 5).Draw(t, "emptyid") == 0 {
			cl.EmptyID, cl.Clean = true, true
		}
		if cl.Will && rapid.IntRange(0, 4).Draw(t, "bigwill") == 0 {
			cl.WillSize = rapid.SampledFrom([]int{3000, 9000, 16300, 20000, 65535}).Draw(t, "willsize")
		}
		for j, m := 0, rapid.IntRange(0, 2).Draw(t, "nsubs"); j < m; j++ {
			cl.SubsTo = append(cl.SubsTo, rapid.IntRange(0, n-1).Draw(t, "subto"))
		}
		cl.Stall = len(cl.SubsTo) > 0 && rapid.IntRange(0, 2).Draw(t, "stall") > 0
		if rapid.IntRange(0, 3).Draw(t, "publishes") > 0 {
			cl.Publish = rapid.SampledFrom([]int{3000, 16384, 40000, 70000}).Draw(t, "pubbytes")
			cl.MsgSize = rapid.SampledFrom([]int{500, 2000, 4000}).Draw(t, "msgsize")
		}
		c.Clients = append(c.Clients, cl)
	}
	perm := rapid.Permutation(func() []int {
		var p []int
		for i := 0; i < n; i++ {
			p = append(p, i)
		}
		return p
	}()).Draw(t, "order")
	for _, i := range perm {
		cause := rapid.SampledFrom([]string{"disconnect", "close", "close", "garbage", "keepalive", "close", "oversize", "subscribe-close", "second-connect"}).Draw(t, "cause")
		end := C16End{C: i, Cause: cause}
		if cause == "subscribe-close" {
			end.Total = rapid.SampledFrom([]int{1, 20, 200, 200, 1500}).Draw(t, "nfilters")
			end.Frag = rapid.SampledFrom([]int{0, 1, 5, 20}).Draw(t, "pause")
		}
		if cause == "oversize" {
			end.Total = rapid.SampledFrom([]int{8000, 8193, 9000, 12000, 16383, 16384, 16385, 20000, 50000}).Draw(t, "total")
			end.Frag = rapid.SampledFrom([]int{1, 2, 5, 100, 1000, 4000}).Draw(t, "frag")
			if rapid.Bool().Draw(t, "at-the-limit") {
				// packets of 8191 ... 8196 bytes (the 16 KiB inbound buffer takes in 8192), cut around that mark
				limit := bs - 8192
				overhead := 10
				if limit >= 16384+10 {
					overhead = 11 // three bytes of remaining length
				}
				end.Total = limit - overhead + rapid.IntRange(-1, 4).Draw(t, "over")
				end.Frag = limit + rapid.IntRange(-1, 3).Draw(t, "fragover")
				if rapid.IntRange(0, 2).Draw(t, "bulk") == 0 {
					end.Bulk = rapid.SampledFrom([]int{10, 70, 120, 250}).Draw(t, "nbulk")
					end.Frag = rapid.SampledFrom([]int{1, 100, 5000, limit - 1}).Draw(t, "bulkfrag")
				}
			}
		}
		c.Ends = append(c.Ends, end)
		if rapid.IntRange(0, 9).Draw(t, "serverclose") == 0 {
			c.Ends = append(c.Ends, C16End{Cause: "serverclose"})
			break
		}
	}
	c.Transport = genTransport(t)
	return c
}

func TestC16(t *testing.T) {
	rec := ev.New("C16", "faults")
	defer rec.Flush()
	judge := func(c C16Case) c16result { return runC16(c) }
	if rp := ev.LoadReplay(t, "faults"); rp != nil {
		var c C16Case
		json.Unmarshal(rp.Case, &c)
		for i := 0; i < 3; i++ {
			if r := judge(c); r.Fail != "" {
				p := rec.Violation("-", "fault", r.Fail, c, nil)
				rec.Flush()
				t.Fatalf("VIOLATION %s replay=%s", r.Fail, p)
			}
		}
		return
	} else if ev.Replaying() {
		t.Skip()
	}
	rapid.Check(t, func(t *rapid.T) {
		c := genC16(t)
		r := judge(c)
		if r.Incon != "" {
			rec.Inconclusive()
			rec.Class("inconclusive: "+r.Incon[:minInt(120, len(r.Incon))], 1)
		}
		nt := false
		for _, cl := range r.Classes {
			if cl == "ended-with-a-full-ring" {
				nt = true
			}
		}
		rec.Case(c, nt, r.Classes...)
		if r.Fail != "" {
			p := rec.Violation("-", "fault", r.Fail, c, nil)
			t.Fatalf("VIOLATION %s replay=%s", r.Fail, p)
		}
	})
}

// ---- forced window: a ring is closed while a goroutine is between its done-check and its wait ----

type C16WCase struct {
	Variant string `json:"variant"` // blocked-publisher | idle-processor
	HoldMs  int    `json:"hold_ms"` // how long the goroutine stays parked after the peer's end was initiated
	Rings   int    `json:"rings"`   // traffic volume (in rings) for the blocked-publisher variant
}

func runC16Window(c C16WCase) (fail string, incon string) {
	if left := census.Lib(); len(left) > 0 {
		time.Sleep(50 * time.Millisecond)
		if left = census.Lib(); len(left) > 0 {
			return "", "library goroutines left over from an earlier case"
		}
	}
	b, err := fix.New(16384, "")
	if err != nil {
		return "fixture: " + err.Error(), ""
	}
	defer b.Shutdown()
	defer fix.SetYield(nil)
	point := "waitForWriteSpace.pre-wait"
	if c.Variant == "idle-processor" {
		point = "ReadWait.pre-wait"
	}
	var armed, trapped atomic.Bool
	release := make(chan struct{})
	fix.SetYield(func(p string, obj interface{}) {
		if p == point && armed.Load() && trapped.CompareAndSwap(false, true) {
			<-release
		}
	})
	waitTrapped := func() bool {
		for i := 0; i < 4000 && !trapped.Load(); i++ {
			time.Sleep(500 * time.Microsecond)
		}
		return trapped.Load()
	}
	var ended []*fix.Conn
	switch c.Variant {
	case "blocked-publisher":
		S, P := b.Dial("S"), b.Dial("P")
		if _, err := S.Connect(wire.ConnectPacket("s", true, 300)); err != nil {
			return "connect: " + err.Error(), ""
		}
		if _, err := P.Connect(wire.ConnectPacket("p", true, 300)); err != nil {
			return "connect: " + err.Error(), ""
		}
		S.Send(&codec.Packet{Type: codec.SUBSCRIBE, PacketID: 1, Topics: [][]byte{[]byte("t/x")}, QoSs: []byte{0}})
		if _, err := S.Barrier(); err != nil {
			return "barrier: " + err.Error(), ""
		}
		S.Stall()
		armed.Store(true)
		for sent := 0; sent < c.Rings*16384; sent += 2000 {
			P.SendAsync(codec.Encode(&codec.Packet{Type: codec.PUBLISH, Topic: []byte("t/x"), Payload: bytes.Repeat([]byte{'p'}, 2000)}))
		}
		if !waitTrapped() {
			close(release)
			return "", "no goroutine reached the wait window"
		}
		// the stalled subscriber ends while the publisher's processor sits between its done-check and its wait
		S.Close()
		time.Sleep(time.Duration(c.HoldMs) * time.Millisecond)
		close(release)
		if !S.WaitTeardown(wire.DefaultWait) {
			return fmt.Sprintf("the stalled subscriber closed its connection, yet its teardown has not finished after %v: %v", wire.DefaultWait, census.Summary(census.Lib())), ""
		}
		P.Close()
		ended = []*fix.Conn{S, P}
	default:
		C := b.Dial("C")
		if _, err := C.Connect(wire.ConnectPacket("c", true, 300)); err != nil {
			return "connect: " + err.Error(), ""
		}
		if _, err := C.Barrier(); err != nil {
			return "barrier: " + err.Error(), ""
		}
		armed.Store(true)
		// one more packet: after handling it the processor goes back to wait for data
		C.SendRaw([]byte{0xC0, 0})
		if !waitTrapped() {
			close(release)
			return "", "no goroutine reached the wait window"
		}
		C.Close()
		time.Sleep(time.Duration(c.HoldMs) * time.Millisecond)
		close(release)
		ended = []*fix.Conn{C}
	}
	for _, cn := range ended {
		if !cn.WaitTeardown(wire.DefaultWait) {
			if libQuiet() {
				return fmt.Sprintf("connection %s has ended and nothing holds it up, yet its teardown has not finished after %v and every library goroutine is parked (a goroutine was between its closed-check and its wait when the ring was closed): %v", cn.Name, wire.DefaultWait, census.Summary(census.Lib())), ""
			}
			return "", "teardown slow while goroutines were running"
		}
	}
	if returned, _ := b.CloseServer(wire.DefaultWait); !returned {
		return fmt.Sprintf("Server.Close has not returned after %v: %v", wire.DefaultWait, census.Summary(census.Lib())), ""
	}
	var left []census.G
	for try := 0; try < 400; try++ {
		if left = census.Lib(); len(left) == 0 {
			break
		}
		time.Sleep(5 * time.Millisecond)
	}
	if len(left) > 0 {
		return fmt.Sprintf("all connections have ended, but %d goroutine(s) of the library remain: %v", len(left), census.Summary(left)), ""
	}
	return "", ""
}

func TestC16Window(t *testing.T) {
	rec := ev.New("C16", "close-window")
	defer rec.Flush()
	if rp := ev.LoadReplay(t, "close-window"); rp != nil {
		var c C16WCase
		json.Unmarshal(rp.Case, &c)
		if f, _ := runC16Window(c); f != "" {
			p := rec.Violation("-", "schedule", f, c, nil)
			rec.Flush()
			t.Fatalf("VIOLATION %s replay=%s", f, p)
		}
		return
	} else if ev.Replaying() {
		t.Skip()
	}
	rapid.Check(t, func(t *rapid.T) {
		c := C16WCase{Variant: rapid.SampledFrom([]string{"blocked-publisher", "idle-processor"}).Draw(t, "variant"), HoldMs: rapid.SampledFrom([]int{0, 1, 5, 20}).Draw(t, "hold"), Rings: rapid.IntRange(2, 4).Draw(t, "rings")}
		f, incon := runC16Window(c)
		if incon != "" {
			rec.Inconclusive()
			rec.Class("inconclusive: "+incon, 1)
		}
		rec.Case(c, incon == "", "window:"+c.Variant)
		if f != "" {
			p := rec.Violation("-", "schedule", f, c, nil)
			t.Fatalf("VIOLATION %s replay=%s", f, p)
		}
	})
}

// ---- unit "id-exhaustion": every identifier of a subscriber connection is taken ----
//
// A subscriber holds 65535 unacknowledged QoS 1 deliveries (it reads, but does
// not acknowledge - or acknowledges everything but the first, which keeps the
// whole queue behind it). A publisher then sends one more matching message and
// ends. Whatever the broker does about the identifier shortage, the publisher's
// connection must be torn down in bounded time, and so must everything else.

type C16XCase struct {
	AckAllButFirst bool   `json:"ack_all_but_first"`
	PubEnd         string `json:"pub_end"` // disconnect | close
}

func runC16Exhaust(c C16XCase) (fail, incon string) {
	if left := census.Lib(); len(left) > 0 {
		time.Sleep(50 * time.Millisecond)
		if left = census.Lib(); len(left) > 0 {
			return "", "library goroutines left over from an earlier case"
		}
	}
	b, err := fix.New(16384, "")
	if err != nil {
		return "fixture: " + err.Error(), ""
	}
	defer b.Shutdown()
	S, P := b.Dial("S"), b.Dial("P")
	S.AutoAck = false
	var n atomic.Int64
	S.OnPacket = func(p *codec.Packet, off int64) bool {
		if p.Type != codec.PUBLISH {
			return false
		}
		if k := n.Add(1); c.AckAllButFirst && k > 1 && p.QoS == 1 {
			S.SendAsync(codec.Encode(&codec.Packet{Type: codec.PUBACK, PacketID: p.PacketID}))
		}
		return true
	}
	if _, err := S.Connect(wire.ConnectPacket("xs", true, 300)); err != nil {
		return "connect: " + err.Error(), ""
	}
	if _, err := P.Connect(wire.ConnectPacket("xp", true, 300)); err != nil {
		return "connect: " + err.Error(), ""
	}
	S.Send(&codec.Packet{Type: codec.SUBSCRIBE, PacketID: 1, Topics: [][]byte{[]byte("x/#")}, QoSs: []byte{1}})
	if _, err := S.Barrier(); err != nil {
		return "barrier: " + err.Error(), ""
	}
	for i := 0; i < 65535; i++ {
		m := message.NewPublishMessage()
		m.SetTopic([]byte("x/t"))
		m.SetPayload([]byte{byte(i), byte(i >> 8)})
		m.SetQoS(1)
		if err := b.Srv.Publish(m); err != nil {
			return fmt.Sprintf("Server.Publish #%d: %v", i, err), ""
		}
	}
	if _, err := S.Barrier(); err != nil {
		return fmt.Sprintf("subscriber barrier after 65535 deliveries: %v", err), ""
	}
	// one more, from a connection that then ends
	P.SendAsync(codec.Encode(&codec.Packet{Type: codec.PUBLISH, QoS: 1, PacketID: 1, Topic: []byte("x/t"), Payload: []byte("one more")}))
	if c.PubEnd == "disconnect" {
		P.SendAsync([]byte{0xE0, 0})
	} else {
		settled(200 * time.Millisecond)
		P.Close()
	}
	if !P.WaitTeardown(wire.DefaultWait) {
		running := 0
		for _, g := range census.Lib() {
			if !g.Parked() {
				running++
			}
		}
		return fmt.Sprintf("the publisher's connection ended (%s) after one more publish to a subscriber whose 65535 identifiers are all taken, yet its teardown has not finished after %v (%d library goroutine(s) still running, not parked: a loop that cannot end)", c.PubEnd, wire.DefaultWait, running), ""
	}
	P.Close()
	S.Close()
	if !S.WaitTeardown(wire.DefaultWait) {
		return "the subscriber's teardown did not finish", ""
	}
	if returned, _ := b.CloseServer(wire.DefaultWait); !returned {
		return fmt.Sprintf("Server.Close has not returned after %v although every connection has ended", wire.DefaultWait), ""
	}
	return "", ""
}

func TestC16Exhaust(t *testing.T) {
	rec := ev.New("C16", "id-exhaustion")
	defer rec.Flush()
	if rp := ev.LoadReplay(t, "id-exhaustion"); rp != nil {
		var c C16XCase
		json.Unmarshal(rp.Case, &c)
		if f, _ := runC16Exhaust(c); f != "" {
			p := rec.Violation("-", "fault", f, c, nil)
			rec.Flush()
			t.Fatalf("VIOLATION %s replay=%s", f, p)
		}
		return
	} else if ev.Replaying() {
		t.Skip()
	}
	e := ev.GetEnv()
	cases := []C16XCase{{false, "disconnect"}, {true, "disconnect"}, {false, "close"}, {true, "close"}}
	for i, c := range cases {
		if i%e.Shards != e.Shard {
			continue
		}
		f, incon := runC16Exhaust(c)
		if incon != "" {
			rec.Inconclusive()
			rec.Class("inconclusive: "+incon, 1)
		}
		rec.Case(c, incon == "", "all-identifiers-of-a-connection-in-flight")
		if f != "" {
			p := rec.Violation("-", "fault", f, c, nil)
			rec.Flush()
			t.Fatalf("VIOLATION %s replay=%s", f, p)
		}
	}
}
