package p_broker

import (
	"encoding/json"
	"fmt"
	"sync/atomic"
	"testing"
	"time"

	"pgregory.net/rapid"
	"verifharness/ev"
	"verifharness/fix"
	"verifharness/ref/codec"
	"verifharness/wire"
)

// C10, unit "resume-during-teardown": a client with a persistent session loses
// its connection and is back at once - the broker is still tearing the old
// connection down (one of its goroutines is held inside the closing of its
// buffers, yield Close.after-done) while it accepts the new one. The client
// cannot know; from its side the old connection is over.
//
// Verdict: the new CONNECT (CleanSession=0) is answered with SessionPresent=1;
// the subscriptions of the earlier connection are active on the new one
// without re-subscribing; what the new connection subscribes while the old
// teardown is still in progress is acknowledged and stays: after the old
// teardown has finished both kinds of subscription deliver, and after the new
// connection has ended too, a third connection of the identifier gets
// SessionPresent=1 and both again.

type ROCase struct {
	Transport
	ParkAt   int    `json:"park_at"` // which closing step of the old connection is held
	OldQoS   byte   `json:"old_qos"`
	NewQoS   byte   `json:"new_qos"`
	OldF     string `json:"old_filter"`
	NewF     string `json:"new_filter"`
	Unsub    bool   `json:"unsub,omitempty"` // the new connection also unsubscribes the old filter during the overlap
	EndBy    string `json:"end_by"`          // how the second connection ends: disconnect | close
	WithWill bool   `json:"with_will,omitempty"`
}

var roFilters = []struct{ f, t string }{{"ro/a", "ro/a"}, {"ro/b/+", "ro/b/x"}, {"ro/c/#", "ro/c/y/z"}, {"ro/d", "ro/d"}}

func runRO(c ROCase) (fail, incon string, classes []string) {
	b, err := fix.New(16384, "")
	if err != nil {
		return "", "fixture: " + err.Error(), nil
	}
	c.Transport.apply(b)
	defer b.Shutdown()
	defer fix.SetYield(nil)
	topicOf := func(f string) string {
		for _, x := range roFilters {
			if x.f == f {
				return x.t
			}
		}
		return f
	}
	P := b.Dial("P")
	if _, err := P.Connect(wire.ConnectPacket("p", true, 300)); err != nil {
		return "", "connect: " + err.Error(), nil
	}
	cp := wire.ConnectPacket("ov", false, 300)
	if c.WithWill {
		cp.ConnectFlags |= 4
		cp.WillTopic, cp.WillMessage = []byte("ro/will"), []byte("gone")
	}
	C1 := b.Dial("C1")
	if ack, err := C1.Connect(cp); err != nil || ack.ReturnCode != 0 {
		return "", fmt.Sprintf("first connect: %v %v", ack, err), nil
	}
	C1.Send(&codec.Packet{Type: codec.SUBSCRIBE, PacketID: 1, Topics: [][]byte{[]byte(c.OldF)}, QoSs: []byte{c.OldQoS}})
	if _, err := C1.Barrier(); err != nil {
		return "", "barrier: " + err.Error(), nil
	}
	var calls atomic.Int32
	var trapped atomic.Bool
	release := make(chan struct{})
	released := false
	rel := func() {
		if !released {
			released = true
			close(release)
		}
	}
	defer rel()
	fix.SetYield(func(pt string, obj interface{}) {
		if pt != "Close.after-done" {
			return
		}
		if int(calls.Add(1))-1 == c.ParkAt && trapped.CompareAndSwap(false, true) {
			<-release
		}
	})
	C1.Close()
	for i := 0; i < 1200 && !trapped.Load(); i++ {
		time.Sleep(250 * time.Microsecond)
	}
	if !trapped.Load() {
		rel()
		return "", "", []string{"window-not-reached"}
	}
	classes = append(classes, "reconnect-while-the-old-connection-is-being-torn-down")
	C2 := b.Dial("C2")
	ack, err := C2.Connect(cp)
	if err != nil || ack.ReturnCode != 0 {
		return fmt.Sprintf("the client's connection dropped and it reconnected at once (CleanSession=0): the CONNECT was not accepted (%v %v)", ack, err), "", classes
	}
	if !ack.SessionPresent {
		return "the client's connection dropped and it reconnected at once (CleanSession=0, while the broker was still tearing the old connection down): SessionPresent=0 although its session had been kept", "", classes
	}
	C2.Send(&codec.Packet{Type: codec.SUBSCRIBE, PacketID: 2, Topics: [][]byte{[]byte(c.NewF)}, QoSs: []byte{c.NewQoS}})
	if _, err := C2.Take(func(p *codec.Packet) bool { return p.Type == codec.SUBACK && p.PacketID == 2 }, wire.DefaultWait); err != nil {
		return fmt.Sprintf("no SUBACK on the new connection: %v", err), "", classes
	}
	oldHeld := true
	if c.Unsub && c.OldF != c.NewF {
		C2.Send(&codec.Packet{Type: codec.UNSUBSCRIBE, PacketID: 3, Topics: [][]byte{[]byte(c.OldF)}})
		if _, err := C2.Take(func(p *codec.Packet) bool { return p.Type == codec.UNSUBACK && p.PacketID == 3 }, wire.DefaultWait); err != nil {
			return fmt.Sprintf("no UNSUBACK on the new connection: %v", err), "", classes
		}
		oldHeld = false
		classes = append(classes, "inherited-filter-unsubscribed-during-the-overlap")
	}
	rel()
	if !C1.WaitTeardown(wire.DefaultWait) {
		return "", "teardown of the old connection did not finish", classes
	}
	minq := func(a, b byte) byte {
		if a < b {
			return a
		}
		return b
	}
	msg := 0
	probe := func(where string, cn *fix.Conn) string {
		type want struct {
			topic string
			held  bool
			q     byte
		}
		ws := []want{{topicOf(c.OldF), oldHeld, c.OldQoS}, {topicOf(c.NewF), true, c.NewQoS}}
		if c.OldF == c.NewF {
			ws = ws[1:] // one filter, granted last at NewQoS
		}
		for _, w := range ws {
			msg++
			pl := []byte(fmt.Sprintf("probe-%d", msg))
			P.Send(&codec.Packet{Type: codec.PUBLISH, QoS: 1, PacketID: uint16(100 + msg), Topic: []byte(w.topic), Payload: pl})
			if _, err := P.Barrier(); err != nil {
				return "publisher: " + err.Error()
			}
			rx, err := cn.Barrier()
			if err != nil {
				return fmt.Sprintf("%s: the connection broke: %v", where, err)
			}
			n, q := 0, byte(9)
			for _, r := range rx {
				if r.P.Type == codec.PUBLISH && string(r.P.Payload) == string(pl) {
					n++
					q = r.P.QoS
				} else if r.P.Type == codec.PUBLISH && string(r.P.Topic) != "ro/will" {
					return fmt.Sprintf("%s: received a PUBLISH on %q that was not published now", where, r.P.Topic)
				}
			}
			wantN := 0
			if w.held {
				wantN = 1
			}
			if n != wantN || (n == 1 && q != minq(1, w.q)) {
				return fmt.Sprintf("%s: a message on %q was delivered %d time(s) (QoS %d), expected %d (QoS %d); old filter %q@%d held: %v, new filter %q@%d", where, w.topic, n, q, wantN, minq(1, w.q), c.OldF, c.OldQoS, oldHeld, c.NewF, c.NewQoS)
			}
		}
		return ""
	}
	if f := probe("new connection, after the old teardown has finished", C2); f != "" {
		return f, "", classes
	}
	if c.EndBy == "disconnect" {
		C2.Send(&codec.Packet{Type: codec.DISCONNECT})
	} else {
		C2.Close()
	}
	if !C2.WaitTeardown(wire.DefaultWait) {
		return "", "teardown of the second connection did not finish", classes
	}
	C2.Close()
	C3 := b.Dial("C3")
	ack, err = C3.Connect(wire.ConnectPacket("ov", false, 300))
	if err != nil || ack.ReturnCode != 0 || !ack.SessionPresent {
		return fmt.Sprintf("third connection of the identifier (CleanSession=0): %v %v, expected code 0 with SessionPresent=1", ack, err), "", classes
	}
	if _, err := C3.Barrier(); err != nil {
		return "third connection: " + err.Error(), "", classes
	}
	if f := probe("third connection (session resumed again)", C3); f != "" {
		return f, "", classes
	}
	for _, x := range b.Escaped() {
		return x, "", classes
	}
	return "", "", classes
}

func genRO(t *rapid.T) ROCase {
	c := ROCase{ParkAt: rapid.IntRange(0, 3).Draw(t, "parkat"), OldQoS: byte(rapid.IntRange(0, 2).Draw(t, "oq")), NewQoS: byte(rapid.IntRange(0, 2).Draw(t, "nq")),
		OldF: rapid.SampledFrom(roFilters).Draw(t, "of").f, NewF: rapid.SampledFrom(roFilters).Draw(t, "nf").f,
		Unsub: rapid.IntRange(0, 3).Draw(t, "unsub") == 0, EndBy: rapid.SampledFrom([]string{"disconnect", "close"}).Draw(t, "endby"), WithWill: rapid.Bool().Draw(t, "will")}
	c.Transport = genTransport(t)
	return c
}

func TestC10Overlap(t *testing.T) {
	rec := ev.New("C10", "resume-during-teardown")
	defer rec.Flush()
	if rp := ev.LoadReplay(t, "resume-during-teardown"); rp != nil {
		var c ROCase
		json.Unmarshal(rp.Case, &c)
		for i := 0; i < 5; i++ {
			if f, _, _ := runRO(c); f != "" {
				p := rec.Violation("-", "schedule", f, c, nil)
				rec.Flush()
				t.Fatalf("VIOLATION %s replay=%s", f, p)
			}
		}
		return
	} else if ev.Replaying() {
		t.Skip()
	}
	rapid.Check(t, func(t *rapid.T) {
		c := genRO(t)
		f, incon, cls := runRO(c)
		if incon != "" {
			rec.Inconclusive()
			rec.Class("inconclusive: "+incon, 1)
		}
		rec.Case(c, incon == "" && len(cls) > 0 && cls[0] != "window-not-reached", cls...)
		if f != "" {
			p := rec.Violation("-", "schedule", f, c, nil)
			t.Fatalf("VIOLATION %s replay=%s", f, p)
		}
	})
}
