package p_broker

import (
	"bytes"
	"encoding/json"
	"fmt"
	"net"
	"os"
	"path/filepath"
	"sort"
	"strings"
	"sync"
	"sync/atomic"
	"testing"
	"time"

	"github.com/mdzio/go-mqtt/message"
	"github.com/mdzio/go-mqtt/service"
	"pgregory.net/rapid"
	"verifharness/ev"
	"verifharness/fix"
	"verifharness/ref/codec"
	"verifharness/wire"
)

// C18: concurrent use never causes unsynchronised access to shared broker
// state. Oracle: the Go race detector (this test is built with -race); a
// report counts when both access stacks contain go-mqtt frames.

type RaceOp struct {
	K      string `json:"k"` // sub unsub pub reconnect close isub iunsub spub
	Filter string `json:"filter,omitempty"`
	Topic  string `json:"topic,omitempty"`
	QoS    byte   `json:"qos,omitempty"`
	Retain bool   `json:"retain,omitempty"`
	Size   int    `json:"size,omitempty"`
	Clean  bool   `json:"clean,omitempty"`
}

type RaceCase struct {
	Raw     [][]RaceOp `json:"raw"`     // one op list per raw client goroutine
	Inproc  [][]RaceOp `json:"inproc"`  // in-process Publish/Subscribe/Unsubscribe goroutines
	Clients int        `json:"clients"` // library Clients connecting concurrently over TCP
	// Jam: beside the rest, one subscriber stops reading while a publisher
	// sends it JamN messages of JamSize bytes (more than both connections'
	// buffers take), then reads again: the publisher's processor is held up in
	// the middle of a delivery while its own connection keeps receiving.
	JamN    int `json:"jam_n,omitempty"`
	JamSize int `json:"jam_size,omitempty"`
}

var raceTopics = []string{"r/a", "r/b", "r/a/b", "r/c"}
var raceFilters = []string{"r/a", "r/#", "r/+", "r/+/b", "#", "r/b"}

func runRace(c RaceCase) (fail string, classes []string) {
	b, err := fix.New(16384, "")
	if err != nil {
		return "fixture: " + err.Error(), nil
	}
	cls := map[string]bool{}
	var clsMu sync.Mutex
	class := func(s string) { clsMu.Lock(); cls[s] = true; clsMu.Unlock() }
	var wg sync.WaitGroup
	var failMu sync.Mutex
	setFail := func(s string) {
		failMu.Lock()
		if fail == "" {
			fail = s
		}
		failMu.Unlock()
	}
	start := make(chan struct{})
	for gi, ops := range c.Raw {
		wg.Add(1)
		go func(gi int, ops []RaceOp) {
			defer wg.Done()
			<-start
			id := fmt.Sprintf("rc%d", gi)
			var cn *fix.Conn
			connect := func(clean bool) bool {
				cn = b.Dial(id)
				cn.AutoRel = true
				cn.OnPacket = func(p *codec.Packet, off int64) bool { return p.Type != codec.PINGRESP } // only the stream parser matters
				cp := wire.ConnectPacket(id, clean, 120)
				if gi%3 == 0 {
					cp.ConnectFlags |= 4
					cp.WillTopic, cp.WillMessage = []byte("r/a"), []byte("will")
				}
				if err := cn.Send(cp); err != nil {
					return false
				}
				return true
			}
			if !connect(gi%2 == 0) {
				return
			}
			pid := uint16(0)
			for _, op := range ops {
				if cn == nil {
					if !connect(op.Clean) {
						return
					}
				}
				pid++
				if pid == 0 {
					pid = 1
				}
				switch op.K {
				case "sub":
					cn.SendAsync(codec.Encode(&codec.Packet{Type: codec.SUBSCRIBE, PacketID: pid, Topics: [][]byte{[]byte(op.Filter)}, QoSs: []byte{op.QoS}}))
				case "unsub":
					cn.SendAsync(codec.Encode(&codec.Packet{Type: codec.UNSUBSCRIBE, PacketID: pid, Topics: [][]byte{[]byte(op.Filter)}}))
				case "pub":
					pp := &codec.Packet{Type: codec.PUBLISH, Topic: []byte(op.Topic), QoS: op.QoS, Retain: op.Retain, Payload: bytes.Repeat([]byte{byte('a' + gi%26)}, op.Size)}
					if op.QoS > 0 {
						pp.PacketID = pid
					}
					if err := cn.SendRawTimeout(codec.Encode(pp), 5*time.Second); err != nil {
						cn.Close()
						cn.WaitTeardown(5 * time.Second)
						cn = nil
					}
				case "reconnect", "close":
					if op.K == "reconnect" && op.Clean {
						cn.SendAsync([]byte{0xE0, 0})
					}
					cn.Close()
					if !cn.WaitTeardown(10 * time.Second) {
						setFail(fmt.Sprintf("teardown of %s did not finish within 10 s during the concurrent workload", id))
						return
					}
					if se := cn.StreamErr(); se != nil {
						setFail(fmt.Sprintf("%s received a malformed stream: %v", id, se))
					}
					cn = nil
					class("teardown-during-fanout")
				}
			}
			if cn != nil {
				cn.BarrierTimeout(5 * time.Second)
				if se := cn.StreamErr(); se != nil {
					setFail(fmt.Sprintf("%s received a malformed stream: %v", id, se))
				}
				cn.Close()
				cn.WaitTeardown(10 * time.Second)
			}
		}(gi, ops)
	}
	for gi, ops := range c.Inproc {
		wg.Add(1)
		go func(gi int, ops []RaceOp) {
			defer wg.Done()
			<-start
			var n atomic.Int64
			var fn service.OnPublishFunc = func(m *message.PublishMessage) error { n.Add(int64(len(m.Payload()))); return nil }
			for _, op := range ops {
				switch op.K {
				case "isub":
					b.Srv.Subscribe(op.Filter, op.QoS, &fn)
					class("in-process-subscribe")
				case "iunsub":
					b.Srv.Unsubscribe(op.Filter, &fn)
				case "spub":
					m := message.NewPublishMessage()
					m.SetTopic([]byte(op.Topic))
					m.SetPayload(bytes.Repeat([]byte{'s'}, op.Size))
					m.SetQoS(op.QoS)
					m.SetRetain(op.Retain)
					b.Srv.Publish(m)
					if op.Retain {
						class("retained-update-concurrent")
					}
				}
			}
			for _, f := range raceFilters {
				b.Srv.Unsubscribe(f, &fn)
			}
		}(gi, ops)
	}
	if c.JamN > 0 {
		wg.Add(1)
		go func() {
			defer wg.Done()
			<-start
			J, K := b.Dial("jam-sub"), b.Dial("jam-pub")
			if _, err := J.Connect(wire.ConnectPacket("jamsub", true, 120)); err != nil {
				return
			}
			if _, err := K.Connect(wire.ConnectPacket("jampub", true, 120)); err != nil {
				return
			}
			J.Send(&codec.Packet{Type: codec.SUBSCRIBE, PacketID: 1, Topics: [][]byte{[]byte("jam/x")}, QoSs: []byte{0}})
			if _, err := J.Barrier(); err != nil {
				return
			}
			J.Stall()
			for i := 0; i < c.JamN; i++ {
				K.SendAsync(codec.Encode(&codec.Packet{Type: codec.PUBLISH, Topic: []byte("jam/x"), Payload: bytes.Repeat([]byte{byte('A' + i%26)}, c.JamSize)}))
			}
			time.Sleep(60 * time.Millisecond) // the publisher runs into the subscriber's full buffers
			J.Unstall()
			class("publisher-held-up-by-a-subscriber-that-stopped-reading")
			K.BarrierTimeout(10 * time.Second)
			J.BarrierTimeout(10 * time.Second)
			for _, cn := range []*fix.Conn{J, K} {
				if se := cn.StreamErr(); se != nil {
					setFail(fmt.Sprintf("%s received a malformed stream: %v", cn.Name, se))
				}
				cn.Close()
				cn.WaitTeardown(10 * time.Second)
			}
		}()
	}
	// library clients over TCP
	var ln net.Listener
	if c.Clients > 0 {
		ln, err = net.Listen("tcp", "127.0.0.1:0")
		if err != nil {
			return "listen: " + err.Error(), nil
		}
		var served sync.WaitGroup
		go func() {
			for {
				conn, err := ln.Accept()
				if err != nil {
					return
				}
				served.Add(1)
				go func() { defer served.Done(); b.Srv.VerifServe(conn) }()
			}
		}()
		for ci := 0; ci < c.Clients; ci++ {
			wg.Add(1)
			go func(ci int) {
				defer wg.Done()
				<-start
				cl := &service.Client{BufferSize: 16384}
				cm := message.NewConnectMessage()
				cm.SetVersion(4)
				cm.SetCleanSession(true)
				cm.SetClientID([]byte(fmt.Sprintf("lib%d", ci)))
				cm.SetKeepAlive(60)
				if err := cl.Connect("tcp://"+ln.Addr().String(), cm); err != nil {
					setFail(fmt.Sprintf("library client %d could not connect: %v", ci, err))
					return
				}
				class("concurrent-client-connect")
				sm := message.NewSubscribeMessage()
				sm.AddTopic([]byte("r/#"), 1)
				done := make(chan struct{}, 1)
				cl.Subscribe(sm, func(msg, ack message.Message, err error) error { done <- struct{}{}; return nil }, func(m *message.PublishMessage) error { return nil })
				select {
				case <-done:
				case <-time.After(5 * time.Second):
				}
				pm := message.NewPublishMessage()
				pm.SetTopic([]byte("r/a"))
				pm.SetPayload([]byte("from-lib"))
				pm.SetQoS(1)
				cl.Publish(pm, nil)
				time.Sleep(time.Millisecond)
				cl.Disconnect()
			}(ci)
		}
	}
	close(start)
	done := make(chan struct{})
	go func() { wg.Wait(); close(done) }()
	select {
	case <-done:
	case <-time.After(60 * time.Second):
		return fail, append(classes, "inconclusive: workload did not finish within 60 s")
	}
	if ln != nil {
		ln.Close()
	}
	// every client connection has ended; wait for their teardowns, then close the server
	for _, cn := range b.Conns() {
		cn.Close()
		cn.WaitTeardown(10 * time.Second)
	}
	time.Sleep(20 * time.Millisecond) // TCP-side teardowns of the library clients
	b.CloseServer(10 * time.Second)
	for _, x := range b.Escaped() {
		setFail(x)
	}
	for k := range cls {
		classes = append(classes, k)
	}
	sort.Strings(classes)
	return fail, classes
}

func genRace(t *rapid.T) RaceCase {
	var c RaceCase
	nraw := rapid.IntRange(6, 16).Draw(t, "nraw")
	for i := 0; i < nraw; i++ {
		var ops []RaceOp
		for j, n := 0, rapid.IntRange(8, 40).Draw(t, "nops"); j < n; j++ {
			switch k := rapid.IntRange(0, 19).Draw(t, "k"); {
			case k < 5:
				ops = append(ops, RaceOp{K: "sub", Filter: rapid.SampledFrom(raceFilters).Draw(t, "f"), QoS: byte(rapid.IntRange(0, 2).Draw(t, "q"))})
			case k < 7:
				ops = append(ops, RaceOp{K: "unsub", Filter: rapid.SampledFrom(raceFilters).Draw(t, "f")})
			case k < 17:
				ops = append(ops, RaceOp{K: "pub", Topic: rapid.SampledFrom(raceTopics).Draw(t, "t"), QoS: byte(rapid.IntRange(0, 2).Draw(t, "q")), Retain: rapid.IntRange(0, 2).Draw(t, "r") == 0, Size: rapid.SampledFrom([]int{0, 3, 40, 700, 3000}).Draw(t, "s")})
			default:
				ops = append(ops, RaceOp{K: "reconnect", Clean: rapid.Bool().Draw(t, "clean")})
			}
		}
		c.Raw = append(c.Raw, ops)
	}
	for i, n := 0, rapid.IntRange(1, 3).Draw(t, "ninproc"); i < n; i++ {
		var ops []RaceOp
		for j, m := 0, rapid.IntRange(10, 60).Draw(t, "niops"); j < m; j++ {
			switch k := rapid.IntRange(0, 9).Draw(t, "ik"); {
			case k < 2:
				ops = append(ops, RaceOp{K: "isub", Filter: rapid.SampledFrom(raceFilters).Draw(t, "f"), QoS: byte(rapid.IntRange(0, 2).Draw(t, "q"))})
			case k < 3:
				ops = append(ops, RaceOp{K: "iunsub", Filter: rapid.SampledFrom(raceFilters).Draw(t, "f")})
			default:
				ops = append(ops, RaceOp{K: "spub", Topic: rapid.SampledFrom(raceTopics).Draw(t, "t"), QoS: byte(rapid.IntRange(0, 2).Draw(t, "q")), Retain: rapid.Bool().Draw(t, "r"), Size: rapid.SampledFrom([]int{1, 10, 200, 2000}).Draw(t, "s")})
			}
		}
		c.Inproc = append(c.Inproc, ops)
	}
	c.Clients = rapid.IntRange(0, 4).Draw(t, "nlib")
	if rapid.IntRange(0, 2).Draw(t, "jam") == 0 {
		c.JamN, c.JamSize = rapid.IntRange(12, 30).Draw(t, "jamn"), rapid.SampledFrom([]int{3000, 5000, 8000}).Draw(t, "jamsize")
	}
	return c
}

// ---- race report parsing --------------------------------------------------------------

type raceReport struct {
	Sig  string
	Text string
	Lib  bool // both access stacks contain go-mqtt frames
}

func isStd(fn string) bool {
	return !(strings.HasPrefix(fn, "github.com/") || strings.HasPrefix(fn, "verifharness/") || strings.HasPrefix(fn, "pgregory.net/"))
}

// parseRaceReports extracts, for each report, the function that performed
// each of the two accesses: the innermost frame that is not runtime/standard
// library code. A report is a library race when both are go-mqtt functions.
func parseRaceReports(txt string) []raceReport {
	var out []raceReport
	for _, blk := range strings.Split(txt, "==================") {
		if !strings.Contains(blk, "WARNING: DATA RACE") {
			continue
		}
		body := strings.TrimSpace(strings.Replace(blk, "WARNING: DATA RACE", "", 1))
		paras := strings.Split(body, "\n\n")
		var inner []string
		libStacks, stacks := 0, 0
		for _, p := range paras {
			p = strings.TrimSpace(p)
			head := strings.SplitN(p, "\n", 2)[0]
			if !(strings.Contains(head, " at 0x") && strings.Contains(head, " by ")) {
				continue
			}
			stacks++
			lines := strings.Split(p, "\n")
			found := "(unknown)"
			for i := 1; i+1 < len(lines); i += 2 {
				fn := strings.TrimSpace(lines[i])
				if k := strings.LastIndexByte(fn, '('); k > 0 {
					fn = fn[:k]
				}
				if isStd(fn) {
					continue
				}
				file := ""
				if f := strings.Fields(strings.TrimSpace(lines[i+1])); len(f) > 0 {
					file = filepath.Base(strings.SplitN(f[0], ":", 2)[0])
				}
				if strings.HasPrefix(fn, "github.com/mdzio/go-mqtt/") {
					libStacks++
					found = strings.TrimPrefix(fn, "github.com/mdzio/go-mqtt/") + "@" + file
				} else {
					found = "(harness)" + fn + "@" + file
				}
				break
			}
			inner = append(inner, found)
		}
		sort.Strings(inner)
		out = append(out, raceReport{Sig: strings.Join(inner, "|"), Text: strings.TrimSpace(blk), Lib: libStacks >= 2 && stacks >= 2})
	}
	return out
}

func raceLogText() string {
	// GORACE log_path=<prefix> writes <prefix>.<pid>
	prefix := os.Getenv("VERIF_RACE_LOG")
	if prefix == "" {
		return ""
	}
	b, _ := os.ReadFile(fmt.Sprintf("%s.%d", prefix, os.Getpid()))
	return string(b)
}

func TestC18Race(t *testing.T) {
	rec := ev.New("C18", "race")
	defer rec.Flush()
	seen := 0
	judge := func(c RaceCase) (string, string, []string) {
		fail, cls := runRace(c)
		if fail != "" {
			return "-", fail, cls
		}
		txt := raceLogText()
		reps := parseRaceReports(txt)
		for _, r := range reps[minInt(seen, len(reps)):] {
			if !r.Lib {
				rec.Class("race-report-not-between-two-library-accesses: "+r.Sig[:minInt(len(r.Sig), 160)], 1)
				continue
			}
			sig := "race:" + r.Sig
			if rec.IsKnown(sig) {
				rec.HitKnown(sig, c)
				continue
			}
			if os.Getenv("VERIF_RACE_COLLECT") != "" {
				// diagnostic mode: list every distinct library race instead of stopping at the first
				rec.Class("COLLECTED "+sig, 1)
				continue
			}
			seen = len(reps)
			return sig, "data race between " + r.Sig + "\n" + r.Text[:minInt(len(r.Text), 3000)], cls
		}
		seen = len(reps)
		return "", "", cls
	}
	if rp := ev.LoadReplay(t, "race"); rp != nil {
		var c RaceCase
		json.Unmarshal(rp.Case, &c)
		for i := 0; i < 10; i++ {
			if sig, f, _ := judge(c); f != "" {
				p := rec.Violation(sig, "race", f, c, nil)
				rec.Flush()
				t.Fatalf("VIOLATION %s replay=%s", f, p)
			}
		}
		return
	} else if ev.Replaying() {
		t.Skip()
	}
	if os.Getenv("VERIF_RACE_LOG") == "" {
		t.Log("VERIF_RACE_LOG not set: race reports go to stderr and are judged by the driver")
	}
	rapid.Check(t, func(t *rapid.T) {
		c := genRace(t)
		sig, f, cls := judge(c)
		nt := 0
		for _, x := range cls {
			switch x {
			case "teardown-during-fanout", "retained-update-concurrent", "in-process-subscribe", "concurrent-client-connect":
				nt++
			}
			if strings.HasPrefix(x, "inconclusive") {
				rec.Inconclusive()
			}
		}
		rec.Case(c, nt >= 3, cls...)
		if f != "" {
			p := rec.Violation(sig, "race", f, c, nil)
			t.Fatalf("VIOLATION %s replay=%s", f, p)
		}
	})
}

// ---- unit "reconnect-overlap" (known finding) -------------------------------------------------
//
// One client identifier, nothing else going on: the client's connection drops
// and the client is back at once, several times in a row, so that the broker
// accepts the new connection while it is still tearing the old one down. The
// two connections share the session object of the identifier (CONNECT message,
// will message, acknowledgement queues): the old connection's teardown reads
// and publishes what the new connection's setup rewrites. Every race report of
// this history is the recorded finding sig=reconnect-overlap (DESIGN.md
// section 5); the same operations without the overlap are part of unit "race",
// where every report is a violation.

type OverlapCase struct {
	N     int    `json:"n"`     // connections in a row
	Clean []bool `json:"clean"` // CleanSession per connection (cyclic)
	Will  []int  `json:"will"`  // will message length per connection, 0 = none (cyclic)
	Sub   bool   `json:"sub"`   // each connection subscribes
	Pub   int    `json:"pub"`   // publishes per connection (QoS 1, to a witness)
}

func runOverlap(c OverlapCase) string {
	b, err := fix.New(16384, "")
	if err != nil {
		return "fixture: " + err.Error()
	}
	defer b.Shutdown()
	W := b.Dial("W")
	if _, err := W.Connect(wire.ConnectPacket("ovw", true, 120)); err != nil {
		return ""
	}
	W.AutoAck = true
	W.OnPacket = func(p *codec.Packet, off int64) bool { return p.Type == codec.PUBLISH }
	W.Send(&codec.Packet{Type: codec.SUBSCRIBE, PacketID: 1, Topics: [][]byte{[]byte("ovr/#")}, QoSs: []byte{1}})
	W.Barrier()
	var old []*fix.Conn
	for i := 0; i < c.N; i++ {
		cn := b.Dial(fmt.Sprintf("ov%d", i))
		cn.AutoAck = true
		cp := wire.ConnectPacket("ovr", c.Clean[i%len(c.Clean)], 120)
		if w := c.Will[i%len(c.Will)]; w > 0 {
			cp.ConnectFlags |= 4 | 1<<3
			cp.WillTopic, cp.WillMessage = []byte("ovr/will"), bytes.Repeat([]byte{byte('a' + i%26)}, w)
		}
		if _, err := cn.Connect(cp); err != nil {
			cn.Close()
			old = append(old, cn)
			continue
		}
		if c.Sub {
			cn.SendAsync(codec.Encode(&codec.Packet{Type: codec.SUBSCRIBE, PacketID: 5, Topics: [][]byte{[]byte("ovr/in")}, QoSs: []byte{1}}))
		}
		for k := 0; k < c.Pub; k++ {
			cn.SendAsync(codec.Encode(&codec.Packet{Type: codec.PUBLISH, QoS: 1, PacketID: uint16(10 + k), Topic: []byte("ovr/in"), Payload: []byte("x")}))
		}
		cn.BarrierTimeout(5 * time.Second)
		cn.Close() // and back at once: no waiting for the teardown
		old = append(old, cn)
	}
	for _, o := range old {
		o.WaitTeardown(10 * time.Second)
	}
	W.Close()
	W.WaitTeardown(10 * time.Second)
	return ""
}

func TestC18Overlap(t *testing.T) {
	rec := ev.New("C18", "reconnect-overlap")
	defer rec.Flush()
	if ev.Replaying() {
		t.Skip()
	}
	const sig = "reconnect-overlap"
	seen := 0
	rapid.Check(t, func(t *rapid.T) {
		c := OverlapCase{N: rapid.IntRange(3, 12).Draw(t, "n"), Clean: rapid.SliceOfN(rapid.Bool(), 1, 3).Draw(t, "clean"),
			Will: rapid.SliceOfN(rapid.SampledFrom([]int{0, 4, 4, 40}), 1, 3).Draw(t, "will"), Sub: rapid.Bool().Draw(t, "sub"), Pub: rapid.IntRange(0, 3).Draw(t, "pub")}
		runOverlap(c)
		reps := parseRaceReports(raceLogText())
		hit := false
		for _, r := range reps[minInt(seen, len(reps)):] {
			if !r.Lib {
				rec.Class("race-report-not-between-two-library-accesses: "+r.Sig[:minInt(len(r.Sig), 160)], 1)
				continue
			}
			hit = true
			rec.Class("overlap-race: "+r.Sig[:minInt(len(r.Sig), 200)], 1)
			if !rec.IsKnown(sig) {
				p := rec.Violation(sig, "race", "data race in the reconnect-overlap history between "+r.Sig+"\n"+r.Text[:minInt(len(r.Text), 3000)], c, nil)
				t.Fatalf("VIOLATION %s replay=%s", r.Sig, p)
			}
		}
		seen = len(reps)
		if hit {
			rec.HitKnown(sig, c)
		}
		rec.Case(c, true, "same-identifier-back-before-the-old-teardown-finished")
	})
}
