package p_broker

import (
	"fmt"
	"strings"

	"pgregory.net/rapid"
	"verifharness/fix"
)

var levelVocab = []string{"a", "b", "cc", "a", "b", ""}

func genLevel(t *rapid.T, first bool) string {
	if !first && rapid.IntRange(0, 24).Draw(t, "dollar") == 0 {
		return "$x"
	}
	return rapid.SampledFrom(levelVocab).Draw(t, "level")
}

// genName draws a valid topic name of 1-4 levels (>= 1 character, no '$' first).
func genName(t *rapid.T) string {
	for {
		n := rapid.SampledFrom([]int{1, 2, 2, 3, 3, 4}).Draw(t, "nlevels")
		lv := make([]string, n)
		for i := range lv {
			lv[i] = genLevel(t, i == 0)
		}
		s := strings.Join(lv, "/")
		if s != "" {
			return s
		}
	}
}

// genFilter draws a valid topic filter of 1-4 levels.
func genFilter(t *rapid.T) string {
	for {
		n := rapid.SampledFrom([]int{1, 2, 2, 3, 3, 4}).Draw(t, "nflevels")
		lv := make([]string, n)
		for i := range lv {
			switch rapid.IntRange(0, 9).Draw(t, "fkind") {
			case 0, 1:
				lv[i] = "+"
			case 2:
				if i == n-1 {
					lv[i] = "#"
				} else {
					lv[i] = "+"
				}
			default:
				lv[i] = genLevel(t, i == 0)
			}
		}
		s := strings.Join(lv, "/")
		if s != "" {
			return s
		}
	}
}

var invalidFilters = []string{"a/#/b", "a+", "#x", "", "a/b#", "+a/b", "a/+b", "#/", "a/#/"}

func genSize(t *rapid.T, bufsize int) int {
	limit := bufsize - 8192 // largest total packet length that always fits
	switch rapid.IntRange(0, 19).Draw(t, "sizecls") {
	case 0:
		return 0
	case 1:
		return 1
	case 2:
		return rapid.IntRange(3900, 4300).Draw(t, "size4k")
	case 3:
		return limit - 40 - rapid.IntRange(0, 20).Draw(t, "eps") // just below the limit (topic and header take < 40 bytes)
	case 4:
		return -1 // exactly at the limit: fixed up by the caller, which knows the topic
	default:
		return rapid.IntRange(2, 100).Draw(t, "size")
	}
}

// sizeAtLimit computes the payload size that makes the PUBLISH packet exactly
// limit bytes long.
func sizeAtLimit(bufsize int, topic string, qos byte) int {
	limit := bufsize - 8192
	over := 1 + 2 + 2 + len(topic) // first byte, 2-byte remaining length (limit >= 128), topic
	if limit-1-2 > 16383 {
		over++ // the remaining length takes three bytes
	}
	if qos > 0 {
		over += 2
	}
	return limit - over
}

func genPub(t *rapid.T, p *Plan, retainOK bool) Op {
	op := Op{K: "pub", C: rapid.IntRange(0, p.NClients-1).Draw(t, "pc"), Topic: genName(t), PQ: byte(rapid.IntRange(0, 2).Draw(t, "pq"))}
	op.Size = genSize(t, p.BufSize)
	if op.Size < 0 {
		op.Size = sizeAtLimit(p.BufSize, op.Topic, op.PQ)
	}
	if retainOK && rapid.IntRange(0, 2).Draw(t, "retain") == 0 {
		op.Retain = true
	}
	if op.PQ > 0 && rapid.IntRange(0, 5).Draw(t, "dup") == 0 {
		op.Dup = true
	}
	return op
}

func genSub(t *rapid.T, p *Plan, maxFilters int) Op {
	n := rapid.IntRange(1, maxFilters).Draw(t, "nfilters")
	op := Op{K: "sub", C: rapid.IntRange(0, p.NClients-1).Draw(t, "sc")}
	for i := 0; i < n; i++ {
		op.Filters = append(op.Filters, genFilter(t))
		op.QoS = append(op.QoS, byte(rapid.IntRange(0, 2).Draw(t, "sq")))
	}
	return op
}

// genPlanC01: routing histories with clean sessions and no retained messages.
func genPlanC01(t *rapid.T) Plan {
	p := Plan{BufSize: rapid.SampledFrom([]int{16384, 16384, 32768, 262144}).Draw(t, "bufsize"),
		NClients: rapid.IntRange(2, 5).Draw(t, "nclients"), NInproc: rapid.IntRange(0, 2).Draw(t, "ninproc")}
	nops := rapid.IntRange(8, 40).Draw(t, "nops")
	var subs []Op // subscriptions made so far (to aim unsubscribes and publishes)
	for i := 0; i < nops; i++ {
		switch k := rapid.IntRange(0, 19).Draw(t, "opkind"); {
		case k < 6:
			op := genSub(t, &p, 3)
			subs = append(subs, op)
			p.Ops = append(p.Ops, op)
		case k < 8 && len(rawSubs(subs)) > 0:
			s := rapid.SampledFrom(rawSubs(subs)).Draw(t, "unsubof")
			op := Op{K: "unsub", C: s.C, Filters: []string{rapid.SampledFrom(s.Filters).Draw(t, "uf")}}
			if rapid.IntRange(0, 4).Draw(t, "unsub-other") == 0 {
				op.Filters = append(op.Filters, genFilter(t))
			}
			p.Ops = append(p.Ops, op)
		case k < 14:
			op := genPub(t, &p, false)
			if rapid.IntRange(0, 7).Draw(t, "retainflag") == 0 {
				// the retain flag does not change who receives the message now (what new
				// subscriptions get later is C08's business); an empty payload with the
				// flag clears a retained message that may not even exist
				op.Retain = true
				if rapid.Bool().Draw(t, "retain-empty") {
					op.Size = 0
				}
			}
			p.Ops = append(p.Ops, op)
		case k == 14:
			op := Op{K: "burst", C: rapid.IntRange(0, p.NClients-1).Draw(t, "bc"), Topic: genName(t), PQ: byte(rapid.IntRange(0, 2).Draw(t, "bq"))}
			limit := p.BufSize - 8192 - 64
			nb := rapid.IntRange(2, 12).Draw(t, "nburst")
			if op.PQ == 2 && rapid.Bool().Draw(t, "long-burst") {
				nb = rapid.IntRange(17, 40).Draw(t, "nlong") // more QoS 2 exchanges open at once than the receiver's queue holds at first
			}
			for j := 0; j < nb; j++ {
				if nb > 12 {
					op.Burst = append(op.Burst, rapid.SampledFrom([]int{8, 40, 200}).Draw(t, "bsize"))
				} else {
					op.Burst = append(op.Burst, rapid.SampledFrom([]int{8, 40, 900, 4000, limit, limit, limit - 3000}).Draw(t, "bsize"))
				}
			}
			p.Ops = append(p.Ops, op)
		case k == 15 && rapid.Bool().Draw(t, "filler-instead"):
			p.Ops = append(p.Ops, Op{K: "filler", C: rapid.IntRange(0, p.NClients-1).Draw(t, "fc"), Bytes: rapid.SampledFrom([]int{8000, 20000, 40000}).Draw(t, "fbytes")})
		case k == 15:
			p.Ops = append(p.Ops, Op{K: rapid.SampledFrom([]string{"disconnect", "close"}).Draw(t, "endkind"), C: rapid.IntRange(0, p.NClients-1).Draw(t, "ec")})
		case k == 16:
			p.Ops = append(p.Ops, Op{K: "connect", C: rapid.IntRange(0, p.NClients-1).Draw(t, "cc"), Clean: true})
		case k == 17 && p.NInproc > 0:
			op := Op{K: "isub", C: rapid.IntRange(0, p.NInproc-1).Draw(t, "ic"), Filters: []string{genFilter(t)}, QoS: []byte{byte(rapid.IntRange(0, 2).Draw(t, "iq"))}}
			op.Refuse = rapid.IntRange(0, 7).Draw(t, "irefuse") == 0
			subs = append(subs, Op{K: "isubref", C: -1 - op.C, Filters: op.Filters})
			p.Ops = append(p.Ops, op)
		case k == 18 && p.NInproc > 0:
			op := genPub(t, &p, false)
			op.K = "spub"
			p.Ops = append(p.Ops, op)
		default:
			// in-process unsubscribe of something subscribed in-process before
			for _, s := range subs {
				if s.C < 0 {
					p.Ops = append(p.Ops, Op{K: "iunsub", C: -1 - s.C, Filters: s.Filters[:1]})
					break
				}
			}
		}
	}
	p.Seg, p.Reset = genSeg(t)
	p.PipeConnect = rapid.IntRange(0, 5).Draw(t, "pipeconnect") == 0
	p.InprocErr = p.NInproc > 0 && rapid.IntRange(0, 3).Draw(t, "inprocerr") == 0
	p.IDPool = rapid.SampledFrom([]int{0, 0, 0, 1, 2, 3}).Draw(t, "idpool")
	if rapid.IntRange(0, 9).Draw(t, "steady") == 0 {
		// a steady publisher: one client completes 17-40 QoS 1/2 exchanges one after the other on one
		// connection, numbering them from a pool of 1-3 identifiers, towards a subscriber of the topic
		pc := rapid.IntRange(0, p.NClients-1).Draw(t, "steadyc")
		sc := rapid.IntRange(0, p.NClients-1).Draw(t, "steadysub")
		if p.IDPool == 0 {
			p.IDPool = rapid.IntRange(1, 3).Draw(t, "steadypool")
		}
		ops := []Op{{K: "sub", C: sc, Filters: []string{"a/#"}, QoS: []byte{byte(rapid.IntRange(0, 2).Draw(t, "steadysq"))}}}
		q2 := rapid.IntRange(0, 2).Draw(t, "steadyq2") > 0
		for j, m := 0, rapid.IntRange(17, 40).Draw(t, "steadyn"); j < m; j++ {
			pq := byte(2)
			if !q2 {
				pq = byte(rapid.IntRange(1, 2).Draw(t, "steadypq"))
			}
			ops = append(ops, Op{K: "pub", C: pc, Topic: "a/b", PQ: pq, Size: 8})
		}
		at := rapid.IntRange(0, len(p.Ops)).Draw(t, "steadyat")
		p.Ops = append(p.Ops[:at:at], append(ops, p.Ops[at:]...)...)
	}
	return p
}

func rawSubs(subs []Op) []Op {
	var out []Op
	for _, s := range subs {
		if s.C >= 0 {
			out = append(out, s)
		}
	}
	return out
}

// genPlanC07: SUBSCRIBE/UNSUBSCRIBE requests with many, invalid, repeated and
// overlapping filters and out-of-range QoS, with publishes around them.
func genPlanC07(t *rapid.T) Plan {
	p := Plan{BufSize: 16384, NClients: rapid.IntRange(2, 3).Draw(t, "nclients")}
	short := []string{"a", "b", "c", "d", "e", "f", "g", "h", "a/b", "b/a", "+", "a/+", "#", "a/#", "cc", "b/cc", "/", "a/"}
	// in a third of the plans the subscribing clients have persistent sessions and come back
	// now and then: requests then also concern subscriptions inherited from an earlier connection.
	// Those plans use no filters with empty levels: the session keeps the filters as written
	// while the tree stores "a/" as "a" (known finding empty-level), and what a resumed session
	// re-subscribes then depends on both - the variant model does not follow that far.
	persistent := rapid.IntRange(0, 2).Draw(t, "persistent") == 0
	if persistent {
		short = short[:len(short)-2]
	}
	var held []string
	genFilters := func(n int, allowInvalid bool) ([]string, []byte) {
		var fs []string
		var qs []byte
		for i := 0; i < n; i++ {
			var f string
			switch k := rapid.IntRange(0, 11).Draw(t, "fcls"); {
			case k == 0 && allowInvalid:
				f = rapid.SampledFrom(invalidFilters).Draw(t, "invalid")
			case k == 1 && len(fs) > 0:
				f = rapid.SampledFrom(fs).Draw(t, "repeat")
			case k == 2 && len(held) > 0:
				f = rapid.SampledFrom(held).Draw(t, "held")
			case k < 7:
				f = rapid.SampledFrom(short).Draw(t, "short")
			default:
				f = genFilter(t)
				for persistent && hasEmptyLevel(f) {
					f = strings.ReplaceAll("x/"+f+"/x", "//", "/x/")
				}
			}
			q := byte(rapid.IntRange(0, 2).Draw(t, "q"))
			if allowInvalid && rapid.IntRange(0, 19).Draw(t, "badq") == 0 {
				q = rapid.SampledFrom([]byte{3, 0x80, 0xff}).Draw(t, "badqv")
			}
			fs, qs = append(fs, f), append(qs, q)
		}
		return fs, qs
	}
	if persistent {
		p.Ops = append(p.Ops, Op{K: "connect", C: 0, Clean: false}, Op{K: "connect", C: 1, Clean: false})
	}
	nops := rapid.IntRange(6, 24).Draw(t, "nops")
	for i := 0; i < nops; i++ {
		switch k := rapid.IntRange(0, 10).Draw(t, "opkind"); {
		case k == 9 && persistent:
			c := rapid.IntRange(0, 1).Draw(t, "rc")
			p.Ops = append(p.Ops, Op{K: rapid.SampledFrom([]string{"disconnect", "close"}).Draw(t, "rend"), C: c}, Op{K: "connect", C: c, Clean: false})
		case k == 10:
			// unrelated traffic through a subscriber's own connection: a ring's worth
			// and more arrives after its SUBSCRIBE packets (what the subscription
			// tree kept of them must not live in the connection's buffer)
			p.Ops = append(p.Ops, Op{K: "filler", C: rapid.IntRange(0, 1).Draw(t, "fc"), Bytes: rapid.SampledFrom([]int{8000, 20000, 40000}).Draw(t, "fbytes")})
		case k < 3 && rapid.IntRange(0, 11).Draw(t, "bulk") == 0:
			// a request whose acknowledgement needs a two-byte remaining length (>= 126
			// return codes) or whose own length does (>= 20 filters)
			n := rapid.SampledFrom([]int{20, 125, 126, 127, 130, 300}).Draw(t, "nbulk")
			op := Op{K: "sub", C: rapid.IntRange(0, 1).Draw(t, "sc")}
			for j := 0; j < n; j++ {
				op.Filters = append(op.Filters, fmt.Sprintf("k/%d", j))
				op.QoS = append(op.QoS, byte(rapid.IntRange(0, 2).Draw(t, "bq")))
			}
			p.Ops = append(p.Ops, op)
			p.Ops = append(p.Ops, Op{K: "pub", C: rapid.IntRange(0, p.NClients-1).Draw(t, "bpc"), Topic: fmt.Sprintf("k/%d", rapid.IntRange(0, n-1).Draw(t, "bt")), PQ: byte(rapid.IntRange(0, 2).Draw(t, "bpq")), Size: 5})
			if rapid.Bool().Draw(t, "bulk-unsub") {
				p.Ops = append(p.Ops, Op{K: "unsub", C: op.C, Filters: op.Filters})
				p.Ops = append(p.Ops, Op{K: "pub", C: rapid.IntRange(0, p.NClients-1).Draw(t, "bpc2"), Topic: fmt.Sprintf("k/%d", rapid.IntRange(0, n-1).Draw(t, "bt2")), Size: 5})
			}
		case k < 3:
			n := rapid.SampledFrom([]int{1, 2, 3, 4, 5, 6, 8, 12}).Draw(t, "nf")
			fs, qs := genFilters(n, rapid.IntRange(0, 2).Draw(t, "allow-invalid") == 0)
			held = append(held, fs...)
			p.Ops = append(p.Ops, Op{K: "sub", C: rapid.IntRange(0, 1).Draw(t, "sc"), Filters: fs, QoS: qs})
		case k < 5:
			n := rapid.SampledFrom([]int{1, 2, 4, 5, 6, 8, 12}).Draw(t, "nuf")
			fs, _ := genFilters(n, false)
			p.Ops = append(p.Ops, Op{K: "unsub", C: rapid.IntRange(0, 1).Draw(t, "uc"), Filters: fs})
		default:
			op := genPub(t, &p, false)
			if len(held) > 0 && rapid.Bool().Draw(t, "aim") {
				// aim the publish at a held filter: use it as a name where it is one
				f := rapid.SampledFrom(held).Draw(t, "aimf")
				if !strings.ContainsAny(f, "+#") && f != "" {
					op.Topic = f
				}
			}
			if op.Size > 200 {
				op.Size = op.Size % 100
			}
			p.Ops = append(p.Ops, op)
		}
	}
	p.Seg, p.Reset = genSeg(t)
	p.PipeConnect = rapid.IntRange(0, 5).Draw(t, "pipeconnect") == 0
	p.InprocErr = p.NInproc > 0 && rapid.IntRange(0, 3).Draw(t, "inprocerr") == 0
	p.IDPool = rapid.SampledFrom([]int{0, 0, 0, 1, 2, 3}).Draw(t, "idpool")
	return p
}

// genPlanC08: retained / non-retained / clearing publishes on parent and child
// topics, subscriptions afterwards, filler traffic through the publisher.
func genPlanC08(t *rapid.T) Plan {
	p := Plan{BufSize: 16384, NClients: rapid.IntRange(2, 4).Draw(t, "nclients"), NInproc: rapid.IntRange(0, 1).Draw(t, "ninproc")}
	topics := []string{"a", "a/b", "a/b/cc", "b", "cc/a", "b/b"}
	if rapid.IntRange(0, 3).Draw(t, "more-topics") == 0 {
		topics = append(topics, genName(t), genName(t))
	}
	nops := rapid.IntRange(8, 30).Draw(t, "nops")
	for i := 0; i < nops; i++ {
		switch k := rapid.IntRange(0, 19).Draw(t, "opkind"); {
		case k < 8:
			op := genPub(t, &p, false)
			op.Topic = rapid.SampledFrom(topics).Draw(t, "rtopic")
			if op.Size < 0 || op.Size > p.BufSize-8192-64 {
				op.Size = sizeAtLimit(p.BufSize, op.Topic, op.PQ)
			}
			switch rapid.IntRange(0, 5).Draw(t, "rkind") {
			case 0:
				op.Retain, op.Size = true, 0 // clear
			case 1: // not retained
			default:
				op.Retain = true
			}
			if rapid.IntRange(0, 4).Draw(t, "same-payload") == 0 {
				op.Same = true // the same state announced again, possibly at another QoS
			}
			if p.NInproc > 0 && rapid.IntRange(0, 7).Draw(t, "spub") == 0 {
				op.K = "spub"
			}
			p.Ops = append(p.Ops, op)
		case k < 14:
			op := genSub(t, &p, 3)
			if rapid.Bool().Draw(t, "literal") {
				op.Filters[0] = rapid.SampledFrom(topics).Draw(t, "lf")
			} else if rapid.Bool().Draw(t, "wild") {
				op.Filters[0] = rapid.SampledFrom([]string{"#", "a/#", "+", "a/+", "+/b", "+/+/cc", "a/b/#"}).Draw(t, "wf")
			}
			if rapid.IntRange(0, 4).Draw(t, "refused") == 0 {
				// a filter the broker refuses (0x80) in front of, or among, the granted ones
				at := rapid.IntRange(0, len(op.Filters)-1).Draw(t, "refusedat")
				bad := rapid.SampledFrom([]string{"a/#/b", "a+", "#x", "b/+x"}).Draw(t, "badf")
				op.Filters = append(op.Filters[:at:at], append([]string{bad}, op.Filters[at:]...)...)
				op.QoS = append(op.QoS[:at:at], append([]byte{byte(rapid.IntRange(0, 2).Draw(t, "badq"))}, op.QoS[at:]...)...)
			}
			p.Ops = append(p.Ops, op)
		case k < 16:
			p.Ops = append(p.Ops, Op{K: "filler", C: rapid.IntRange(0, p.NClients-1).Draw(t, "fc"), Bytes: rapid.SampledFrom([]int{8000, 20000, 50000}).Draw(t, "fbytes")})
		case k == 16:
			p.Ops = append(p.Ops, Op{K: "connect", C: rapid.IntRange(0, p.NClients-1).Draw(t, "cc"), Clean: true})
		case k == 17 && p.NInproc > 0:
			p.Ops = append(p.Ops, Op{K: "isub", C: 0, Filters: []string{rapid.SampledFrom([]string{"#", "a/#", "a", "a/b", "+/b"}).Draw(t, "if")}, QoS: []byte{byte(rapid.IntRange(0, 2).Draw(t, "iq"))}, Refuse: rapid.IntRange(0, 2).Draw(t, "irefuse") == 0})
		default:
			p.Ops = append(p.Ops, Op{K: "unsub", C: rapid.IntRange(0, p.NClients-1).Draw(t, "uc"), Filters: []string{rapid.SampledFrom([]string{"#", "a/#", "a", "a/b"}).Draw(t, "uf")}})
		}
	}
	p.Seg, p.Reset = genSeg(t)
	p.PipeConnect = rapid.IntRange(0, 5).Draw(t, "pipeconnect") == 0
	p.InprocErr = p.NInproc > 0 && rapid.IntRange(0, 3).Draw(t, "inprocerr") == 0
	p.IDPool = rapid.SampledFrom([]int{0, 0, 0, 1, 2, 3}).Draw(t, "idpool")
	return p
}

// genPlanC10: clean and persistent sessions over several client identifiers.
// Clients have a tendency (mostly persistent / mostly clean) so that chains of
// resumed connections of one identifier are frequent.
func genPlanC10(t *rapid.T) Plan {
	p := Plan{BufSize: 16384, NClients: rapid.IntRange(2, 4).Draw(t, "nclients")}
	nops := rapid.IntRange(8, 40).Draw(t, "nops")
	filters := []string{"a", "b", "a/b", "a/#", "+", "+/b", "#", "cc"}
	persist := make([]bool, p.NClients)
	for i := range persist {
		persist[i] = rapid.IntRange(0, 9).Draw(t, "persistent") < 7
	}
	connect := func(c int) Op {
		clean := !persist[c]
		if rapid.IntRange(0, 6).Draw(t, "flip") == 0 {
			clean = !clean
		}
		op := Op{K: "connect", C: c, Clean: clean, Pipe: rapid.SampledFrom([]int{0, 0, 0, 0, 0, 0, 1, 2}).Draw(t, "pipe"), KA0: rapid.IntRange(0, 4).Draw(t, "ka0") == 0}
		if rapid.IntRange(0, 3).Draw(t, "will") == 0 {
			// a will, sometimes on a topic nobody can receive (what happens to the will must not decide what happens to the session)
			op.Will = &Will{Topic: rapid.SampledFrom([]string{"w/x", "$SYS/w", "$w"}).Draw(t, "wt"), Size: 3, QoS: byte(rapid.IntRange(0, 1).Draw(t, "wq"))}
		}
		return op
	}
	p.Auth = rapid.IntRange(0, 2).Draw(t, "auth") == 0
	hoardAt := -1
	if rapid.IntRange(0, 5).Draw(t, "hoard") == 0 {
		hoardAt = rapid.IntRange(0, nops-1).Draw(t, "hoardat")
	}
	for i := 0; i < nops; i++ {
		c := rapid.IntRange(0, p.NClients-1).Draw(t, "c")
		if i == hoardAt {
			// hoard: one persistent session collects 20-48 filters, drops most of them in a generated
			// order, touches a few survivors, and is resumed; then messages for dropped and kept filters
			persist[c] = true
			p.Ops = append(p.Ops, Op{K: "close", C: c}, Op{K: "connect", C: c, Clean: false})
			n := rapid.IntRange(20, 48).Draw(t, "hoardn")
			var held []int
			for k := 0; k < n; {
				op := Op{K: "sub", C: c}
				for j, m := 0, rapid.IntRange(1, 10).Draw(t, "hoardpk"); j < m && k < n; j, k = j+1, k+1 {
					op.Filters = append(op.Filters, fmt.Sprintf("h/%d", k))
					op.QoS = append(op.QoS, byte(rapid.IntRange(0, 2).Draw(t, "hq")))
					held = append(held, k)
				}
				p.Ops = append(p.Ops, op)
			}
			for d, m := 0, rapid.IntRange(n/2, n-1).Draw(t, "hoarddrop"); d < m && len(held) > 1; d++ {
				x := rapid.IntRange(0, len(held)-1).Draw(t, "hoarddropi")
				p.Ops = append(p.Ops, Op{K: "unsub", C: c, Filters: []string{fmt.Sprintf("h/%d", held[x])}})
				held = append(held[:x:x], held[x+1:]...)
			}
			for j, m := 0, rapid.IntRange(1, 3).Draw(t, "hoardtouch"); j < m && len(held) > 0; j++ {
				x := rapid.IntRange(0, len(held)-1).Draw(t, "hoardtouchi")
				if rapid.Bool().Draw(t, "hoardtouchunsub") && len(held) > 1 {
					p.Ops = append(p.Ops, Op{K: "unsub", C: c, Filters: []string{fmt.Sprintf("h/%d", held[x])}})
					held = append(held[:x:x], held[x+1:]...)
				} else {
					p.Ops = append(p.Ops, Op{K: "sub", C: c, Filters: []string{fmt.Sprintf("h/%d", held[x])}, QoS: []byte{byte(rapid.IntRange(0, 2).Draw(t, "hq2"))}})
				}
			}
			p.Ops = append(p.Ops, Op{K: rapid.SampledFrom([]string{"disconnect", "close"}).Draw(t, "hoardend"), C: c}, Op{K: "connect", C: c, Clean: false})
			pc := rapid.IntRange(0, p.NClients-1).Draw(t, "hoardpc")
			for j, m := 0, rapid.IntRange(6, 16).Draw(t, "hoardpubs"); j < m; j++ {
				p.Ops = append(p.Ops, Op{K: "pub", C: pc, Topic: fmt.Sprintf("h/%d", rapid.IntRange(0, n-1).Draw(t, "hoardpt")), PQ: byte(rapid.IntRange(0, 2).Draw(t, "hpq")), Size: 8})
			}
			continue
		}
		switch k := rapid.IntRange(0, 19).Draw(t, "opkind"); {
		case k < 5: // reconnect: end the connection in some way, connect again
			p.Ops = append(p.Ops, Op{K: rapid.SampledFrom([]string{"disconnect", "close", "close", "garbage"}).Draw(t, "end"), C: c}, connect(c))
		case k == 5:
			p.Ops = append(p.Ops, connect(c))
		case k < 10:
			op := Op{K: "sub", C: c}
			for j, n := 0, rapid.IntRange(1, 4).Draw(t, "nf"); j < n; j++ {
				f := rapid.SampledFrom(filters).Draw(t, "f")
				if rapid.IntRange(0, 5).Draw(t, "refused") == 0 {
					f = rapid.SampledFrom([]string{"a/#/b", "a+", "#x", "b/+x"}).Draw(t, "badf") // refused (0x80), the others in the packet are not
				}
				op.Filters = append(op.Filters, f)
				op.QoS = append(op.QoS, byte(rapid.IntRange(0, 2).Draw(t, "q")))
			}
			p.Ops = append(p.Ops, op)
		case k < 12:
			p.Ops = append(p.Ops, Op{K: "unsub", C: c, Filters: []string{rapid.SampledFrom(filters).Draw(t, "uf")}})
		case k == 13 && p.Auth:
			// end the connection, somebody else tries the identifier with a wrong password, the real reconnect
			p.Ops = append(p.Ops, Op{K: rapid.SampledFrom([]string{"disconnect", "close"}).Draw(t, "end"), C: c}, Op{K: "badconnect", C: c, Clean: rapid.Bool().Draw(t, "badclean")}, connect(c))
		case k == 12 && rapid.Bool().Draw(t, "aborted"):
			// end the connection, then a connection attempt that dies before its CONNACK, then the real reconnect
			p.Ops = append(p.Ops, Op{K: rapid.SampledFrom([]string{"disconnect", "close"}).Draw(t, "end"), C: c}, Op{K: "aborted-connect", C: c}, connect(c))
		case k == 12:
			p.Ops = append(p.Ops, Op{K: rapid.SampledFrom([]string{"disconnect", "close"}).Draw(t, "end"), C: c})
		default:
			op := Op{K: "pub", C: c, Topic: rapid.SampledFrom([]string{"a", "b", "a/b", "cc", "a/b/cc", "b/b"}).Draw(t, "pt"), PQ: byte(rapid.IntRange(0, 2).Draw(t, "pq")), Size: rapid.IntRange(0, 40).Draw(t, "ps")}
			p.Ops = append(p.Ops, op)
		}
	}
	p.Seg, p.Reset = genSeg(t)
	p.PipeConnect = rapid.IntRange(0, 5).Draw(t, "pipeconnect") == 0
	p.InprocErr = p.NInproc > 0 && rapid.IntRange(0, 3).Draw(t, "inprocerr") == 0
	p.IDPool = rapid.SampledFrom([]int{0, 0, 0, 1, 2, 3}).Draw(t, "idpool")
	return p
}

// genPlanC09: wills over connection generations of a few client identifiers;
// client 0 is the witness subscribed to everything at QoS 2. Each client has
// two will variants, so byte-identical reconnects are frequent.
func genPlanC09(t *rapid.T) Plan {
	p := Plan{BufSize: rapid.SampledFrom([]int{16384, 262144}).Draw(t, "bufsize"), NClients: rapid.IntRange(2, 4).Draw(t, "nclients")}
	p.Ops = append(p.Ops, Op{K: "connect", C: 0, Clean: true}, Op{K: "sub", C: 0, Filters: []string{"#"}, QoS: []byte{byte(rapid.SampledFrom([]int{2, 2, 1, 0}).Draw(t, "witq"))}})
	if rapid.Bool().Draw(t, "second-witness") {
		p.Ops = append(p.Ops, Op{K: "sub", C: 0, Filters: []string{"w/+"}, QoS: []byte{byte(rapid.IntRange(0, 2).Draw(t, "wq"))}})
	}
	limit := p.BufSize - 8192
	wills := make([][2]*Will, p.NClients)
	for c := 1; c < p.NClients; c++ {
		for v := 0; v < 2; v++ {
			w := &Will{Topic: rapid.SampledFrom([]string{"w/a", "w/b", "will", "w/a/b"}).Draw(t, "wt"), QoS: byte(rapid.IntRange(0, 2).Draw(t, "wq")), Retain: rapid.IntRange(0, 3).Draw(t, "wr") == 0}
			w.Size = rapid.SampledFrom([]int{0, 1, 5, 40, 300, 4000, limit - 200, 65535}).Draw(t, "ws")
			if w.Size > limit-200 {
				w.Size = limit - 200
			}
			if w.Size > 65535 {
				w.Size = 65535 // the will message is a length-prefixed field
			}
			wills[c][v] = w
		}
	}
	cleanOf := make([]bool, p.NClients)
	for c := range cleanOf {
		cleanOf[c] = rapid.IntRange(0, 2).Draw(t, "mostly-clean") == 0
	}
	nops := rapid.IntRange(4, 24).Draw(t, "nops")
	for i := 0; i < nops; i++ {
		c := rapid.IntRange(1, p.NClients-1).Draw(t, "c")
		switch k := rapid.IntRange(0, 19).Draw(t, "opkind"); {
		case k < 8:
			op := Op{K: "connect", C: c, Clean: cleanOf[c], EOFData: rapid.IntRange(0, 3).Draw(t, "eofdata") == 0}
			op.Pipe = rapid.SampledFrom([]int{0, 0, 0, 0, 0, 0, 1, 2, 2}).Draw(t, "pipe")
			op.KA0 = rapid.IntRange(0, 4).Draw(t, "ka0") == 0
			if rapid.IntRange(0, 5).Draw(t, "flipclean") == 0 {
				op.Clean = !op.Clean
			}
			switch rapid.IntRange(0, 9).Draw(t, "whichwill") {
			case 0:
			case 1, 2, 3:
				op.Will = wills[c][1]
			default:
				op.Will = wills[c][0]
			}
			p.Ops = append(p.Ops, op)
		case k < 15:
			p.Ops = append(p.Ops, Op{K: rapid.SampledFrom([]string{"disconnect", "disconnect-close", "requests-disconnect-close", "close", "close", "garbage", "bad-disconnect"}).Draw(t, "end"), C: c})
		case k < 17 && rapid.IntRange(0, 2).Draw(t, "second-connect") == 0:
			p.Ops = append(p.Ops, Op{K: "second-connect", C: c})
		case k < 17:
			p.Ops = append(p.Ops, Op{K: "pub", C: c, Topic: rapid.SampledFrom([]string{"a", "w/a"}).Draw(t, "pt"), PQ: byte(rapid.IntRange(0, 2).Draw(t, "pq")), Size: rapid.IntRange(1, 30).Draw(t, "ps")})
		case k < 19:
			p.Ops = append(p.Ops, Op{K: "sub", C: c, Filters: []string{rapid.SampledFrom([]string{"w/#", "a", "will"}).Draw(t, "sf")}, QoS: []byte{byte(rapid.IntRange(0, 2).Draw(t, "sq"))}})
		default:
			// a fresh subscription checks the retained store (will retain)
			p.Ops = append(p.Ops, Op{K: "sub", C: 0, Filters: []string{"w/#"}, QoS: []byte{1}})
		}
	}
	p.Seg, p.Reset = genSeg(t)
	p.PipeConnect = rapid.IntRange(0, 5).Draw(t, "pipeconnect") == 0
	p.InprocErr = p.NInproc > 0 && rapid.IntRange(0, 3).Draw(t, "inprocerr") == 0
	p.IDPool = rapid.SampledFrom([]int{0, 0, 0, 1, 2, 3}).Draw(t, "idpool")
	return p
}

// genSeg draws the transport of a case's connections: mostly the plain pipe
// (a whole write per Read), otherwise inbound bytes handed to the broker in
// pieces (cyclic list of piece sizes), and/or the end of the stream reported as
// a connection reset instead of io.EOF.
func genSeg(t *rapid.T) ([]int, bool) {
	var seg []int
	switch rapid.IntRange(0, 9).Draw(t, "segkind") {
	case 0:
		seg = []int{1}
	case 1:
		seg = rapid.SampledFrom([][]int{{2}, {3}, {1, 2}, {1, 1, 5}, {4, 1}, {7}, {1, 100}, {100}, {8191, 1}, {1, 8192}}).Draw(t, "segfixed")
	case 2:
		n := rapid.IntRange(1, 4).Draw(t, "seglen")
		for i := 0; i < n; i++ {
			seg = append(seg, rapid.IntRange(1, 300).Draw(t, "segpiece"))
		}
	}
	return seg, rapid.IntRange(0, 5).Draw(t, "reset") == 0
}

// Transport is the part of a case that says how the clients' bytes reach the
// broker (see fix.Broker.Seg / Reset); embedded in the case types.
type Transport struct {
	Seg   []int `json:"seg,omitempty"`
	Reset bool  `json:"reset,omitempty"`
}

func (tr Transport) apply(b *fix.Broker) { b.Seg, b.Reset = tr.Seg, tr.Reset }

func genTransport(t *rapid.T) Transport {
	s, r := genSeg(t)
	return Transport{Seg: s, Reset: r}
}
