package p_broker

import (
	"bytes"
	"encoding/json"
	"fmt"
	"runtime"
	"sync"
	"sync/atomic"
	"testing"
	"time"

	"pgregory.net/rapid"
	"verifharness/census"
	"verifharness/ev"
	"verifharness/fix"
	"verifharness/ref/codec"
	"verifharness/wire"
)

// C05, unit "delivery-windows": a subscriber disconnects in the middle of a
// delivery that another connection's processor is making to it. The
// delivering goroutine is held INSIDE the reservation of the subscriber's
// outgoing buffer (yield waitForWriteSpace.pre-lock, reached once per lap of
// the ring and whenever the ring is full - it holds the subscriber's write
// mutex there), a second publisher starts a delivery to the same subscriber,
// the subscriber's socket is cut, and then the first delivery goes on: its
// reservation may succeed while the commit fails. Whatever becomes of the two
// deliveries, both publishers only sent valid packets to somebody who went
// away: their connections stay open and keep answering, and the subscriber's
// connection is torn down.

type DWCase struct {
	Transport
	MsgSize  int    `json:"msg_size"`
	SubReads bool   `json:"sub_reads"` // the subscriber reads (the slow path is the once-per-lap one) or has stopped reading (full ring)
	SecondBy string `json:"second_by"` // the second delivery comes from: client | api | none
	Overlap  bool   `json:"overlap"`   // the subscriber holds two matching filters (one publish, two deliveries)
	// Skip: the delivery is held at the (Skip+1)-th time a delivery to the subscriber takes the
	// slow path. The first one is the reservation that crosses the end of the ring; with
	// messages of different sizes (Sizes, cyclic) the later ones drift into the middle of it.
	Skip  int   `json:"skip"`
	Sizes []int `json:"sizes,omitempty"`
}

func runDW(c DWCase) (fail, incon string, classes []string) {
	b, err := fix.New(16384, "")
	if err != nil {
		return "", "fixture: " + err.Error(), nil
	}
	c.Transport.apply(b)
	defer b.Shutdown()
	defer fix.SetYield(nil)
	A, A2, B := b.Dial("A"), b.Dial("A2"), b.Dial("B")
	for i, cn := range []*fix.Conn{A, A2, B} {
		if _, err := cn.Connect(wire.ConnectPacket(fmt.Sprintf("dw%d", i), true, 300)); err != nil {
			return "", "connect: " + err.Error(), nil
		}
	}
	B.OnPacket = func(p *codec.Packet, off int64) bool { return p.Type == codec.PUBLISH }
	filters := [][]byte{[]byte("dw/#")}
	qoss := []byte{0}
	if c.Overlap {
		filters, qoss = append(filters, []byte("dw/t")), append(qoss, 0)
	}
	B.Send(&codec.Packet{Type: codec.SUBSCRIBE, PacketID: 1, Topics: filters, QoSs: qoss})
	if _, err := B.Barrier(); err != nil {
		return "", "barrier: " + err.Error(), nil
	}
	bid := B.ID()
	var mu sync.Mutex
	deliverers := map[int64]bool{} // goroutines that have entered a delivery to B
	var armed, trapped atomic.Bool
	var slow atomic.Int32
	release := make(chan struct{})
	released := false
	rel := func() {
		if !released {
			released = true
			close(release)
		}
	}
	defer rel()
	fix.SetYield(func(pt string, obj interface{}) {
		switch pt {
		case "writeMessage.enter":
			if id, ok := obj.(uint64); ok && id == bid {
				mu.Lock()
				deliverers[census.GID()] = true
				mu.Unlock()
			}
		case "waitForWriteSpace.pre-lock":
			if !armed.Load() {
				return
			}
			mu.Lock()
			mine := deliverers[census.GID()]
			mu.Unlock()
			if mine && int(slow.Add(1))-1 >= c.Skip && trapped.CompareAndSwap(false, true) {
				<-release
			}
		}
	})
	if !c.SubReads {
		B.Stall()
	}
	armed.Store(true)
	if !c.SubReads {
		c.Skip = 0 // the first delivery that finds the ring full is the one to hold (nothing frees it again)
	}
	sizes := append([]int{c.MsgSize}, c.Sizes...)
	// A publishes until one of its deliveries to B is held (at most Skip+3 laps of B's ring)
	for i, sent := 0, 0; sent < (c.Skip+3)*16384 && !trapped.Load(); i++ {
		pl := bytes.Repeat([]byte{'d'}, sizes[i%len(sizes)])
		sent += len(pl) + 10
		if err := A.SendRawTimeout(codec.Encode(&codec.Packet{Type: codec.PUBLISH, Topic: []byte("dw/t"), Payload: pl}), time.Second); err != nil {
			break
		}
		for k := 0; k < 300 && !trapped.Load(); k++ {
			runtime.Gosched()
		}
	}
	for i := 0; i < 400 && !trapped.Load(); i++ {
		time.Sleep(250 * time.Microsecond)
	}
	if !trapped.Load() {
		rel()
		return "", "", []string{"window-not-reached"}
	}
	classes = append(classes, "delivery-held-inside-the-reservation")
	// a second delivery to B arrives (it will wait for B's write mutex)
	apiDone := make(chan struct{})
	switch c.SecondBy {
	case "client":
		A2.SendAsync(codec.Encode(&codec.Packet{Type: codec.PUBLISH, Topic: []byte("dw/t"), Payload: []byte("second")}))
	case "api":
		go func() { defer close(apiDone); serverPublish(b, "dw/t", []byte("second"), 0) }()
	}
	time.Sleep(2 * time.Millisecond)
	B.Close() // the subscriber goes away
	time.Sleep(5 * time.Millisecond)
	rel()
	what := fmt.Sprintf("a subscriber disconnected while a delivery to it was inside the reservation of its outgoing buffer (message of %d bytes, subscriber reading: %v, second delivery by %s)", c.MsgSize, c.SubReads, c.SecondBy)
	for name, cn := range map[string]*fix.Conn{"the first publisher": A, "the second publisher": A2} {
		if _, err := cn.Barrier(); err != nil {
			if err == wire.ErrTimeout {
				r := c05hang(c05result{}, fmt.Sprintf("%s; %s does not get an answer any more", what, name))
				return r.Fail, r.Incon, classes
			}
			return fmt.Sprintf("%s; the connection of %s, which only sent valid packets, was closed: %v", what, name, err), "", classes
		}
	}
	if c.SecondBy == "api" {
		select {
		case <-apiDone:
		case <-time.After(wire.DefaultWait):
			r := c05hang(c05result{}, what+"; Server.Publish does not return any more")
			return r.Fail, r.Incon, classes
		}
	}
	if !B.WaitTeardown(wire.DefaultWait) {
		r := c05hang(c05result{}, what+"; the subscriber's connection is not torn down")
		return r.Fail, r.Incon, classes
	}
	for _, x := range b.Escaped() {
		return x, "", classes
	}
	return "", "", classes
}

func genDW(t *rapid.T) DWCase {
	c := DWCase{MsgSize: rapid.SampledFrom([]int{600, 1200, 1200, 3000, 7000}).Draw(t, "size"), SubReads: rapid.IntRange(0, 3).Draw(t, "reads") > 0,
		SecondBy: rapid.SampledFrom([]string{"client", "client", "api", "none"}).Draw(t, "second"), Overlap: rapid.Bool().Draw(t, "overlap")}
	c.Skip = rapid.IntRange(0, 5).Draw(t, "skip")
	if rapid.IntRange(0, 3).Draw(t, "varsizes") > 0 {
		c.Sizes = rapid.SliceOfN(rapid.SampledFrom([]int{100, 700, 1900, 3100, 5000}), 1, 3).Draw(t, "sizes")
	}
	c.Transport = genTransport(t)
	return c
}

func TestC05DeliveryWindows(t *testing.T) {
	rec := ev.New("C05", "delivery-windows")
	defer rec.Flush()
	if rp := ev.LoadReplay(t, "delivery-windows"); rp != nil {
		var c DWCase
		json.Unmarshal(rp.Case, &c)
		for i := 0; i < 5; i++ {
			if f, _, _ := runDW(c); f != "" {
				p := rec.Violation("-", "schedule", f, c, nil)
				rec.Flush()
				t.Fatalf("VIOLATION %s replay=%s", f, p)
			}
		}
		return
	} else if ev.Replaying() {
		t.Skip()
	}
	rapid.Check(t, func(t *rapid.T) {
		c := genDW(t)
		f, incon, cls := runDW(c)
		if incon != "" {
			rec.Inconclusive()
			rec.Class("inconclusive: "+incon[:minInt(len(incon), 100)], 1)
		}
		rec.Case(c, incon == "" && len(cls) > 0 && cls[0] != "window-not-reached", cls...)
		if f != "" {
			p := rec.Violation("-", "schedule", f, c, nil)
			t.Fatalf("VIOLATION %s replay=%s", f, p)
		}
	})
}
