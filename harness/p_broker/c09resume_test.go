package p_broker

import (
	"bytes"
	"encoding/json"
	"fmt"
	"sync/atomic"
	"testing"
	"time"

	"pgregory.net/rapid"
	"verifharness/ev"
	"verifharness/fix"
	"verifharness/ref/codec"
	"verifharness/wire"
)

// C09, unit "will-vs-reconnect": the will of the connection that is ending is
// the will given in THAT connection's CONNECT, also when the same client
// identifier is already back with another will while the first one is still
// being handed to the subscribers. The schedule is forced: the teardown's
// delivery of the will to the j-th subscriber is parked (yield
// writeMessage.enter), the client reconnects (CleanSession 0 or 1, a will of
// the same, smaller or larger size, or none) and is accepted, then the
// delivery is released. Every subscriber must receive will 1 exactly once,
// byte for byte; when the second connection is dropped, will 2 exactly once.

type WRWill struct {
	Topic  string `json:"topic"`
	Size   int    `json:"size"`
	QoS    byte   `json:"qos"`
	Retain bool   `json:"retain,omitempty"`
}

type WRCase struct {
	SubQoS []byte  `json:"subqos"` // one witness subscriber per entry (filter w/#)
	ParkAt int     `json:"park_at"`
	Will1  WRWill  `json:"will1"`
	Will2  *WRWill `json:"will2"` // nil: the second connection has no will
	Clean2 bool    `json:"clean2"`
	End2   string  `json:"end2"` // close | disconnect
}

func wrPayload(n, size int) []byte {
	b := make([]byte, size)
	for i := range b {
		b[i] = byte(n*53 + i*11 + 1)
	}
	copy(b, fmt.Sprintf("will-%d:", n))
	return b
}

func runWillResume(c WRCase) (fail, incon string, classes []string) {
	b, err := fix.New(16384, "")
	if err != nil {
		return "fixture: " + err.Error(), "", nil
	}
	defer b.Shutdown()
	defer fix.SetYield(nil)
	ws := make([]*fix.Conn, len(c.SubQoS))
	ids := map[uint64]bool{}
	for i, q := range c.SubQoS {
		w := b.Dial(fmt.Sprintf("W%d", i))
		if _, err := w.Connect(wire.ConnectPacket(fmt.Sprintf("w%d", i), true, 300)); err != nil {
			return "witness connect: " + err.Error(), "", nil
		}
		w.Send(&codec.Packet{Type: codec.SUBSCRIBE, PacketID: 1, Topics: [][]byte{[]byte("w/#")}, QoSs: []byte{q}})
		if _, err := w.Barrier(); err != nil {
			return "witness barrier: " + err.Error(), "", nil
		}
		ws[i] = w
		ids[w.ID()] = true
	}
	connectPacket := func(clean bool, w *WRWill, n int) (*codec.Packet, []byte) {
		cp := wire.ConnectPacket("victim", clean, 300)
		var pl []byte
		if w != nil {
			pl = wrPayload(n, w.Size)
			cp.ConnectFlags |= 4 | w.QoS<<3
			if w.Retain {
				cp.ConnectFlags |= 32
			}
			cp.WillTopic, cp.WillMessage = []byte(w.Topic), pl
		}
		return cp, pl
	}
	V1 := b.Dial("V1")
	cp1, pl1 := connectPacket(false, &c.Will1, 1)
	if _, err := V1.Connect(cp1); err != nil {
		return "first connect: " + err.Error(), "", nil
	}
	if _, err := V1.Barrier(); err != nil {
		return "first barrier: " + err.Error(), "", nil
	}
	var armed, trapped atomic.Bool
	var writes atomic.Int32
	release := make(chan struct{})
	fix.SetYield(func(point string, obj interface{}) {
		if point != "writeMessage.enter" || !armed.Load() {
			return
		}
		if id, ok := obj.(uint64); ok && ids[id] {
			if int(writes.Add(1))-1 == c.ParkAt%len(c.SubQoS) && trapped.CompareAndSwap(false, true) {
				<-release
			}
		}
	})
	armed.Store(true)
	V1.Close()
	for i := 0; i < 8000 && !trapped.Load(); i++ {
		time.Sleep(250 * time.Microsecond)
	}
	if !trapped.Load() {
		close(release)
		return "", "the delivery of the will was not reached", nil
	}
	classes = append(classes, "reconnect-while-the-will-is-being-handed-on")
	// the same client identifier comes back while will 1 is still being handed on
	V2 := b.Dial("V2")
	cp2, pl2 := connectPacket(c.Clean2, c.Will2, 2)
	if len(codec.Encode(cp2)) <= len(codec.Encode(cp1)) {
		classes = append(classes, "second-CONNECT-not-longer-than-the-first")
	}
	ack, err := V2.Connect(cp2)
	armed.Store(false)
	close(release)
	if err != nil || ack.ReturnCode != 0 {
		return "", fmt.Sprintf("the reconnect during the teardown was not accepted: %v %v", ack, err), classes
	}
	if !V1.WaitTeardown(wire.DefaultWait) {
		return "the teardown of the first connection did not finish", "", classes
	}
	minq := func(a, b byte) byte {
		if a < b {
			return a
		}
		return b
	}
	check := func(what string, topic string, pl []byte, q byte, want int) string {
		for i, w := range ws {
			rx, err := w.Barrier()
			if err != nil {
				return fmt.Sprintf("subscriber %d: barrier failed: %v (stream error: %v)", i, err, w.StreamErr())
			}
			n := 0
			for _, r := range rx {
				if r.P.Type != codec.PUBLISH {
					continue
				}
				n++
				if string(r.P.Topic) != topic || !bytes.Equal(r.P.Payload, pl) {
					return fmt.Sprintf("subscriber %d received as %s topic %q with %d bytes starting %q; the CONNECT of the connection that ended carried topic %q with %d bytes starting %q (first difference at byte %d)", i, what, r.P.Topic, len(r.P.Payload), clip(r.P.Payload, 12), topic, len(pl), clip(pl, 12), firstDiff(r.P.Payload, pl))
				}
				if r.P.QoS != minq(q, c.SubQoS[i]) {
					return fmt.Sprintf("subscriber %d (granted QoS %d) received %s at QoS %d, the will QoS is %d", i, c.SubQoS[i], what, r.P.QoS, q)
				}
				if r.P.Retain {
					return fmt.Sprintf("subscriber %d received %s with the retain flag set on a live delivery", i, what)
				}
			}
			if n != want {
				return fmt.Sprintf("subscriber %d received %s %d times, expected %d", i, what, n, want)
			}
		}
		return ""
	}
	if f := check("the will of the first connection", c.Will1.Topic, pl1, c.Will1.QoS, 1); f != "" {
		return f, "", classes
	}
	// the second connection ends
	want2 := 0
	switch c.End2 {
	case "disconnect":
		V2.Send(&codec.Packet{Type: codec.DISCONNECT})
	default:
		V2.Close()
		if c.Will2 != nil {
			want2 = 1
		}
	}
	if !V2.WaitTeardown(wire.DefaultWait) {
		return "the teardown of the second connection did not finish", "", classes
	}
	V2.Close()
	t2, q2 := "", byte(0)
	if c.Will2 != nil {
		t2, q2 = c.Will2.Topic, c.Will2.QoS
	}
	if f := check("the will of the second connection", t2, pl2, q2, want2); f != "" {
		return f, "", classes
	}
	for _, x := range b.Escaped() {
		return x, "", classes
	}
	return "", "", classes
}

func genWillResume(t *rapid.T) WRCase {
	c := WRCase{Clean2: rapid.IntRange(0, 3).Draw(t, "clean2") == 0, End2: rapid.SampledFrom([]string{"close", "close", "disconnect"}).Draw(t, "end2")}
	for i, n := 0, rapid.IntRange(2, 3).Draw(t, "nsubs"); i < n; i++ {
		c.SubQoS = append(c.SubQoS, byte(rapid.IntRange(0, 2).Draw(t, "sq")))
	}
	c.ParkAt = rapid.IntRange(0, len(c.SubQoS)-1).Draw(t, "parkat")
	genW := func() WRWill {
		return WRWill{Topic: rapid.SampledFrom([]string{"w/x", "w/x", "w/yy", "w/z/z"}).Draw(t, "wt"), Size: rapid.SampledFrom([]int{8, 20, 21, 300, 3000}).Draw(t, "ws"), QoS: byte(rapid.IntRange(0, 2).Draw(t, "wq")), Retain: rapid.IntRange(0, 4).Draw(t, "wr") == 0}
	}
	c.Will1 = genW()
	if rapid.IntRange(0, 5).Draw(t, "nowill2") != 0 {
		w := genW()
		if rapid.Bool().Draw(t, "same-shape") {
			w.Topic, w.Size = c.Will1.Topic, c.Will1.Size
		}
		c.Will2 = &w
	}
	return c
}

func TestC09WillResume(t *testing.T) {
	rec := ev.New("C09", "will-vs-reconnect")
	defer rec.Flush()
	if rp := ev.LoadReplay(t, "will-vs-reconnect"); rp != nil {
		var c WRCase
		json.Unmarshal(rp.Case, &c)
		for i := 0; i < 3; i++ {
			if f, _, _ := runWillResume(c); f != "" {
				p := rec.Violation("-", "schedule", f, c, nil)
				rec.Flush()
				t.Fatalf("VIOLATION %s replay=%s", f, p)
			}
		}
		return
	} else if ev.Replaying() {
		t.Skip()
	}
	rapid.Check(t, func(t *rapid.T) {
		c := genWillResume(t)
		f, incon, cls := runWillResume(c)
		if incon != "" {
			rec.Inconclusive()
			rec.Class("inconclusive: "+incon, 1)
		}
		rec.Case(c, incon == "" && c.Will2 != nil, cls...)
		if f != "" {
			p := rec.Violation("-", "schedule", f, c, nil)
			t.Fatalf("VIOLATION %s replay=%s", f, p)
		}
	})
}
