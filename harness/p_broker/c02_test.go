package p_broker

import (
	"bytes"
	"encoding/json"
	"fmt"
	"testing"
	"time"

	"pgregory.net/rapid"
	"verifharness/ev"
	"verifharness/fix"
	"verifharness/ref/codec"
	"verifharness/wire"
)

// C02 broker role: the broker as receiver of QoS 1/2 publishes.

type C02Op struct {
	K      string `json:"k"` // pub1 pub2 rel duprel filler ping reconnect jam
	ID     uint16 `json:"id,omitempty"`
	Sys    bool   `json:"sys,omitempty"` // pub1/pub2: the topic starts with '$' (nobody can receive it; it must be acknowledged like any other)
	Dup    bool   `json:"dup,omitempty"` // pub2: the first copy of the exchange already carries DUP=1 (a retransmission whose original was lost)
	Size   int    `json:"size,omitempty"`
	Volume int    `json:"volume,omitempty"` // filler bytes
}

type C02Case struct {
	Transport
	Ops []C02Op `json:"ops"`
}

type exch struct {
	id       uint16
	msgno    int
	topic    string
	payload  []byte
	released bool
	sys      bool
}

type c02result struct {
	Fail    string
	Classes []string
}

func runC02(c C02Case) (res c02result) {
	cls := map[string]bool{}
	defer func() {
		for k := range cls {
			res.Classes = append(res.Classes, k)
		}
	}()
	b, err := fix.New(16384, "")
	if err != nil {
		return c02result{Fail: "fixture: " + err.Error()}
	}
	c.Transport.apply(b)
	defer b.Shutdown()
	// the publisher's transport may hand the broker the last bytes together with the end of the stream
	pEOF := false
	for _, op := range c.Ops {
		pEOF = pEOF || op.K == "lasteof"
	}
	S, P := b.Dial("S"), b.DialOpt("P", pEOF)
	if _, err := S.Connect(wire.ConnectPacket("sub", true, 120)); err != nil {
		return c02result{Fail: "subscriber connect: " + err.Error()}
	}
	// the publisher's session is persistent: a QoS 2 exchange may be continued on a later connection
	if _, err := P.Connect(wire.ConnectPacket("pub", false, 120)); err != nil {
		return c02result{Fail: "publisher connect: " + err.Error()}
	}
	S.Send(&codec.Packet{Type: codec.SUBSCRIBE, PacketID: 1, Topics: [][]byte{[]byte("t/#")}, QoSs: []byte{2}})
	if _, err := S.Barrier(); err != nil {
		return c02result{Fail: "subscriber barrier: " + err.Error()}
	}
	var open []*exch // QoS 2 exchanges without PUBREL yet, in PUBLISH order
	completed := map[uint16]bool{}
	msgno := 0
	type want struct {
		topic   string
		payload []byte
		qos     byte
	}
	for i, op := range c.Ops {
		where := fmt.Sprintf("op %d (%s id %d)", i, op.K, op.ID)
		var expAcks []*codec.Packet
		var expFwd []want
		switch op.K {
		case "pub1":
			msgno++
			pl := payload(msgno, op.Size)
			topic := fmt.Sprintf("t/q1/%d", msgno)
			if op.Sys {
				topic = fmt.Sprintf("$SYS/q1/%d", msgno)
				cls["publish-on-$-topic"] = true
			}
			P.Send(&codec.Packet{Type: codec.PUBLISH, QoS: 1, PacketID: op.ID, Topic: []byte(topic), Payload: pl})
			expAcks = append(expAcks, &codec.Packet{Type: codec.PUBACK, PacketID: op.ID})
			if !op.Sys {
				expFwd = append(expFwd, want{topic, pl, 1})
			}
		case "pub2":
			var x *exch
			for _, o := range open {
				if o.id == op.ID {
					x = o
				}
			}
			if x == nil {
				msgno++
				x = &exch{id: op.ID, msgno: msgno, topic: fmt.Sprintf("t/q2/%d", msgno), payload: payload(msgno, op.Size), sys: op.Sys}
				if op.Sys {
					x.topic = fmt.Sprintf("$SYS/q2/%d", msgno)
					cls["publish-on-$-topic"] = true
				}
				open = append(open, x)
				delete(completed, op.ID)
				if op.Dup {
					cls["first-copy-carries-dup"] = true
				}
				P.Send(&codec.Packet{Type: codec.PUBLISH, QoS: 2, Dup: op.Dup, PacketID: op.ID, Topic: []byte(x.topic), Payload: x.payload})
			} else {
				cls["dup-publish-before-pubrel"] = true
				P.Send(&codec.Packet{Type: codec.PUBLISH, QoS: 2, Dup: true, PacketID: op.ID, Topic: []byte(x.topic), Payload: x.payload})
			}
			expAcks = append(expAcks, &codec.Packet{Type: codec.PUBREC, PacketID: op.ID})
		case "rel":
			// PUBRELs are sent in PUBREC order (MQTT-4.6.0-4): release the oldest open exchange
			if len(open) == 0 {
				continue
			}
			x := open[0]
			open = open[1:]
			completed[x.id] = true
			P.Send(&codec.Packet{Type: codec.PUBREL, PacketID: x.id})
			expAcks = append(expAcks, &codec.Packet{Type: codec.PUBCOMP, PacketID: x.id})
			if !x.sys {
				expFwd = append(expFwd, want{x.topic, x.payload, 2})
			}
			where = fmt.Sprintf("op %d (rel id %d)", i, x.id)
		case "duprel":
			// duplicate PUBREL of a completed exchange (or of an id never used)
			id := op.ID
			isOpen := false
			for _, o := range open {
				isOpen = isOpen || o.id == id
			}
			if isOpen {
				continue
			}
			if completed[id] {
				cls["duplicate-pubrel-after-pubcomp"] = true
			}
			P.Send(&codec.Packet{Type: codec.PUBREL, PacketID: id})
			expAcks = append(expAcks, &codec.Packet{Type: codec.PUBCOMP, PacketID: id})
		case "stray":
			// an acknowledgement that belongs to the other direction (the broker as sender) and refers to
			// nothing the broker has sent: it concerns none of the publisher's own exchanges, whose
			// identifiers it may share. A PUBREC is answered by a PUBREL (the sender's duty), the others by nothing.
			switch op.Size % 3 {
			case 0:
				P.Send(&codec.Packet{Type: codec.PUBACK, PacketID: op.ID})
			case 1:
				P.Send(&codec.Packet{Type: codec.PUBCOMP, PacketID: op.ID})
			default:
				P.Send(&codec.Packet{Type: codec.PUBREC, PacketID: op.ID})
				expAcks = append(expAcks, &codec.Packet{Type: codec.PUBREL, PacketID: op.ID})
			}
			for _, o := range open {
				if o.id == op.ID {
					cls["stray-acknowledgement-with-the-identifier-of-an-open-exchange"] = true
				}
			}
			cls["stray-acknowledgement"] = true
		case "filler":
			per := 4000
			for sent := 0; sent < op.Volume; sent += per {
				P.Send(&codec.Packet{Type: codec.PUBLISH, Topic: []byte("f/x"), Payload: bytes.Repeat([]byte{0xEE}, per)})
			}
			if op.Volume >= 16384 && len(open) > 0 {
				cls["ring-of-filler-between-publish-and-pubrel"] = true
			}
		case "jam":
			// the subscriber stops reading: the publisher's processor gets stuck handing a
			// QoS 1 message on while the publisher goes on sending (more than a ring of
			// unrelated traffic); then the subscriber reads again. Every PUBLISH is
			// acknowledged once and handed on with the content it had.
			S.Stall()
			cls["publisher-stuck-on-a-subscriber-that-stopped-reading"] = true
			var out []byte
			for j := 0; j < 3; j++ {
				msgno++
				pl := payload(msgno, 7000)
				topic := fmt.Sprintf("t/jam/%d", msgno)
				id := uint16(400 + msgno%100)
				out = append(out, codec.Encode(&codec.Packet{Type: codec.PUBLISH, QoS: 1, PacketID: id, Topic: []byte(topic), Payload: pl})...)
				expAcks = append(expAcks, &codec.Packet{Type: codec.PUBACK, PacketID: id})
				expFwd = append(expFwd, want{topic, pl, 1})
			}
			for sent := 0; sent < 24000; sent += 4000 {
				out = append(out, codec.Encode(&codec.Packet{Type: codec.PUBLISH, Topic: []byte("f/x"), Payload: bytes.Repeat([]byte{0xEE}, 4000)})...)
			}
			P.SendAsync(out)
			settled(300 * time.Millisecond)
			S.Unstall()
		case "lasteof":
			// The publisher's last packet and the end of its stream reach the broker
			// together (the client ends its sending direction right behind the packet):
			// the packet was received and is handed on like any other. What the
			// publisher itself still gets is not judged. Then the client comes back.
			var last *codec.Packet
			if len(open) > 0 {
				x := open[0]
				open = open[1:]
				completed[x.id] = true
				last = &codec.Packet{Type: codec.PUBREL, PacketID: x.id}
				if !x.sys {
					expFwd = append(expFwd, want{x.topic, x.payload, 2})
				}
				cls["last-packet-with-end-of-stream:PUBREL"] = true
			} else {
				msgno++
				pl := payload(msgno, op.Size)
				topic := fmt.Sprintf("t/q1/%d", msgno)
				last = &codec.Packet{Type: codec.PUBLISH, QoS: 1, PacketID: op.ID, Topic: []byte(topic), Payload: pl}
				expFwd = append(expFwd, want{topic, pl, 1})
				cls["last-packet-with-end-of-stream:PUBLISH"] = true
			}
			if err := P.Send(last); err != nil {
				return c02result{Fail: fmt.Sprintf("%s: write failed: %v", where, err)}
			}
			P.HalfClose()
			if !P.WaitTeardown(wire.DefaultWait) {
				return c02result{Fail: fmt.Sprintf("%s: teardown of the publisher's connection after the end of its stream did not finish", where)}
			}
			P.Close()
			P = b.DialOpt("P", pEOF)
			ack, err := P.Connect(wire.ConnectPacket("pub", false, 120))
			if err != nil || ack.ReturnCode != 0 || !ack.SessionPresent {
				return c02result{Fail: fmt.Sprintf("%s: publisher reconnect: %v %v", where, ack, err)}
			}
		case "reconnect":
			// the publisher's connection drops and the client comes back with CleanSession=0:
			// exchanges that were open stay open
			P.Close()
			if !P.WaitTeardown(wire.DefaultWait) {
				return c02result{Fail: fmt.Sprintf("%s: teardown of the publisher's dropped connection did not finish", where)}
			}
			P = b.DialOpt("P", pEOF)
			ack, err := P.Connect(wire.ConnectPacket("pub", false, 120))
			if err != nil || ack.ReturnCode != 0 {
				return c02result{Fail: fmt.Sprintf("%s: publisher reconnect: %v %v", where, ack, err)}
			}
			if !ack.SessionPresent {
				return c02result{Fail: fmt.Sprintf("%s: the publisher's persistent session was not resumed (SessionPresent=0)", where)}
			}
			if len(open) > 0 {
				cls["reconnect-with-open-exchanges"] = true
			}
		case "ping":
		}
		prx, err := P.Barrier()
		if err != nil {
			return c02result{Fail: fmt.Sprintf("%s: publisher barrier failed: %v (stream error: %v)", where, err, P.StreamErr())}
		}
		// acks: exactly the expected ones, in order, nothing else
		var gotAcks []*codec.Packet
		for _, r := range prx {
			gotAcks = append(gotAcks, r.P)
		}
		if len(gotAcks) != len(expAcks) {
			return c02result{Fail: fmt.Sprintf("%s: publisher received %v, expected %v", where, gotAcks, expAcks)}
		}
		for j := range expAcks {
			if gotAcks[j].Type != expAcks[j].Type || gotAcks[j].PacketID != expAcks[j].PacketID {
				return c02result{Fail: fmt.Sprintf("%s: publisher received %v, expected %v", where, gotAcks[j], expAcks[j])}
			}
		}
		srx, err := S.Barrier()
		if err != nil {
			return c02result{Fail: fmt.Sprintf("%s: subscriber barrier failed: %v (stream error: %v)", where, err, S.StreamErr())}
		}
		var fwd []*codec.Packet
		for _, r := range srx {
			if r.P.Type == codec.PUBLISH {
				fwd = append(fwd, r.P)
			}
		}
		if len(fwd) != len(expFwd) {
			desc := "nothing"
			if len(expFwd) > 0 {
				desc = fmt.Sprintf("exactly %q (%d bytes)", expFwd[0].topic, len(expFwd[0].payload))
			}
			got := []string{}
			for _, f := range fwd {
				got = append(got, fmt.Sprintf("%q(%d bytes, qos %d)", f.Topic, len(f.Payload), f.QoS))
			}
			return c02result{Fail: fmt.Sprintf("%s: %d message(s) handed on to the subscriber %v, expected %s (open exchanges: %d)", where, len(fwd), got, desc, len(open))}
		}
		for j, w := range expFwd {
			f := fwd[j]
			if string(f.Topic) != w.topic || !bytes.Equal(f.Payload, w.payload) {
				return c02result{Fail: fmt.Sprintf("%s: handed on topic %q with %d bytes (first difference to the original PUBLISH at %d), expected the original %q with %d bytes", where, f.Topic, len(f.Payload), firstDiff(f.Payload, w.payload), w.topic, len(w.payload))}
			}
			if f.QoS != w.qos {
				return c02result{Fail: fmt.Sprintf("%s: handed on at QoS %d, expected %d", where, f.QoS, w.qos)}
			}
			if f.Dup {
				return c02result{Fail: fmt.Sprintf("%s: handed on with the DUP flag set although it is the broker's first delivery to the subscriber (the flag of the incoming PUBLISH was propagated)", where)}
			}
		}
		if len(open) >= 2 {
			cls["two-exchanges-open"] = true
		}
		if len(open) > 16 {
			cls[">16-exchanges-open"] = true
		}
	}
	for _, x := range b.Escaped() {
		return c02result{Fail: x}
	}
	return
}

func genC02(t *rapid.T) C02Case {
	var c C02Case
	ids := []uint16{1, 2, 3, 7}
	n := rapid.IntRange(3, 24).Draw(t, "nops")
	if rapid.IntRange(0, 5).Draw(t, "bulk") == 0 {
		// many exchanges open at once (the receiver's queue of 16 has to grow), after some completed ones
		for i, k := 0, rapid.IntRange(0, 5).Draw(t, "completed-before"); i < k; i++ {
			c.Ops = append(c.Ops, C02Op{K: "pub2", ID: uint16(100 + i), Size: 10}, C02Op{K: "rel"})
		}
		for i, k := 0, rapid.IntRange(15, 40).Draw(t, "bulk-open"); i < k; i++ {
			c.Ops = append(c.Ops, C02Op{K: "pub2", ID: uint16(200 + i), Size: rapid.SampledFrom([]int{0, 10, 100}).Draw(t, "bsize")})
		}
		for i, k := 0, rapid.IntRange(10, 45).Draw(t, "bulk-rel"); i < k; i++ {
			c.Ops = append(c.Ops, C02Op{K: "rel"})
		}
	}
	for i := 0; i < n; i++ {
		id := rapid.SampledFrom(ids).Draw(t, "id")
		size := rapid.SampledFrom([]int{0, 1, 10, 100, 3000, 8100}).Draw(t, "size")
		switch k := rapid.IntRange(0, 11).Draw(t, "k"); {
		case k < 2:
			c.Ops = append(c.Ops, C02Op{K: "pub1", ID: id, Size: size, Sys: rapid.IntRange(0, 7).Draw(t, "sys") == 0})
		case k < 6:
			c.Ops = append(c.Ops, C02Op{K: "pub2", ID: id, Size: size, Dup: rapid.IntRange(0, 4).Draw(t, "firstdup") == 0, Sys: rapid.IntRange(0, 9).Draw(t, "sys") == 0})
		case k < 9:
			c.Ops = append(c.Ops, C02Op{K: "rel"})
		case k == 9 && rapid.Bool().Draw(t, "stray"):
			c.Ops = append(c.Ops, C02Op{K: "stray", ID: id, Size: rapid.IntRange(0, 2).Draw(t, "straykind")})
		case k == 9:
			c.Ops = append(c.Ops, C02Op{K: "duprel", ID: id})
		case k == 10 && rapid.IntRange(0, 2).Draw(t, "jam") == 0:
			c.Ops = append(c.Ops, C02Op{K: "jam"})
		case k == 10:
			c.Ops = append(c.Ops, C02Op{K: "filler", Volume: rapid.SampledFrom([]int{8000, 20000, 50000}).Draw(t, "vol")})
		case k == 11 && rapid.Bool().Draw(t, "reconnect"):
			c.Ops = append(c.Ops, C02Op{K: rapid.SampledFrom([]string{"reconnect", "lasteof"}).Draw(t, "how"), ID: id, Size: size})
		default:
			c.Ops = append(c.Ops, C02Op{K: "ping"})
		}
	}
	c.Transport = genTransport(t)
	return c
}

func TestC02Broker(t *testing.T) {
	rec := ev.New("C02", "broker-role")
	defer rec.Flush()
	if rp := ev.LoadReplay(t, "broker-role"); rp != nil {
		var c C02Case
		json.Unmarshal(rp.Case, &c)
		if r := runC02(c); r.Fail != "" {
			p := rec.Violation("-", "script", r.Fail, c, nil)
			rec.Flush()
			t.Fatalf("VIOLATION %s replay=%s", r.Fail, p)
		}
		return
	} else if ev.Replaying() {
		t.Skip()
	}
	rapid.Check(t, func(t *rapid.T) {
		c := genC02(t)
		r := runC02(c)
		nt := false
		for _, cl := range r.Classes {
			if cl == "dup-publish-before-pubrel" || cl == "duplicate-pubrel-after-pubcomp" || cl == "ring-of-filler-between-publish-and-pubrel" || cl == "reconnect-with-open-exchanges" {
				nt = true
			}
		}
		rec.Case(c, nt, r.Classes...)
		if r.Fail != "" {
			p := rec.Violation("-", "script", r.Fail, c, nil)
			t.Fatalf("VIOLATION %s replay=%s", r.Fail, p)
		}
	})
}
