package p_broker

import (
	"bytes"
	"encoding/json"
	"fmt"
	"sort"
	"sync"
	"sync/atomic"
	"testing"

	"pgregory.net/rapid"
	"verifharness/ev"
	"verifharness/fix"
	"verifharness/ref/codec"
	"verifharness/ref/match"
	"verifharness/wire"
)

// C01, concurrent mode: every client runs its own operation list in its own
// goroutine. Interval oracle (DESIGN 3.3): a subscription is DEFINITELY held
// for a publish if its SUBACK was received before the PUBLISH was sent and its
// UNSUBSCRIBE was sent after the publisher's barrier returned; DEFINITELY NOT
// held if its UNSUBACK was received before the PUBLISH was sent or its
// SUBSCRIBE was sent after the publisher's barrier returned; otherwise either
// outcome is accepted.

type COp struct {
	K      string `json:"k"` // sub unsub pub reconn (End: 0 cut, 1 DISCONNECT then cut; the client goes on as a new client with a new identifier)
	End    int    `json:"end,omitempty"`
	Filter string `json:"filter,omitempty"`
	QoS    byte   `json:"qos"`
	Topic  string `json:"topic,omitempty"`
	Size   int    `json:"size,omitempty"`
}

type ConcPlan struct {
	Transport
	BufSize int     `json:"bufsize"`
	Clients [][]COp `json:"clients"`
}

type subRec struct {
	filter                       string
	qos                          byte
	sent, acked, unsent, unacked int64 // logical times; unsent/unacked = max until unsubscribed
}

type pubRec struct {
	by         int
	topic      string
	qos        byte
	msgno      int
	payload    []byte
	sent, done int64
}

const never = int64(1) << 62

func runConc(p ConcPlan) (fail string, classes []string) {
	b, err := fix.New(int64(p.BufSize), "")
	if err != nil {
		return "fixture: " + err.Error(), nil
	}
	p.Transport.apply(b)
	defer b.Shutdown()
	var clock atomic.Int64
	tick := func() int64 { return clock.Add(1) }
	n := len(p.Clients)
	conns := make([]*fix.Conn, n)
	type got struct {
		msgno   int
		topic   string
		qos     byte
		payload []byte
	}
	recv := make([][]got, n)
	var rmu sync.Mutex
	subs := make([][]*subRec, n)
	var pubs []*pubRec
	var pmu sync.Mutex
	var msgno atomic.Int64
	closed := make([]bool, n)
	dial := func(i int, name string) (*fix.Conn, error) {
		cn := b.Dial(name)
		cn.OnPacket = func(pk *codec.Packet, off int64) bool {
			if pk.Type != codec.PUBLISH {
				return false
			}
			no := -1
			if len(pk.Payload) >= 4 {
				no = int(pk.Payload[0])<<24 | int(pk.Payload[1])<<16 | int(pk.Payload[2])<<8 | int(pk.Payload[3])
			}
			rmu.Lock()
			recv[i] = append(recv[i], got{no, string(pk.Topic), pk.QoS, pk.Payload})
			rmu.Unlock()
			return true
		}
		if _, err := cn.Connect(wire.ConnectPacket(name, true, 120)); err != nil {
			return nil, err
		}
		return cn, nil
	}
	for i := range conns {
		cn, err := dial(i, fmt.Sprintf("cc%d", i))
		if err != nil {
			return "connect: " + err.Error(), nil
		}
		conns[i] = cn
	}
	fails := make([]string, n)
	var wg sync.WaitGroup
	for i, ops := range p.Clients {
		wg.Add(1)
		go func(i int, ops []COp) {
			defer wg.Done()
			cn := conns[i]
			vi := i // index of the current connection's records (a reconnect opens a new one)
			pid := uint16(0)
			next := func() uint16 {
				pid++
				if pid == 0 {
					pid = 1
				}
				return pid
			}
			for oi, op := range ops {
				where := fmt.Sprintf("client %d op %d (%s)", i, oi, op.K)
				switch op.K {
				case "sub":
					id := next()
					r := &subRec{filter: op.Filter, qos: op.QoS, sent: tick(), acked: never, unsent: never, unacked: never}
					rmu.Lock()
					subs[vi] = append(subs[vi], r)
					rmu.Unlock()
					cn.Send(&codec.Packet{Type: codec.SUBSCRIBE, PacketID: id, Topics: [][]byte{[]byte(op.Filter)}, QoSs: []byte{op.QoS}})
					a, err := cn.Take(func(p *codec.Packet) bool { return p.Type == codec.SUBACK && p.PacketID == id }, wire.DefaultWait)
					if err != nil || len(a.ReturnCodes) != 1 || a.ReturnCodes[0] != op.QoS {
						fails[i] = fmt.Sprintf("%s: SUBSCRIBE %q at QoS %d answered by %v (%v)", where, op.Filter, op.QoS, a, err)
						return
					}
					rmu.Lock()
					r.acked = tick()
					rmu.Unlock()
				case "unsub":
					id := next()
					t := tick()
					rmu.Lock()
					var mine []*subRec
					for _, r := range subs[vi] {
						if r.filter == op.Filter && r.unsent == never {
							r.unsent = t
							mine = append(mine, r)
						}
					}
					rmu.Unlock()
					cn.Send(&codec.Packet{Type: codec.UNSUBSCRIBE, PacketID: id, Topics: [][]byte{[]byte(op.Filter)}})
					if _, err := cn.Take(func(p *codec.Packet) bool { return p.Type == codec.UNSUBACK && p.PacketID == id }, wire.DefaultWait); err != nil {
						fails[i] = fmt.Sprintf("%s: UNSUBSCRIBE %q not acknowledged: %v", where, op.Filter, err)
						return
					}
					t2 := tick()
					rmu.Lock()
					for _, r := range mine {
						r.unacked = t2
					}
					rmu.Unlock()
				case "reconn":
					// the connection ends (its subscriptions with it); the client carries on under a
					// new identifier, so that the two connections share nothing by the statement
					t := tick()
					rmu.Lock()
					for _, r := range subs[vi] {
						if r.unsent == never {
							r.unsent = t
						}
					}
					rmu.Unlock()
					// what was fanned out to this connection before t may still be in its outgoing
					// buffer: the receiver's own barrier brings it in before the connection is cut
					if _, err := cn.Barrier(); err != nil {
						fails[i] = fmt.Sprintf("%s: barrier before the end of the connection: %v (stream %v)", where, err, cn.StreamErr())
						return
					}
					if op.End == 1 {
						cn.Send(&codec.Packet{Type: codec.DISCONNECT})
					}
					cn.Close()
					rmu.Lock()
					closed[vi] = true
					vi = len(recv)
					recv = append(recv, nil)
					subs = append(subs, nil)
					closed = append(closed, false)
					conns = append(conns, nil)
					rmu.Unlock()
					nc, err := dial(vi, fmt.Sprintf("cc%d-%d", i, vi))
					if err != nil {
						fails[i] = fmt.Sprintf("%s: the new connection was not accepted: %v", where, err)
						return
					}
					rmu.Lock()
					conns[vi] = nc
					rmu.Unlock()
					cn = nc
					pid = 0
				case "pub":
					no := int(msgno.Add(1))
					pl := payload(no, op.Size)
					pr := &pubRec{by: i, topic: op.Topic, qos: op.QoS, msgno: no, payload: pl, sent: tick(), done: never}
					pmu.Lock()
					pubs = append(pubs, pr)
					pmu.Unlock()
					pp := &codec.Packet{Type: codec.PUBLISH, Topic: []byte(op.Topic), QoS: op.QoS, Payload: pl}
					if op.QoS > 0 {
						pp.PacketID = next()
					}
					cn.Send(pp)
					switch op.QoS {
					case 1:
						if _, err := cn.Take(func(p *codec.Packet) bool { return p.Type == codec.PUBACK && p.PacketID == pp.PacketID }, wire.DefaultWait); err != nil {
							fails[i] = fmt.Sprintf("%s: no PUBACK: %v", where, err)
							return
						}
					case 2:
						if _, err := cn.Take(func(p *codec.Packet) bool { return p.Type == codec.PUBREC && p.PacketID == pp.PacketID }, wire.DefaultWait); err != nil {
							fails[i] = fmt.Sprintf("%s: no PUBREC: %v", where, err)
							return
						}
						cn.Send(&codec.Packet{Type: codec.PUBREL, PacketID: pp.PacketID})
						if _, err := cn.Take(func(p *codec.Packet) bool { return p.Type == codec.PUBCOMP && p.PacketID == pp.PacketID }, wire.DefaultWait); err != nil {
							fails[i] = fmt.Sprintf("%s: no PUBCOMP: %v", where, err)
							return
						}
					}
					if _, err := cn.Barrier(); err != nil {
						fails[i] = fmt.Sprintf("%s: publisher barrier: %v (stream %v)", where, err, cn.StreamErr())
						return
					}
					pmu.Lock()
					pr.done = tick()
					pmu.Unlock()
				}
			}
		}(i, ops)
	}
	wg.Wait()
	for _, f := range fails {
		if f != "" {
			return f, nil
		}
	}
	// every publisher's barrier has returned: all fan-outs are committed; cut every client
	for i, cn := range conns {
		if closed[i] || cn == nil {
			continue
		}
		if _, err := cn.Barrier(); err != nil {
			return fmt.Sprintf("client %d final barrier: %v (stream %v)", i, err, cn.StreamErr()), nil
		}
	}
	cls := map[string]bool{}
	rmu.Lock()
	defer rmu.Unlock()
	for i := range conns {
		if conns[i] == nil {
			continue
		}
		if closed[i] {
			cls["connection-ended-mid-plan"] = true
		}
		per := map[int][]got{}
		for _, g := range recv[i] {
			per[g.msgno] = append(per[g.msgno], g)
		}
		known := map[int]*pubRec{}
		for _, pr := range pubs {
			known[pr.msgno] = pr
		}
		for no := range per {
			if known[no] == nil {
				return fmt.Sprintf("client %d received a PUBLISH that is none of the published messages (first bytes say #%d)", i, no), nil
			}
		}
		for _, pr := range pubs {
			var defQ, mayQ []byte
			for _, r := range subs[i] {
				if !match.Matches(r.filter, pr.topic) {
					continue
				}
				q := pr.qos
				if r.qos < q {
					q = r.qos
				}
				switch {
				case r.acked < pr.sent && r.unsent > pr.done:
					defQ = append(defQ, q)
				case r.unacked < pr.sent || r.sent > pr.done:
					// definitely not held
				default:
					mayQ = append(mayQ, q)
				}
			}
			var gq []byte
			for _, g := range per[pr.msgno] {
				if g.topic != pr.topic || !bytes.Equal(g.payload, pr.payload) {
					return fmt.Sprintf("client %d received message #%d with topic %q / %d bytes instead of %q / %d bytes", i, pr.msgno, g.topic, len(g.payload), pr.topic, len(pr.payload)), nil
				}
				gq = append(gq, g.qos)
			}
			all := append(append([]byte(nil), defQ...), mayQ...)
			sort.Slice(all, func(a, b int) bool { return all[a] < all[b] })
			lo := 0
			if len(defQ) > 0 {
				lo = 1
			}
			if len(gq) < lo || len(gq) > len(all) || !subMultiset(gq, all) {
				return fmt.Sprintf("client %d received %d copies of message #%d (topic %q, QoS %d, published by client %d) at QoS %v; subscriptions definitely held allow %v, possibly held (overlapping in time) %v", i, len(gq), pr.msgno, pr.topic, pr.qos, pr.by, gq, defQ, mayQ), nil
			}
			if len(defQ) > 0 {
				cls["definite-recipient"] = true
			}
			if len(mayQ) > 0 {
				cls["publish-overlaps-subscription-change"] = true
			}
			if len(defQ) == 0 && len(mayQ) == 0 && len(subs[i]) > 0 {
				cls["definite-non-recipient"] = true
			}
		}
		if !closed[i] {
			if se := conns[i].StreamErr(); se != nil {
				return fmt.Sprintf("client %d received a malformed stream: %v", i, se), nil
			}
		}
	}
	for _, x := range b.Escaped() {
		return x, nil
	}
	for k := range cls {
		classes = append(classes, k)
	}
	sort.Strings(classes)
	return "", classes
}

func genConc(t *rapid.T) ConcPlan {
	p := ConcPlan{BufSize: rapid.SampledFrom([]int{16384, 32768}).Draw(t, "bufsize")}
	filters := []string{"a", "b", "a/b", "a/#", "+", "a/+", "#", "+/b", "cc"}
	topics := []string{"a", "b", "a/b", "cc", "a/cc", "b/b"}
	churn := rapid.IntRange(0, 1).Draw(t, "churn") == 1
	for i, n := 0, rapid.IntRange(2, 5).Draw(t, "nclients"); i < n; i++ {
		var ops []COp
		for j, m := 0, rapid.IntRange(4, 25).Draw(t, "nops"); j < m; j++ {
			switch k := rapid.IntRange(0, 9).Draw(t, "k"); {
			case k < 3:
				ops = append(ops, COp{K: "sub", Filter: rapid.SampledFrom(filters).Draw(t, "f"), QoS: byte(rapid.IntRange(0, 2).Draw(t, "q"))})
			case k < 5:
				if churn && rapid.IntRange(0, 3).Draw(t, "re") == 0 {
					ops = append(ops, COp{K: "reconn", End: rapid.IntRange(0, 1).Draw(t, "end")})
					break
				}
				ops = append(ops, COp{K: "unsub", Filter: rapid.SampledFrom(filters).Draw(t, "f")})
			default:
				ops = append(ops, COp{K: "pub", Topic: rapid.SampledFrom(topics).Draw(t, "t"), QoS: byte(rapid.IntRange(0, 2).Draw(t, "q")), Size: rapid.SampledFrom([]int{8, 30, 500, 4000}).Draw(t, "s")})
			}
		}
		p.Clients = append(p.Clients, ops)
	}
	p.Transport = genTransport(t)
	return p
}

func TestC01Concurrent(t *testing.T) {
	rec := ev.New("C01", "concurrent")
	defer rec.Flush()
	if rp := ev.LoadReplay(t, "concurrent"); rp != nil {
		var p ConcPlan
		json.Unmarshal(rp.Case, &p)
		for i := 0; i < 20; i++ {
			if f, _ := runConc(p); f != "" {
				path := rec.Violation("-", "plan", f, p, nil)
				rec.Flush()
				t.Fatalf("VIOLATION %s replay=%s", f, path)
			}
		}
		return
	} else if ev.Replaying() {
		t.Skip()
	}
	rapid.Check(t, func(t *rapid.T) {
		p := genConc(t)
		f, cls := runConc(p)
		nt := false
		d, o := false, false
		for _, c := range cls {
			d = d || c == "definite-recipient"
			o = o || c == "publish-overlaps-subscription-change"
		}
		nt = d && o
		rec.Case(p, nt, cls...)
		if f != "" {
			path := rec.Violation("-", "plan", f, p, nil)
			t.Fatalf("VIOLATION %s replay=%s", f, path)
		}
	})
}
