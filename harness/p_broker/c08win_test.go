package p_broker

import (
	"bytes"
	"encoding/json"
	"fmt"
	"sync/atomic"
	"testing"
	"time"

	"pgregory.net/rapid"
	"verifharness/ev"
	"verifharness/fix"
	"verifharness/ref/codec"
	"verifharness/wire"
)

// C08, unit "update-windows": a retained update (replacement or clear) is
// accepted while something else is half done.
//
// Window "subscribe": a subscriber's SUBSCRIBE for a matching filter is in
// progress - its processor is held at one of the calls it makes into the
// topics provider (before / after Subscribe, before / after Retained; the
// provider gate). Whatever the order of the two events is taken to be, the
// new subscription learns the new version: as a retained copy or as a live
// forward. Every copy it gets with the retain flag set is byte for byte a
// version that was stored at some moment since the SUBSCRIBE was sent.
//
// Window "teardown": a subscriber holding a matching subscription is going
// down - one of its connection's goroutines is held inside the closing of its
// buffers (yield Close.after-done), so that forwarding to it fails or hangs in
// mid-air while it is still subscribed.
//
// In both windows the update was accepted (the publisher's barrier has
// returned), so a fresh subscription made afterwards receives exactly the
// state after the update: the new version with the retain flag, QoS
// min(stored, granted), or nothing after a clear.

type UWCase struct {
	Transport
	Window string `json:"window"`  // subscribe | isubscribe (Server.Subscribe of an in-process callback) | teardown
	ParkAt int    `json:"park_at"` // which of the provider calls / closing steps is held
	Filter string `json:"filter"`  // the subscriber's filter (matches the topic)
	V1QoS  byte   `json:"v1qos"`
	V2QoS  byte   `json:"v2qos"`
	V2Size int    `json:"v2size"` // 0: the update clears the retained message
	SubQoS byte   `json:"subqos"`
	ViaAPI bool   `json:"via_api,omitempty"` // the update is published through Server.Publish
}

func runUW(c UWCase) (fail, incon string, classes []string) {
	b, err := fix.New(16384, "")
	if err != nil {
		return "", "fixture: " + err.Error(), nil
	}
	c.Transport.apply(b)
	defer b.Shutdown()
	defer b.SetGate(nil)
	defer fix.SetYield(nil)
	const topic = "rw/t/x"
	P := b.Dial("P")
	if _, err := P.Connect(wire.ConnectPacket("p", true, 300)); err != nil {
		return "", "connect: " + err.Error(), nil
	}
	v1, v2 := payload(1, 40), payload(2, c.V2Size)
	pub := func(pl []byte, q byte, id uint16) error {
		if c.ViaAPI && id == 2 {
			return serverPublishRetained(b, topic, pl, q)
		}
		P.Send(&codec.Packet{Type: codec.PUBLISH, QoS: q, Retain: true, PacketID: id, Topic: []byte(topic), Payload: pl})
		_, err := P.Barrier()
		return err
	}
	if q := c.V1QoS; q == 2 {
		c.V1QoS = 1 // a QoS 2 publish is stored at PUBREL; one exchange more adds nothing here
	}
	if c.V2QoS == 2 && !c.ViaAPI {
		c.V2QoS = 1
	}
	if err := pub(v1, c.V1QoS, 1); err != nil {
		return "", "first retained publish: " + err.Error(), nil
	}
	S := b.Dial("S")
	if _, err := S.Connect(wire.ConnectPacket("s", true, 300)); err != nil {
		return "", "connect: " + err.Error(), nil
	}
	var trapped atomic.Bool
	var calls atomic.Int32
	release := make(chan struct{})
	released := false
	rel := func() {
		if !released {
			released = true
			close(release)
		}
	}
	defer rel()
	ip := newChurnInproc()
	ipDone := make(chan error, 1)
	switch c.Window {
	case "isubscribe":
		b.SetGate(func(m, phase, tp string) {
			if (m != "Subscribe" && m != "Retained") || tp != c.Filter {
				return
			}
			if int(calls.Add(1))-1 == c.ParkAt && trapped.CompareAndSwap(false, true) {
				<-release
			}
		})
		go func() { ipDone <- b.Srv.Subscribe(c.Filter, c.SubQoS, &ip.fn) }()
	case "subscribe":
		b.SetGate(func(m, phase, tp string) {
			if (m != "Subscribe" && m != "Retained") || tp != c.Filter {
				return
			}
			if int(calls.Add(1))-1 == c.ParkAt && trapped.CompareAndSwap(false, true) {
				<-release
			}
		})
		S.Send(&codec.Packet{Type: codec.SUBSCRIBE, PacketID: 7, Topics: [][]byte{[]byte(c.Filter)}, QoSs: []byte{c.SubQoS}})
	case "teardown":
		S.Send(&codec.Packet{Type: codec.SUBSCRIBE, PacketID: 7, Topics: [][]byte{[]byte(c.Filter)}, QoSs: []byte{c.SubQoS}})
		rx, err := S.Barrier()
		if err != nil {
			return "", "subscriber barrier: " + err.Error(), nil
		}
		if pubs, _ := pubsOf(rx); len(pubs) != 1 || !bytes.Equal(pubs[0].Payload, v1) || !pubs[0].Retain {
			return fmt.Sprintf("a new subscription to %q received %d retained messages for the one stored on %q", c.Filter, len(pubs), topic), "", nil
		}
		fix.SetYield(func(pt string, obj interface{}) {
			if pt != "Close.after-done" {
				return
			}
			if int(calls.Add(1))-1 == c.ParkAt && trapped.CompareAndSwap(false, true) {
				<-release
			}
		})
		S.Close()
	}
	// (the provider calls of a SUBSCRIBE and the closing steps of a teardown follow within microseconds)
	for i := 0; i < 1200 && !trapped.Load(); i++ {
		time.Sleep(250 * time.Microsecond)
	}
	if !trapped.Load() {
		// fewer provider calls / closing steps than ParkAt: nothing was held, nothing to judge
		rel()
		return "", "", []string{"window-not-reached"}
	}
	classes = append(classes, "update-inside-window:"+c.Window)
	// the update, accepted while the other side is half done
	upd := make(chan error, 1)
	go func() { upd <- pub(v2, c.V2QoS, 2) }()
	var uerr error
	select {
	case uerr = <-upd:
	case <-time.After(1500 * time.Millisecond):
		// the publisher is held up by the one we are holding (a delivery to it cannot be
		// completed): let go, the update completes afterwards
		classes = append(classes, "update-held-up-by-the-window")
		rel()
		select {
		case uerr = <-upd:
		case <-time.After(wire.DefaultWait):
			return "", "the retained update did not complete", classes
		}
	}
	rel()
	if uerr != nil {
		return fmt.Sprintf("the publisher of the retained update lost its connection: %v", uerr), "", classes
	}
	minq := func(a, b byte) byte {
		if a < b {
			return a
		}
		return b
	}
	if c.Window == "isubscribe" {
		select {
		case err := <-ipDone:
			if err != nil {
				return fmt.Sprintf("Server.Subscribe(%q) returned %v", c.Filter, err), "", classes
			}
		case <-time.After(wire.DefaultWait):
			return "", "Server.Subscribe did not return", classes
		}
		sawV2 := false
		got := ip.take()
		for _, d := range got {
			isV1, isV2 := bytes.Equal(d.payload, v1), bytes.Equal(d.payload, v2)
			if d.topic != topic || (!isV1 && !isV2) {
				return fmt.Sprintf("the in-process subscriber received a message on %q with %d bytes that is neither version of the retained message", d.topic, len(d.payload)), "", classes
			}
			sawV2 = sawV2 || (isV2 && len(v2) > 0)
		}
		if len(v2) > 0 && !sawV2 {
			return fmt.Sprintf("Server.Subscribe(%q) and a retained update of %q (accepted while the call was in progress, held at provider call %d): the callback received %d message(s) but never the new version, neither as retained copy nor as live forward", c.Filter, topic, c.ParkAt, len(got)), "", classes
		}
		b.Srv.Unsubscribe(c.Filter, &ip.fn)
	} else if c.Window == "subscribe" {
		if _, err := S.Take(func(p *codec.Packet) bool { return p.Type == codec.SUBACK && p.PacketID == 7 }, wire.DefaultWait); err != nil {
			return fmt.Sprintf("no SUBACK for %q: %v", c.Filter, err), "", classes
		}
		rx, err := S.Barrier()
		if err != nil {
			return "subscriber: " + err.Error(), "", classes
		}
		pubs, _ := pubsOf(rx)
		sawV2 := false
		for _, p := range pubs {
			isV1, isV2 := bytes.Equal(p.Payload, v1), bytes.Equal(p.Payload, v2)
			if string(p.Topic) != topic || (!isV1 && !isV2) {
				return fmt.Sprintf("the subscriber received a PUBLISH on %q with %d bytes that is neither version of the retained message", p.Topic, len(p.Payload)), "", classes
			}
			sawV2 = sawV2 || (isV2 && len(v2) > 0)
			if p.Retain && len(p.Payload) == 0 {
				return "the subscriber received an empty message with the retain flag set", "", classes
			}
		}
		if len(v2) > 0 && !sawV2 {
			return fmt.Sprintf("SUBSCRIBE %q and a retained update of %q (accepted while the SUBSCRIBE was in progress, held at provider call %d) : the subscriber received %d message(s) but never the new version, neither as retained copy nor as live forward", c.Filter, topic, c.ParkAt, len(pubs)), "", classes
		}
	} else if !S.WaitTeardown(wire.DefaultWait) {
		return "", "teardown of the held subscriber did not finish", classes
	}
	// a fresh subscription sees exactly the state after the update
	F := b.Dial("F")
	if _, err := F.Connect(wire.ConnectPacket("f", true, 300)); err != nil {
		return "", "connect: " + err.Error(), classes
	}
	F.Send(&codec.Packet{Type: codec.SUBSCRIBE, PacketID: 9, Topics: [][]byte{[]byte("rw/#")}, QoSs: []byte{2}})
	rx, err := F.Barrier()
	if err != nil {
		return "fresh subscriber: " + err.Error(), "", classes
	}
	pubs, _ := pubsOf(rx)
	what := fmt.Sprintf("a retained update of %q (%d bytes, QoS %d) was accepted while %s; a fresh subscription to \"rw/#\" afterwards", topic, len(v2), c.V2QoS, map[string]string{"subscribe": "a SUBSCRIBE for a matching filter was in progress", "isubscribe": "a Server.Subscribe call for a matching filter was in progress", "teardown": "a matching subscriber's connection was going down"}[c.Window])
	if len(v2) == 0 {
		if len(pubs) != 0 {
			return fmt.Sprintf("%s received %d retained message(s) although the update cleared the topic (first: %d bytes)", what, len(pubs), len(pubs[0].Payload)), "", classes
		}
		return "", "", classes
	}
	if len(pubs) != 1 || !bytes.Equal(pubs[0].Payload, v2) || !pubs[0].Retain || pubs[0].QoS != minq(c.V2QoS, 2) {
		got := "nothing"
		if len(pubs) > 0 {
			got = fmt.Sprintf("%d message(s), the first with %d bytes (version 1: %v), retain=%v, QoS %d", len(pubs), len(pubs[0].Payload), bytes.Equal(pubs[0].Payload, v1), pubs[0].Retain, pubs[0].QoS)
		}
		return fmt.Sprintf("%s received %s; expected the new version once, retain flag set, QoS %d", what, got, c.V2QoS), "", classes
	}
	for _, x := range b.Escaped() {
		return x, "", classes
	}
	return "", "", classes
}

func genUW(t *rapid.T) UWCase {
	c := UWCase{Window: rapid.SampledFrom([]string{"subscribe", "subscribe", "teardown", "isubscribe"}).Draw(t, "window"),
		Filter: rapid.SampledFrom([]string{"rw/t/x", "rw/+/x", "rw/#", "#", "rw/t/+"}).Draw(t, "filter"),
		V1QoS:  byte(rapid.IntRange(0, 1).Draw(t, "v1q")), V2QoS: byte(rapid.IntRange(0, 2).Draw(t, "v2q")),
		V2Size: rapid.SampledFrom([]int{0, 5, 5, 300, 3000}).Draw(t, "v2size"), SubQoS: byte(rapid.IntRange(0, 2).Draw(t, "subq")),
		ViaAPI: rapid.IntRange(0, 3).Draw(t, "viaapi") == 0}
	if c.Window == "subscribe" || c.Window == "isubscribe" {
		c.ParkAt = rapid.IntRange(0, 3).Draw(t, "parkat")
	} else {
		c.ParkAt = rapid.IntRange(0, 3).Draw(t, "parkat")
	}
	c.Transport = genTransport(t)
	return c
}

func TestC08Windows(t *testing.T) {
	rec := ev.New("C08", "update-windows")
	defer rec.Flush()
	if rp := ev.LoadReplay(t, "update-windows"); rp != nil {
		var c UWCase
		json.Unmarshal(rp.Case, &c)
		for i := 0; i < 5; i++ {
			if f, _, _ := runUW(c); f != "" {
				p := rec.Violation("-", "schedule", f, c, nil)
				rec.Flush()
				t.Fatalf("VIOLATION %s replay=%s", f, p)
			}
		}
		return
	} else if ev.Replaying() {
		t.Skip()
	}
	rapid.Check(t, func(t *rapid.T) {
		c := genUW(t)
		f, incon, cls := runUW(c)
		if incon != "" {
			rec.Inconclusive()
			rec.Class("inconclusive: "+incon, 1)
		}
		rec.Case(c, incon == "", cls...)
		if f != "" {
			p := rec.Violation("-", "schedule", f, c, nil)
			t.Fatalf("VIOLATION %s replay=%s", f, p)
		}
	})
}
