package p_broker

import (
	"encoding/json"
	"fmt"
	"sync"
	"testing"
	"time"

	"github.com/mdzio/go-mqtt/message"
	"pgregory.net/rapid"
	"verifharness/ev"
	"verifharness/fix"
	"verifharness/ref/codec"
	"verifharness/wire"
)

// C14, unit "service-rings": the rings as the connection engine uses them.
// Several connections deliver into ONE subscriber's outgoing ring (the engine
// has to make them one producer) while the subscriber reads a little, stops
// reading until the deliverers are stuck on the full ring, and then reads
// everything. What it reads must be the concatenation of whole packets that
// were delivered: every publisher's messages complete, intact and in order -
// nothing lost, duplicated, overwritten or torn, wherever the ring wrapped.

type SRCase struct {
	Transport
	BufSize    int     `json:"bufsize"`
	Publishers [][]int `json:"publishers"` // payload sizes per publisher (QoS 0)
	ReadFirst  int     `json:"read_first"` // the subscriber reads about this many bytes before it stops
	Inproc     int     `json:"inproc"`     // this many of the publishers call Server.Publish instead of using a connection
}

func runSvcRings(c SRCase) (fail, incon string, classes []string) {
	b, err := fix.New(int64(c.BufSize), "")
	if err != nil {
		return "fixture: " + err.Error(), "", nil
	}
	c.Transport.apply(b)
	defer b.Shutdown()
	S := b.Dial("S")
	type got struct {
		pub, seq int
		ok       bool
	}
	var mu sync.Mutex
	var rx []got
	var bytesRead int
	stalledAt := -1
	released := false // set when the harness resumes reading for good: no stall after that
	S.OnPacket = func(p *codec.Packet, off int64) bool {
		if p.Type != codec.PUBLISH {
			return false
		}
		var pub, seq int
		fmt.Sscanf(string(p.Topic), "sr/%d", &pub)
		if len(p.Payload) >= 8 {
			seq = int(p.Payload[0])<<8 | int(p.Payload[1])
		}
		ok := len(p.Payload) >= 8
		for i := 2; ok && i < len(p.Payload); i++ {
			ok = p.Payload[i] == byte(pub*31+seq*7+i)
		}
		mu.Lock()
		rx = append(rx, got{pub, seq, ok})
		bytesRead += len(p.Payload)
		if stalledAt < 0 && !released && bytesRead >= c.ReadFirst {
			stalledAt = len(rx)
			S.StallFromCallback()
		}
		mu.Unlock()
		return true
	}
	if _, err := S.Connect(wire.ConnectPacket("sr", true, 300)); err != nil {
		return "connect: " + err.Error(), "", nil
	}
	S.Send(&codec.Packet{Type: codec.SUBSCRIBE, PacketID: 1, Topics: [][]byte{[]byte("sr/#")}, QoSs: []byte{0}})
	if _, err := S.Barrier(); err != nil {
		return "barrier: " + err.Error(), "", nil
	}
	build := func(pub, seq, size int) []byte {
		if size < 8 {
			size = 8
		}
		pl := make([]byte, size)
		pl[0], pl[1] = byte(seq>>8), byte(seq)
		for i := 2; i < size; i++ {
			pl[i] = byte(pub*31 + seq*7 + i)
		}
		return pl
	}
	total := 0
	var wg sync.WaitGroup
	conns := make([]*fix.Conn, len(c.Publishers))
	for pi, sizes := range c.Publishers {
		for _, sz := range sizes {
			total += sz + 12
		}
		if pi < c.Inproc {
			continue
		}
		cn := b.Dial(fmt.Sprintf("P%d", pi))
		if _, err := cn.Connect(wire.ConnectPacket(fmt.Sprintf("srp%d", pi), true, 300)); err != nil {
			return "publisher connect: " + err.Error(), "", nil
		}
		conns[pi] = cn
	}
	for pi, sizes := range c.Publishers {
		pi, sizes := pi, sizes
		if pi < c.Inproc {
			wg.Add(1)
			go func() {
				defer wg.Done()
				for seq, sz := range sizes {
					m := newPublish(fmt.Sprintf("sr/%d", pi), build(pi, seq, sz))
					b.Srv.Publish(m)
				}
			}()
			continue
		}
		var out []byte
		for seq, sz := range sizes {
			out = append(out, codec.Encode(&codec.Packet{Type: codec.PUBLISH, Topic: []byte(fmt.Sprintf("sr/%d", pi)), Payload: build(pi, seq, sz)})...)
		}
		conns[pi].SendAsync(out)
	}
	// let the deliverers run into the full ring (or finish), then read everything
	settled(400 * time.Millisecond)
	mu.Lock()
	if stalledAt >= 0 {
		classes = append(classes, "subscriber-stopped-reading")
	}
	released = true // on a slow machine the traffic may not have reached the stall point yet: it must not stall later
	mu.Unlock()
	if total > c.BufSize {
		classes = append(classes, "more-than-a-ring-delivered")
	}
	S.Unstall()
	done := make(chan struct{})
	go func() { wg.Wait(); close(done) }()
	select {
	case <-done:
	case <-time.After(wire.DefaultWait):
		return "an in-process publisher's Server.Publish did not return after the subscriber resumed reading", "", classes
	}
	for pi, cn := range conns {
		if cn == nil {
			continue
		}
		if _, err := cn.Barrier(); err != nil {
			return fmt.Sprintf("publisher %d: barrier failed after the subscriber resumed reading: %v", pi, err), "", classes
		}
	}
	if _, err := S.Barrier(); err != nil {
		return fmt.Sprintf("the subscriber's stream is broken: %v (stream error: %v)", err, S.StreamErr()), "", classes
	}
	mu.Lock()
	defer mu.Unlock()
	next := make([]int, len(c.Publishers))
	for i, g := range rx {
		if g.pub < 0 || g.pub >= len(next) {
			return fmt.Sprintf("delivery %d names publisher %d, which does not exist", i, g.pub), "", classes
		}
		if !g.ok {
			return fmt.Sprintf("delivery %d (publisher %d, message %d) has a corrupted payload", i, g.pub, g.seq), "", classes
		}
		if g.seq != next[g.pub] {
			return fmt.Sprintf("delivery %d: publisher %d's message %d arrived where its message %d was due (lost, duplicated or reordered)", i, g.pub, g.seq, next[g.pub]), "", classes
		}
		next[g.pub]++
	}
	for pi, sizes := range c.Publishers {
		if next[pi] != len(sizes) {
			return fmt.Sprintf("the subscriber received %d of publisher %d's %d messages", next[pi], pi, len(sizes)), "", classes
		}
	}
	for _, x := range b.Escaped() {
		return x, "", classes
	}
	return "", "", classes
}

func genSvcRings(t *rapid.T) SRCase {
	// buffer sizes that are not powers of two are legal settings (the rings round them up)
	c := SRCase{BufSize: rapid.SampledFrom([]int{16384, 16384, 20000, 24576, 40000}).Draw(t, "bufsize"), ReadFirst: rapid.SampledFrom([]int{0, 300, 3000, 9000}).Draw(t, "readfirst")}
	np := rapid.IntRange(2, 4).Draw(t, "npub")
	c.Inproc = rapid.IntRange(0, 1).Draw(t, "inproc")
	for p := 0; p < np; p++ {
		var sizes []int
		base := rapid.SampledFrom([]int{60, 100, 100, 350, 1000}).Draw(t, "base")
		for i, n := 0, rapid.IntRange(40, 300).Draw(t, "nmsgs"); i < n; i++ {
			sizes = append(sizes, base+rapid.IntRange(0, 9).Draw(t, "jitter"))
		}
		c.Publishers = append(c.Publishers, sizes)
	}
	c.Transport = genTransport(t)
	return c
}

func TestC14ServiceRings(t *testing.T) {
	rec := ev.New("C14", "service-rings")
	defer rec.Flush()
	if rp := ev.LoadReplay(t, "service-rings"); rp != nil {
		var c SRCase
		json.Unmarshal(rp.Case, &c)
		for i := 0; i < 5; i++ {
			if f, _, _ := runSvcRings(c); f != "" {
				p := rec.Violation("-", "schedule", f, c, nil)
				rec.Flush()
				t.Fatalf("VIOLATION %s replay=%s", f, p)
			}
		}
		return
	} else if ev.Replaying() {
		t.Skip()
	}
	rapid.Check(t, func(t *rapid.T) {
		c := genSvcRings(t)
		f, incon, cls := runSvcRings(c)
		if incon != "" {
			rec.Inconclusive()
		}
		nt := false
		for _, x := range cls {
			nt = nt || x == "subscriber-stopped-reading"
		}
		// samples would be long lists of sizes: keep a summary
		sum := map[string]interface{}{"bufsize": c.BufSize, "read_first": c.ReadFirst, "inproc": c.Inproc}
		var ns []int
		for _, p := range c.Publishers {
			ns = append(ns, len(p))
		}
		sum["messages_per_publisher"] = ns
		if len(c.Publishers) > 0 && len(c.Publishers[0]) > 0 {
			sum["first_size"] = c.Publishers[0][0]
		}
		rec.Case(sum, nt, cls...)
		if f != "" {
			p := rec.Violation("-", "schedule", f, c, nil)
			t.Fatalf("VIOLATION %s replay=%s", f, p)
		}
	})
}

func newPublish(topic string, payload []byte) *message.PublishMessage {
	m := message.NewPublishMessage()
	m.SetTopic([]byte(topic))
	m.SetPayload(payload)
	return m
}
