package p_broker

import (
	"bytes"
	"encoding/json"
	"fmt"
	"sort"
	"strings"
	"sync"
	"testing"
	"time"

	"github.com/mdzio/go-mqtt/message"
	"github.com/mdzio/go-mqtt/service"
	"pgregory.net/rapid"
	"verifharness/ev"
	"verifharness/fix"
	"verifharness/ref/codec"
	"verifharness/ref/match"
	"verifharness/wire"
)

// C01, unit "in-process": the embedding program's side of routing. Fixed
// subscriptions (raw clients and Server.Subscribe callbacks), then publishes
// from several goroutines calling Server.Publish at the same time, from raw
// clients, and from bridges: callbacks that republish what they receive under
// the prefix br/ by calling Server.Publish from inside the callback (a nested
// fan-out while the outer one is half done). Subscriptions do not change while
// messages flow, so the oracle is exact: every subscriber receives every
// message - original or bridged - once iff its filter matches, at
// min(publish QoS, granted QoS), byte for byte.

type IPSub struct {
	Filter string `json:"filter"`
	QoS    byte   `json:"qos"`
	Inproc bool   `json:"inproc,omitempty"`
	Bridge bool   `json:"bridge,omitempty"` // in-process only: republishes on br/<topic>
}

type IPPub struct {
	Topic string `json:"topic"`
	QoS   byte   `json:"qos"`
	Size  int    `json:"size"`
}

type IPCase struct {
	Transport
	Subs   []IPSub   `json:"subs"`
	Inproc [][]IPPub `json:"inproc"` // one list per goroutine calling Server.Publish
	Raw    [][]IPPub `json:"raw"`    // one list per raw publisher connection
}

type ipGot struct {
	msgno int
	topic string
	qos   byte
}

func runInproc(c IPCase) (fail string, classes []string) {
	b, err := fix.New(16384, "")
	if err != nil {
		return "fixture: " + err.Error(), nil
	}
	c.Transport.apply(b)
	defer b.Shutdown()
	payloads := map[int][]byte{}
	type pub struct {
		IPPub
		msgno int
	}
	msgno := 0
	number := func(lists [][]IPPub) [][]pub {
		out := make([][]pub, len(lists))
		for i, l := range lists {
			for _, p := range l {
				msgno++
				payloads[msgno] = payload(msgno, p.Size)
				out[i] = append(out[i], pub{p, msgno})
			}
		}
		return out
	}
	inproc, raw := number(c.Inproc), number(c.Raw)
	var gmu sync.Mutex
	got := make([][]ipGot, len(c.Subs))
	var bad []string
	record := func(si int, topic string, qos byte, pl []byte) {
		no := -1
		if len(pl) >= 4 {
			no = int(pl[0])<<24 | int(pl[1])<<16 | int(pl[2])<<8 | int(pl[3])
		}
		gmu.Lock()
		defer gmu.Unlock()
		if want, ok := payloads[no]; !ok || !bytes.Equal(want, pl) {
			bad = append(bad, fmt.Sprintf("subscriber %d received on %q a payload of %d bytes that is none of the published ones (first bytes say #%d, first difference at %d)", si, topic, len(pl), no, firstDiff(pl, want)))
			return
		}
		got[si] = append(got[si], ipGot{no, topic, qos})
	}
	conns := make([]*fix.Conn, len(c.Subs))
	fns := make([]service.OnPublishFunc, len(c.Subs))
	for si, s := range c.Subs {
		si, s := si, s
		if s.Inproc {
			fns[si] = func(m *message.PublishMessage) error {
				topic, qos, pl := string(m.Topic()), m.QoS(), append([]byte(nil), m.Payload()...)
				record(si, topic, qos, pl)
				if s.Bridge && !strings.HasPrefix(topic, "br/") {
					r := message.NewPublishMessage()
					r.SetTopic([]byte("br/" + topic))
					r.SetPayload(pl)
					r.SetQoS(qos)
					return b.Srv.Publish(r)
				}
				return nil
			}
			if err := b.Srv.Subscribe(s.Filter, s.QoS, &fns[si]); err != nil {
				return fmt.Sprintf("Server.Subscribe(%q, %d): %v", s.Filter, s.QoS, err), nil
			}
			continue
		}
		cn := b.Dial(fmt.Sprintf("S%d", si))
		cn.OnPacket = func(p *codec.Packet, off int64) bool {
			if p.Type != codec.PUBLISH {
				return false
			}
			record(si, string(p.Topic), p.QoS, p.Payload)
			return true
		}
		if _, err := cn.Connect(wire.ConnectPacket(fmt.Sprintf("s%d", si), true, 300)); err != nil {
			return "connect: " + err.Error(), nil
		}
		cn.Send(&codec.Packet{Type: codec.SUBSCRIBE, PacketID: 1, Topics: [][]byte{[]byte(s.Filter)}, QoSs: []byte{s.QoS}})
		if _, err := cn.Barrier(); err != nil {
			return "subscriber barrier: " + err.Error(), nil
		}
		conns[si] = cn
	}
	// publishers, all at once
	var wg sync.WaitGroup
	errs := make(chan string, len(inproc)+len(raw))
	start := make(chan struct{})
	for _, list := range inproc {
		wg.Add(1)
		go func(list []pub) {
			defer wg.Done()
			defer func() {
				if r := recover(); r != nil {
					errs <- fmt.Sprintf("Server.Publish panicked in the caller's goroutine: %v", r)
				}
			}()
			<-start
			// the embedding program keeps ONE message object and ONE topic / payload buffer per
			// goroutine and rewrites them in place for every publish (its memory is its own
			// again as soon as Server.Publish has returned)
			m := message.NewPublishMessage()
			var tbuf, pbuf []byte
			for _, p := range list {
				tbuf = append(tbuf[:0], p.Topic...)
				pbuf = append(pbuf[:0], payloads[p.msgno]...)
				m.SetTopic(tbuf)
				m.SetPayload(pbuf)
				m.SetQoS(p.QoS)
				if err := b.Srv.Publish(m); err != nil {
					errs <- fmt.Sprintf("Server.Publish(%q): %v", p.Topic, err)
					return
				}
			}
		}(list)
	}
	for ri, list := range raw {
		wg.Add(1)
		go func(ri int, list []pub) {
			defer wg.Done()
			cn := b.Dial(fmt.Sprintf("P%d", ri))
			cn.AutoRel = true
			if _, err := cn.Connect(wire.ConnectPacket(fmt.Sprintf("p%d", ri), true, 300)); err != nil {
				errs <- "publisher connect: " + err.Error()
				return
			}
			<-start
			n2 := 0
			for j, p := range list {
				pp := &codec.Packet{Type: codec.PUBLISH, Topic: []byte(p.Topic), QoS: p.QoS, Payload: payloads[p.msgno]}
				if p.QoS > 0 {
					pp.PacketID = uint16(j + 1)
				}
				if p.QoS == 2 {
					n2++
				}
				cn.Send(pp)
			}
			for ; n2 > 0; n2-- {
				if _, err := cn.Take(func(p *codec.Packet) bool { return p.Type == codec.PUBCOMP }, wire.DefaultWait); err != nil {
					errs <- fmt.Sprintf("raw publisher %d: no PUBCOMP: %v", ri, err)
					return
				}
			}
			if _, err := cn.Barrier(); err != nil {
				errs <- fmt.Sprintf("raw publisher %d: barrier: %v", ri, err)
			}
		}(ri, list)
	}
	close(start)
	done := make(chan struct{})
	go func() { wg.Wait(); close(done) }()
	select {
	case <-done:
	case <-time.After(2 * wire.DefaultWait):
		return "the publishers did not finish (a Server.Publish call or a publisher's barrier hangs)", nil
	}
	select {
	case e := <-errs:
		return e, nil
	default:
	}
	for si, cn := range conns {
		if cn == nil {
			continue
		}
		if _, err := cn.Barrier(); err != nil {
			return fmt.Sprintf("subscriber %d: final barrier failed: %v (stream error: %v)", si, err, cn.StreamErr()), nil
		}
	}
	gmu.Lock()
	defer gmu.Unlock()
	if len(bad) > 0 {
		return bad[0], nil
	}
	// expected deliveries
	minq := func(a, b byte) byte {
		if a < b {
			return a
		}
		return b
	}
	want := make([][]ipGot, len(c.Subs))
	cls := map[string]bool{}
	var route func(no int, topic string, q byte, nested bool)
	route = func(no int, topic string, q byte, nested bool) {
		seenBridge := false
		for si, s := range c.Subs {
			if !match.Matches(s.Filter, topic) {
				continue
			}
			dq := minq(q, s.QoS)
			want[si] = append(want[si], ipGot{no, topic, dq})
			if seenBridge {
				cls["recipient-after-a-bridge-in-the-fan-out"] = true
			}
			if s.Inproc && s.Bridge && !strings.HasPrefix(topic, "br/") {
				seenBridge = true
				cls["nested-publish-from-callback"] = true
				route(no, "br/"+topic, dq, true)
			}
		}
	}
	for _, lists := range [][][]pub{inproc, raw} {
		for _, l := range lists {
			for _, p := range l {
				route(p.msgno, p.Topic, p.QoS, false)
			}
		}
	}
	if len(inproc) >= 2 {
		cls["concurrent-Server.Publish"] = true
	}
	key := func(g ipGot) string { return fmt.Sprintf("%06d|%s|%d", g.msgno, g.topic, g.qos) }
	for si := range c.Subs {
		var g, w []string
		for _, x := range got[si] {
			g = append(g, key(x))
		}
		for _, x := range want[si] {
			w = append(w, key(x))
		}
		sort.Strings(g)
		sort.Strings(w)
		if strings.Join(g, ",") != strings.Join(w, ",") {
			// name the first difference
			gi, wi := 0, 0
			for gi < len(g) && wi < len(w) && g[gi] == w[wi] {
				gi, wi = gi+1, wi+1
			}
			var gd, wd string
			if gi < len(g) {
				gd = g[gi]
			}
			if wi < len(w) {
				wd = w[wi]
			}
			kind := "raw client"
			if c.Subs[si].Inproc {
				kind = "in-process callback"
			}
			return fmt.Sprintf("subscriber %d (%s, filter %q granted QoS %d) received %d deliveries, the subscriptions call for %d; first difference (message|topic|QoS): got %q, expected %q", si, kind, c.Subs[si].Filter, c.Subs[si].QoS, len(g), len(w), gd, wd), nil
		}
	}
	for _, x := range b.Escaped() {
		return x, nil
	}
	for k := range cls {
		classes = append(classes, k)
	}
	sort.Strings(classes)
	return "", classes
}

func genInproc(t *rapid.T) IPCase {
	var c IPCase
	filters := []string{"a", "a/#", "#", "+/b", "br/#", "br/a", "br/+/b", "a/b", "b", "+"}
	topics := []string{"a", "a/b", "b", "cc/b", "cc"}
	for i, n := 0, rapid.IntRange(2, 7).Draw(t, "nsubs"); i < n; i++ {
		s := IPSub{Filter: rapid.SampledFrom(filters).Draw(t, "filter"), QoS: byte(rapid.IntRange(0, 2).Draw(t, "gq")), Inproc: rapid.Bool().Draw(t, "inproc")}
		if s.Inproc && rapid.IntRange(0, 2).Draw(t, "bridge") > 0 {
			s.Bridge = true
		}
		c.Subs = append(c.Subs, s)
	}
	genList := func() []IPPub {
		var l []IPPub
		for j, m := 0, rapid.IntRange(1, 12).Draw(t, "npubs"); j < m; j++ {
			l = append(l, IPPub{Topic: rapid.SampledFrom(topics).Draw(t, "topic"), QoS: byte(rapid.IntRange(0, 2).Draw(t, "pq")), Size: rapid.SampledFrom([]int{4, 9, 60, 700}).Draw(t, "size")})
		}
		return l
	}
	for i, n := 0, rapid.IntRange(1, 3).Draw(t, "ninproc"); i < n; i++ {
		c.Inproc = append(c.Inproc, genList())
	}
	for i, n := 0, rapid.IntRange(0, 2).Draw(t, "nraw"); i < n; i++ {
		c.Raw = append(c.Raw, genList())
	}
	c.Transport = genTransport(t)
	return c
}

func TestC01Inproc(t *testing.T) {
	rec := ev.New("C01", "in-process")
	defer rec.Flush()
	if rp := ev.LoadReplay(t, "in-process"); rp != nil {
		var c IPCase
		json.Unmarshal(rp.Case, &c)
		for i := 0; i < 10; i++ {
			if f, _ := runInproc(c); f != "" {
				p := rec.Violation("-", "plan", f, c, nil)
				rec.Flush()
				t.Fatalf("VIOLATION %s replay=%s", f, p)
			}
		}
		return
	} else if ev.Replaying() {
		t.Skip()
	}
	rapid.Check(t, func(t *rapid.T) {
		c := genInproc(t)
		f, cls := runInproc(c)
		nt := false
		for _, x := range cls {
			if x == "recipient-after-a-bridge-in-the-fan-out" || x == "concurrent-Server.Publish" {
				nt = true
			}
		}
		rec.Case(c, nt, cls...)
		if f != "" {
			p := rec.Violation("-", "plan", f, c, nil)
			t.Fatalf("VIOLATION %s replay=%s", f, p)
		}
	})
}
