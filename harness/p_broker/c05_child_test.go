package p_broker

import (
	"bufio"
	"bytes"
	"encoding/json"
	"fmt"
	"net"
	"os"
	osexec "os/exec"
	"strings"
	"syscall"
	"testing"
	"time"

	"verifharness/ev"
	"verifharness/fix"
	"verifharness/ref/codec"
	"verifharness/wire"
)

// C05 child-process tier: the broker runs in a child process whose address
// space is limited, exactly like production without recover around the
// connection handler: a panic or an allocation failure kills the process.
// Only here are first packets generated that declare huge remaining lengths.

// TestC05ChildBroker is the child: it is only active when started by TestC05Child.
func TestC05ChildBroker(t *testing.T) {
	if os.Getenv("VERIF_C05_CHILD") == "" {
		t.Skip()
	}
	lim := &syscall.Rlimit{Cur: 6 << 30, Max: 6 << 30}
	syscall.Setrlimit(syscall.RLIMIT_AS, lim)
	b, err := fix.New(16384, "")
	if err != nil {
		fmt.Println("ERR", err)
		return
	}
	ln, err := net.Listen("tcp", "127.0.0.1:0")
	if err != nil {
		fmt.Println("ERR", err)
		return
	}
	fmt.Println("PORT", ln.Addr().(*net.TCPAddr).Port)
	go func() {
		for {
			c, err := ln.Accept()
			if err != nil {
				return
			}
			go b.Srv.VerifServe(c) // no recover, as in Server.ListenAndServe
		}
	}()
	// live until the parent closes our stdin
	bufio.NewReader(os.Stdin).ReadString('\n')
}

type ChildCase struct {
	Firsts [][]byte `json:"firsts"` // one attacker connection per entry: the bytes it sends
	Desc   []string `json:"desc"`
}

func runC05Child(c ChildCase) (fail string, incon string) {
	cmd := osexec.Command(os.Args[0], "-test.run", "^TestC05ChildBroker$", "-test.count=1")
	cmd.Env = append(os.Environ(), "VERIF_C05_CHILD=1", "VERIF_OUT=", "VERIF_REPLAY=")
	stdin, _ := cmd.StdinPipe()
	stdout, _ := cmd.StdoutPipe()
	var stderr bytes.Buffer
	cmd.Stderr = &stderr
	if err := cmd.Start(); err != nil {
		return "", "cannot start the child broker: " + err.Error()
	}
	exited := make(chan error, 1)
	rd := bufio.NewReader(stdout)
	var out bytes.Buffer
	portc := make(chan int, 1)
	go func() {
		for {
			line, err := rd.ReadString('\n')
			out.WriteString(line)
			var p int
			if _, e := fmt.Sscanf(line, "PORT %d", &p); e == nil {
				portc <- p
			}
			if err != nil {
				break
			}
		}
		exited <- cmd.Wait()
	}()
	defer func() {
		stdin.Close()
		select {
		case <-exited:
		case <-time.After(3 * time.Second):
			cmd.Process.Kill()
		}
	}()
	var port int
	select {
	case port = <-portc:
	case <-exited:
		return "", "child broker exited before it was listening: " + tail(out.String()+stderr.String(), 400)
	case <-time.After(20 * time.Second):
		return "", "child broker did not start listening"
	}
	addr := fmt.Sprintf("127.0.0.1:%d", port)
	dial := func(name string) (*wire.Client, error) {
		conn, err := net.DialTimeout("tcp", addr, 3*time.Second)
		if err != nil {
			return nil, err
		}
		return wire.New(name, conn), nil
	}
	died := func(when string) string {
		select {
		case err := <-exited:
			exited <- err
			return fmt.Sprintf("the broker process died %s (%v); attackers sent %v; last output: %s", when, err, c.Desc, tail(stderr.String()+out.String(), 700))
		default:
			return ""
		}
	}
	Ws, err := dial("Ws")
	if err != nil {
		return "", "dial: " + err.Error()
	}
	defer Ws.Close()
	Wp, err := dial("Wp")
	if err != nil {
		return "", "dial: " + err.Error()
	}
	defer Wp.Close()
	if _, err := Ws.Connect(wire.ConnectPacket("wsub", true, 120)); err != nil {
		return "", "witness connect: " + err.Error()
	}
	if _, err := Wp.Connect(wire.ConnectPacket("wpub", true, 120)); err != nil {
		return "", "witness connect: " + err.Error()
	}
	Ws.Send(&codec.Packet{Type: codec.SUBSCRIBE, PacketID: 1, Topics: [][]byte{[]byte(witnessTopic)}, QoSs: []byte{0}})
	if _, err := Ws.Barrier(); err != nil {
		return "", "witness barrier: " + err.Error()
	}
	var atts []*wire.Client
	for i, first := range c.Firsts {
		a, err := dial(fmt.Sprintf("attacker%d", i))
		if err != nil {
			if d := died("while attackers were connecting"); d != "" {
				return d, ""
			}
			return "", "dial: " + err.Error()
		}
		atts = append(atts, a)
		a.SendAsync(first)
	}
	defer func() {
		for _, a := range atts {
			a.Close()
		}
	}()
	// the witness pair keeps working while the attackers' first packets are being handled
	for n := 1; n <= 20; n++ {
		if err := Wp.Send(&codec.Packet{Type: codec.PUBLISH, Topic: []byte(witnessTopic), Payload: witnessPayload(n)}); err != nil {
			if d := died("while the witness was publishing"); d != "" {
				return d, ""
			}
			return fmt.Sprintf("the witness publisher's connection broke (%v) although only the attackers misbehaved", err), ""
		}
		time.Sleep(10 * time.Millisecond)
	}
	if _, err := Wp.Barrier(); err != nil {
		if d := died("before the witness barrier"); d != "" {
			return d, ""
		}
		return fmt.Sprintf("the witness publisher no longer gets answers: %v", err), ""
	}
	rx, err := Ws.Barrier()
	if err != nil {
		if d := died("before the witness barrier"); d != "" {
			return d, ""
		}
		return fmt.Sprintf("the witness subscriber no longer gets answers: %v", err), ""
	}
	n := 0
	for _, r := range rx {
		if r.P.Type == codec.PUBLISH {
			n++
			if !bytes.Equal(r.P.Payload, witnessPayload(n)) {
				return fmt.Sprintf("witness message %d arrived wrong", n), ""
			}
		}
	}
	if n != 20 {
		return fmt.Sprintf("the witness subscriber received %d of 20 messages", n), ""
	}
	if d := died("during the scenario"); d != "" {
		return d, ""
	}
	return "", ""
}

func tail(s string, n int) string {
	s = strings.TrimSpace(s)
	if len(s) > n {
		return "…" + s[len(s)-n:]
	}
	return s
}

func childCases() []ChildCase {
	hdr := func(b ...byte) []byte { return b }
	one := func(desc string, b []byte) ChildCase { return ChildCase{Firsts: [][]byte{b}, Desc: []string{desc}} }
	cs := []ChildCase{
		one("CONNECT declaring 34 359 738 367 bytes through a 5-byte remaining length", hdr(0x10, 0xff, 0xff, 0xff, 0xff, 0x7f)),
		one("CONNECT declaring 2 GiB through a 5-byte remaining length", hdr(0x10, 0x80, 0x80, 0x80, 0x80, 0x08)),
		one("CONNECT declaring 268 435 456 bytes through a 5-byte remaining length", hdr(0x10, 0x80, 0x80, 0x80, 0x80, 0x01)),
		one("PUBLISH as first packet declaring 17 GiB through a 5-byte remaining length", hdr(0x30, 0xff, 0xff, 0xff, 0xff, 0x3f)),
		one("CONNECT declaring the protocol maximum 268 435 455 bytes, body missing", hdr(0x10, 0xff, 0xff, 0xff, 0x7f)),
		one("CONNECT whose remaining length never terminates", hdr(0x10, 0xff, 0xff, 0xff, 0xff, 0xff, 0xff)),
	}
	many := ChildCase{}
	for i := 0; i < 6; i++ {
		many.Firsts = append(many.Firsts, hdr(0x10, 0xff, 0xff, 0xff, 0x7f))
		many.Desc = append(many.Desc, "CONNECT declaring 268 435 455 bytes")
	}
	return append(cs, many)
}

func TestC05Child(t *testing.T) {
	rec := ev.New("C05", "child")
	defer rec.Flush()
	if rp := ev.LoadReplay(t, "child"); rp != nil {
		var c ChildCase
		json.Unmarshal(rp.Case, &c)
		if f, _ := runC05Child(c); f != "" {
			p := rec.Violation("-", "fault", f, c, nil)
			rec.Flush()
			t.Fatalf("VIOLATION %s replay=%s", f, p)
		}
		return
	} else if ev.Replaying() {
		t.Skip()
	}
	e := ev.GetEnv()
	for i, c := range childCases() {
		if i%e.Shards != e.Shard {
			continue
		}
		f, incon := runC05Child(c)
		if incon != "" {
			rec.Inconclusive()
			rec.Class("inconclusive: "+incon[:minInt(len(incon), 100)], 1)
		}
		rec.Case(c, true, "child-process-broker")
		if f != "" {
			p := rec.Violation("-", "fault", f, c, nil)
			rec.Flush()
			t.Fatalf("VIOLATION %s replay=%s", f, p)
		}
	}
}
