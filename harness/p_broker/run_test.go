package p_broker

import (
	"encoding/json"
	"fmt"
	"testing"

	"pgregory.net/rapid"
	"verifharness/ev"
)

type spec struct {
	prop, unit string
	gen        func(t *rapid.T) Plan
	classes    []string // discrepancy classes this property reports
	nontrivial func(p Plan, o outcome) bool
}

func has(o outcome, c string) bool {
	for _, x := range o.Classes {
		if x == c {
			return true
		}
	}
	return false
}

// mine selects the first discrepancy of a class the property owns.
func (sp spec) mine(o outcome) *Discrepancy {
	for i := range o.Disc {
		for _, c := range sp.classes {
			if o.Disc[i].Class == c {
				return &o.Disc[i]
			}
		}
	}
	return nil
}

func runSpec(t *testing.T, sp spec) {
	rec := ev.New(sp.prop, sp.unit)
	defer rec.Flush()
	if rp := ev.LoadReplay(t, sp.unit); rp != nil {
		var p Plan
		json.Unmarshal(rp.Case, &p)
		for i := 0; i < 3; i++ {
			o := runPlan(p, rec.IsKnown)
			if d := sp.mine(o); d != nil {
				path := rec.Violation(d.Sig, "plan", d.Text, p, o)
				rec.Flush()
				t.Fatalf("VIOLATION %s replay=%s", d.Text, path)
			}
		}
		return
	} else if ev.Replaying() {
		t.Skip()
	}
	rapid.Check(t, func(t *rapid.T) {
		p := sp.gen(t)
		o := runPlan(p, rec.IsKnown)
		if o.Inconclusive != "" {
			rec.Inconclusive()
			rec.Class("inconclusive: "+o.Inconclusive, 1)
		}
		for sig, n := range o.KnownHits {
			for i := 0; i < n; i++ {
				rec.HitKnown(sig, p)
			}
		}
		cls := append([]string(nil), o.Classes...)
		for _, d := range o.Disc {
			owned := false
			for _, c := range sp.classes {
				owned = owned || d.Class == c
			}
			if !owned {
				cls = append(cls, "other-property-discrepancy:"+d.Class)
			}
		}
		rec.Case(p, sp.nontrivial(p, o), cls...)
		if d := sp.mine(o); d != nil {
			path := rec.Violation(d.Sig, "plan", d.Text, p, o)
			t.Fatalf("VIOLATION [%s] op %d: %s replay=%s", d.Class, d.Op, d.Text, path)
		}
	})
}

func TestC01(t *testing.T) {
	runSpec(t, spec{"C01", "sequential", genPlanC01, []string{dRoute, dStream, dEscaped},
		func(p Plan, o outcome) bool { return has(o, "delivered") && has(o, "non-recipient-connected") }})
}

func TestC07(t *testing.T) {
	runSpec(t, spec{"C07", "sequential", genPlanC07, []string{dSuback, dRoute, dStream, dEscaped, dLive},
		func(p Plan, o outcome) bool {
			return has(o, "subscribe>=4-filters") || has(o, "unsubscribe>=4-filters") || has(o, "subscribe-with-invalid-filter-or-qos") || (has(o, "unsubscribe-held-filter") && has(o, "delivered"))
		}})
}

func TestC08(t *testing.T) {
	runSpec(t, spec{"C08", "sequential", genPlanC08, []string{dRetained, dRetainLive, dStream, dEscaped},
		func(p Plan, o outcome) bool {
			return has(o, "retained-delivered") && (has(o, "retained-clear") || has(o, "filler>=1-ring") || has(o, "retained-publish"))
		}})
}

func TestC09(t *testing.T) {
	runSpec(t, spec{"C09", "sequential", genPlanC09, []string{dWill, dStream, dEscaped},
		func(p Plan, o outcome) bool {
			return (has(o, "will-due") && has(o, "session-resumed")) || has(o, "will-suppressed-by-disconnect")
		}})
}

func TestC10(t *testing.T) {
	runSpec(t, spec{"C10", "sequential", genPlanC10, []string{dConnack, dRoute, dStream, dEscaped},
		func(p Plan, o outcome) bool {
			return has(o, "session-resumed-with-subscriptions") || has(o, "reconnect-after-clean-session")
		}})
}

var _ = fmt.Sprintf
