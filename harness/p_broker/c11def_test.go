package p_broker

import (
	"bytes"
	"encoding/json"
	"fmt"
	"sync"
	"sync/atomic"
	"testing"

	"pgregory.net/rapid"
	"verifharness/ev"
	"verifharness/fix"
	"verifharness/ref/codec"
	"verifharness/wire"
)

// C11, unit "default-config": the configuration axis of the property includes
// the configuration a user gets without setting anything - the zero-value
// Server (default session and topic providers, default authenticator, default
// timeouts and buffer size). An acceptable CONNECT is answered with code 0
// there as well, and the accepted connection works (its SUBSCRIBE is granted,
// a PUBLISH of another accepted connection reaches it, a will is published).
// The default providers are process-wide, so one default broker serves all
// cases and every case uses identifiers and topics of its own.

type DefCase struct {
	Clean    bool   `json:"clean"`
	KA       uint16 `json:"keepalive"`
	Will     int    `json:"will"` // 0: none, else payload size
	User     string `json:"user,omitempty"`
	Pass     string `json:"pass,omitempty"`
	SubQoS   byte   `json:"subqos"`
	PubQoS   byte   `json:"pubqos"`
	Size     int    `json:"size"`
	EmptyID  bool   `json:"empty_id,omitempty"` // zero-length client identifier with CleanSession=1
	Level3ID bool   `json:"-"`
}

var (
	defOnce   sync.Once
	defBroker *fix.Broker
	defErr    error
	defSeq    atomic.Int64
)

func runDefault(c DefCase) (fail string, classes []string) {
	defOnce.Do(func() { defBroker, defErr = fix.NewDefault() })
	if defErr != nil {
		return "a Server without any setting cannot be initialised: " + defErr.Error(), nil
	}
	b := defBroker
	n := defSeq.Add(1)
	tag := fmt.Sprintf("d%d-%d", ev.GetEnv().Shard, n)
	S := b.Dial("S-" + tag)
	defer S.Close()
	ack, err := S.Connect(wire.ConnectPacket("sub-"+tag, true, 300))
	if err != nil {
		return fmt.Sprintf("default configuration: a plain valid CONNECT (CleanSession=1, identifier %q) got no CONNACK: %v", "sub-"+tag, err), nil
	}
	if ack.ReturnCode != 0 || ack.SessionPresent {
		return fmt.Sprintf("default configuration: a plain valid CONNECT was answered with code %d, session present %v", ack.ReturnCode, ack.SessionPresent), nil
	}
	filter := "def/" + tag + "/#"
	S.Send(&codec.Packet{Type: codec.SUBSCRIBE, PacketID: 7, Topics: [][]byte{[]byte(filter)}, QoSs: []byte{c.SubQoS}})
	rx, err := S.Barrier()
	if err != nil {
		return fmt.Sprintf("default configuration: no answer after SUBSCRIBE: %v (stream error: %v)", err, S.StreamErr()), nil
	}
	granted := false
	for _, r := range rx {
		if r.P.Type == codec.SUBACK && r.P.PacketID == 7 && len(r.P.ReturnCodes) == 1 && r.P.ReturnCodes[0] == c.SubQoS {
			granted = true
		}
	}
	if !granted {
		return fmt.Sprintf("default configuration: SUBSCRIBE %q at QoS %d was not granted (received %d packets before the PINGRESP)", filter, c.SubQoS, len(rx)), nil
	}
	id := "pub-" + tag
	if c.EmptyID {
		id = ""
		classes = append(classes, "zero-length-identifier")
	}
	cp := wire.ConnectPacket(id, c.Clean || c.EmptyID, c.KA)
	var willPl []byte
	if c.Will > 0 {
		willPl = wrPayload(int(n), c.Will)
		cp.ConnectFlags |= 4 | c.PubQoS<<3
		cp.WillTopic, cp.WillMessage = []byte("def/"+tag+"/will"), willPl
		classes = append(classes, "with-will")
	}
	if c.User != "" {
		cp.ConnectFlags |= 128
		cp.Username = []byte(c.User)
		if c.Pass != "" {
			cp.ConnectFlags |= 64
			cp.Password = []byte(c.Pass)
		}
		classes = append(classes, "with-credentials")
	}
	P := b.Dial("P-" + tag)
	defer P.Close()
	ack, err = P.Connect(cp)
	if err != nil {
		return fmt.Sprintf("default configuration: the valid CONNECT %s got no CONNACK: %v", describeConnect(cp), err), classes
	}
	if ack.ReturnCode != 0 || ack.SessionPresent {
		return fmt.Sprintf("default configuration: the valid CONNECT %s was answered with code %d, session present %v", describeConnect(cp), ack.ReturnCode, ack.SessionPresent), classes
	}
	pl := wrPayload(int(n)+1, c.Size)
	pub := &codec.Packet{Type: codec.PUBLISH, QoS: c.PubQoS, Topic: []byte("def/" + tag + "/x"), Payload: pl}
	if c.PubQoS > 0 {
		pub.PacketID = 11
	}
	P.Send(pub)
	if c.PubQoS == 2 {
		P.Send(&codec.Packet{Type: codec.PUBREL, PacketID: 11})
	}
	if _, err := P.Barrier(); err != nil {
		return fmt.Sprintf("default configuration: the publisher got no answer after its PUBLISH: %v (stream error: %v)", err, P.StreamErr()), classes
	}
	minq := c.PubQoS
	if c.SubQoS < minq {
		minq = c.SubQoS
	}
	expect := func(what, topic string, payload []byte) string {
		rx, err := S.Barrier()
		if err != nil {
			return fmt.Sprintf("default configuration: the subscriber's connection failed: %v (stream error: %v)", err, S.StreamErr())
		}
		got := 0
		for _, r := range rx {
			if r.P.Type != codec.PUBLISH {
				continue
			}
			got++
			if string(r.P.Topic) != topic || !bytes.Equal(r.P.Payload, payload) || r.P.QoS != minq || r.P.Retain {
				return fmt.Sprintf("default configuration: the subscriber received %s as topic %q, %d bytes, QoS %d, retain %v; sent was topic %q, %d bytes, to be delivered at QoS %d", what, r.P.Topic, len(r.P.Payload), r.P.QoS, r.P.Retain, topic, len(payload), minq)
			}
		}
		if got != 1 {
			return fmt.Sprintf("default configuration: the subscriber received %s %d times, expected once", what, got)
		}
		return ""
	}
	if f := expect("the PUBLISH", "def/"+tag+"/x", pl); f != "" {
		return f, classes
	}
	if c.Will > 0 {
		P.Close()
		if !P.WaitTeardown(wire.DefaultWait) {
			return "default configuration: the teardown of a closed connection did not finish", classes
		}
		if f := expect("the will", "def/"+tag+"/will", willPl); f != "" {
			return f, classes
		}
	}
	for _, x := range b.Escaped() {
		return x, classes
	}
	return "", classes
}

func describeConnect(cp *codec.Packet) string {
	return fmt.Sprintf("(identifier %q, flags %08b, keep-alive %d, will %d bytes, user %q)", cp.ClientID, cp.ConnectFlags, cp.KeepAlive, len(cp.WillMessage), cp.Username)
}

func TestC11Defaults(t *testing.T) {
	rec := ev.New("C11", "default-config")
	defer rec.Flush()
	if rp := ev.LoadReplay(t, "default-config"); rp != nil {
		var c DefCase
		json.Unmarshal(rp.Case, &c)
		if f, _ := runDefault(c); f != "" {
			p := rec.Violation("-", "input", f, c, nil)
			rec.Flush()
			t.Fatalf("VIOLATION %s replay=%s", f, p)
		}
		return
	} else if ev.Replaying() {
		t.Skip()
	}
	rapid.Check(t, func(t *rapid.T) {
		c := DefCase{
			Clean:   rapid.Bool().Draw(t, "clean"),
			KA:      rapid.SampledFrom([]uint16{0, 30, 300, 65535}).Draw(t, "ka"),
			Will:    rapid.SampledFrom([]int{0, 0, 1, 40, 3000}).Draw(t, "will"),
			User:    rapid.SampledFrom([]string{"", "", "someone", "user"}).Draw(t, "user"),
			Pass:    rapid.SampledFrom([]string{"", "secret"}).Draw(t, "pass"),
			SubQoS:  byte(rapid.IntRange(0, 2).Draw(t, "subqos")),
			PubQoS:  byte(rapid.IntRange(0, 2).Draw(t, "pubqos")),
			Size:    rapid.SampledFrom([]int{0, 1, 100, 5000, 70000}).Draw(t, "size"),
			EmptyID: rapid.IntRange(0, 7).Draw(t, "emptyid") == 0,
		}
		f, cls := runDefault(c)
		rec.Case(c, true, cls...)
		if f != "" {
			p := rec.Violation("-", "input", f, c, nil)
			t.Fatalf("VIOLATION %s replay=%s", f, p)
		}
	})
}
