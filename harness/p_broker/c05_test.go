package p_broker

import (
	"bytes"
	"encoding/json"
	"fmt"
	"strings"
	"sync"
	"sync/atomic"
	"testing"
	"time"

	"pgregory.net/rapid"
	"verifharness/census"
	"verifharness/ev"
	"verifharness/fix"
	"verifharness/ref/codec"
	"verifharness/wire"
)

// C05: whatever an offending connection sends and however it ends, the
// broker keeps running, at most that connection is closed, and a witness
// pair keeps exchanging exactly its messages.

type Attacker struct {
	Stream    []byte `json:"stream"`               // bytes written by the attacker (after mutation)
	Origin    string `json:"origin"`               // how the stream was derived
	Kind      string `json:"kind"`                 // mutation class
	End       string `json:"end"`                  // close | stall-close | idle
	StartAt   int    `json:"start_at"`             // witness message number at which the attacker starts
	Trap      bool   `json:"trap,omitempty"`       // park a publisher's delivery to this attacker while it tears down
	ToWitness bool   `json:"to_witness,omitempty"` // attacker subscribes to the witness topic
	OddWill   string `json:"odd_will,omitempty"`   // will topic that is not a valid topic name (kept with a trailing blank so that "" shows)
	BigWill   int    `json:"big_will,omitempty"`   // size of the will message in the CONNECT (the witness subscriber listens to the will topic)
	// end "limit-window-cut": after its valid session the client writes the first WinSplit bytes
	// of a PUBLISH packet of WinTotal bytes (around the largest packet the inbound buffer takes
	// in, BufSize-8192), then the rest, and is cut
	WinTotal int `json:"win_total,omitempty"`
	WinSplit int `json:"win_split,omitempty"`
}

type C05Case struct {
	Transport
	BufSize    int        `json:"bufsize"`
	WitnessQoS byte       `json:"witness_qos"`
	NMsgs      int        `json:"nmsgs"`
	Attackers  []Attacker `json:"attackers"`
	// WitnessPad: extra bytes per witness message (large messages fill the ring of a
	// subscriber that has stopped reading, so that the witness publisher is held up by it)
	WitnessPad int `json:"witness_pad,omitempty"`
}

type c05result struct {
	Fail    string
	Classes []string
	Incon   string
}

const witnessTopic = "wit/x"

func witnessPayload(n int) []byte { return witnessPayloadPad(n, 0) }

func witnessPayloadPad(n, pad int) []byte {
	b := payload(n, 24+n%40+pad)
	return append([]byte(fmt.Sprintf("W%06d:", n)), b...)
}

func runC05(c C05Case) (res c05result) {
	b, err := fix.New(int64(c.BufSize), "")
	if err != nil {
		return c05result{Fail: "fixture: " + err.Error()}
	}
	c.Transport.apply(b)
	defer b.Shutdown()
	defer fix.SetYield(nil)
	t0 := time.Now()
	Ws, Wp := b.Dial("Ws"), b.Dial("Wp")
	if _, err := Ws.Connect(wire.ConnectPacket("wsub", true, 120)); err != nil {
		return c05result{Fail: "witness subscriber connect: " + err.Error()}
	}
	if _, err := Wp.Connect(wire.ConnectPacket("wpub", true, 120)); err != nil {
		return c05result{Fail: fmt.Sprintf("witness publisher connect: %v (escaped: %v; serve error: %v; %v since dial)", err, b.Escaped(), Wp.ServeErr, time.Since(t0))}
	}
	// the witness subscriber also listens to the attackers' wills (a will may be larger
	// than the witness connection's buffer)
	Ws.Send(&codec.Packet{Type: codec.SUBSCRIBE, PacketID: 1, Topics: [][]byte{[]byte(witnessTopic), []byte("att/will")}, QoSs: []byte{1, 0}})
	if _, err := Ws.Barrier(); err != nil {
		return c05result{Fail: "witness barrier: " + err.Error()}
	}
	// a third witness listens to everything (wills with unusual topics reach only it)
	Wall := b.Dial("Wall")
	if _, err := Wall.Connect(wire.ConnectPacket("wall", true, 120)); err != nil {
		return c05result{Fail: "witness (all topics) connect: " + err.Error()}
	}
	Wall.Send(&codec.Packet{Type: codec.SUBSCRIBE, PacketID: 1, Topics: [][]byte{[]byte("#")}, QoSs: []byte{0}})
	if _, err := Wall.Barrier(); err != nil {
		return c05result{Fail: "witness (all topics) barrier: " + err.Error()}
	}
	cls := map[string]bool{}
	var clsMu sync.Mutex
	class := func(s string) { clsMu.Lock(); cls[s] = true; clsMu.Unlock() }
	defer func() {
		for k := range cls {
			res.Classes = append(res.Classes, k)
		}
	}()

	// attackers run concurrently with the witness traffic
	var progress atomic.Int64 // witness messages published so far
	var wg sync.WaitGroup
	trapNote := make(chan string, len(c.Attackers))
	for ai, a := range c.Attackers {
		wg.Add(1)
		go func(ai int, a Attacker) {
			defer wg.Done()
			for progress.Load() < int64(a.StartAt) {
				time.Sleep(50 * time.Microsecond)
			}
			at := b.Dial(fmt.Sprintf("attacker%d", ai))
			var trapped atomic.Bool
			release := make(chan struct{})
			if a.Trap {
				// deterministic window: a publisher's delivery to this connection is
				// parked at writeMessage.enter until the connection is torn down.
				// First the valid session (CONNECT, SUBSCRIBE to the witness topic) and a barrier, so
				// that the connection's own SUBACK/PINGRESP writes are over before the trap is armed.
				at.SendAsync(a.Stream)
				if _, err := at.Barrier(); err != nil {
					return
				}
				fix.SetYield(func(point string, obj interface{}) {
					if point != "writeMessage.enter" {
						return
					}
					if id, ok := obj.(uint64); ok && id != 0 && id == at.ID() && trapped.CompareAndSwap(false, true) {
						// only deliveries made by ANOTHER connection's processor are parked:
						// the attacker's own processor writes its SUBACK/PINGRESP before the trap is armed
						<-release
					}
				})
			}
			switch a.End {
			case "stall-close":
				at.Stall()
			}
			if a.Trap {
				deadline := time.Now().Add(300 * time.Millisecond)
				for !trapped.Load() && time.Now().Before(deadline) {
					time.Sleep(100 * time.Microsecond)
				}
				at.Close()
				at.WaitTeardown(2 * time.Second)
				if trapped.Load() {
					trapNote <- "delivery-parked-across-teardown"
				}
				close(release)
				return
			}
			at.SendAsync(a.Stream)
			switch a.End {
			case "close":
				time.Sleep(time.Duration(200+ai*150) * time.Microsecond)
				at.Close()
			case "barrier-close":
				// the valid session is processed to its end (PINGREQ round trip) before the cut
				at.BarrierTimeout(2 * time.Second)
				at.Close()
			case "stall-close":
				time.Sleep(3 * time.Millisecond)
				at.Close()
			case "flood-close":
				// the client asks for more answers than its outgoing buffer and socket can hold
				// (PINGREQs), reads none of them, and is cut: its own processor is stuck on its
				// own full ring when the connection ends
				at.Barrier()
				at.Stall()
				at.SendAsync(bytes.Repeat([]byte{0xC0, 0}, 9000))
				time.Sleep(30 * time.Millisecond)
				at.Close()
				if !at.WaitTeardown(wire.DefaultWait) {
					trapNote <- "!the connection of a client that flooded the broker with requests, read no answer and was cut was not torn down"
				} else {
					trapNote <- "flood-of-requests-unread-then-cut"
				}
			case "limit-window-cut":
				at.Barrier()
				topic := "att/win"
				lenBytes := 2 // bytes of the remaining-length field
				if a.WinTotal-3 >= 16384 {
					lenBytes = 3
				}
				pl := a.WinTotal - (1 + lenBytes + 2 + len(topic)) // fixed header, topic length prefix
				pk := codec.Encode(&codec.Packet{Type: codec.PUBLISH, Topic: []byte(topic), Payload: bytes.Repeat([]byte{'W'}, pl)})
				split := a.WinSplit
				if split >= len(pk) {
					split = len(pk) - 1
				}
				at.SendRawTimeout(pk[:split], 2*time.Second)
				time.Sleep(2 * time.Millisecond)
				at.SendAsync(pk[split:])
				time.Sleep(20 * time.Millisecond)
				at.Close()
				if !at.WaitTeardown(wire.DefaultWait) {
					trapNote <- fmt.Sprintf("!the connection of a client that wrote a %d-byte packet in pieces of %d and %d bytes (the inbound buffer takes in packets up to %d bytes) and was cut was not torn down", len(pk), split, len(pk)-split, c.BufSize-8192)
				} else {
					trapNote <- "packet-around-the-size-limit-in-two-pieces-then-cut"
				}
			case "stall-disconnect":
				// the subscriber stops reading, traffic addressed to it piles up (its ring fills
				// and publishers are held up by it), then it says DISCONNECT and leaves the
				// socket open: the broker has to end the connection itself, which releases
				// whoever was delivering to it
				at.Barrier()
				at.Stall()
				time.Sleep(40 * time.Millisecond)
				at.SendAsync([]byte{0xE0, 0})
				if !at.WaitTeardown(wire.DefaultWait) {
					trapNote <- "!the connection of a subscriber that stopped reading and then sent DISCONNECT (socket left open) was not torn down"
				} else {
					trapNote <- "stalled-subscriber-ends-by-DISCONNECT-with-open-socket"
				}
				at.Close()
			case "idle":
				// leave it to the broker (connect timeout 1 s / protocol error)
				at.WaitClosed(1500 * time.Millisecond)
				at.Close()
			}
		}(ai, a)
	}
	// witness traffic
	// the witness publisher numbers its packets downwards from 60000, so that its identifiers
	// never coincide with those the broker assigns on the subscribers' connections
	pid := uint16(60001)
	for n := 1; n <= c.NMsgs; n++ {
		pp := &codec.Packet{Type: codec.PUBLISH, QoS: c.WitnessQoS, Topic: []byte(witnessTopic), Payload: witnessPayloadPad(n, c.WitnessPad)}
		if c.WitnessQoS > 0 {
			pid--
			pp.PacketID = pid
		}
		if err := Wp.SendRawTimeout(codec.Encode(pp), wire.DefaultWait); err != nil {
			if err == wire.ErrTimeout {
				return c05hang(res, fmt.Sprintf("witness publisher blocked writing message %d", n))
			}
			return c05result{Fail: fmt.Sprintf("the witness publisher's connection was closed by the broker while writing message %d (%v); it had sent only valid packets", n, err)}
		}
		progress.Store(int64(n))
		if n%4 == 0 {
			time.Sleep(100 * time.Microsecond)
		}
	}
	wg.Wait()
	close(trapNote)
	for s := range trapNote {
		if strings.HasPrefix(s, "!") {
			if r := c05hang(res, s[1:]); r.Fail != "" {
				return r
			}
			continue
		}
		class(s)
	}
	// (1) process alive, no escaped panic
	for _, x := range b.Escaped() {
		return c05result{Fail: x + " (in production the connection handler runs without recover: the broker process dies)"}
	}
	// (2) both witness connections still open and answering
	wprx, err := Wp.Barrier()
	if err == nil && c.WitnessQoS > 0 {
		// what the witness publisher was sent: acknowledgements of its own packets, nothing else
		acked := map[uint16]int{}
		for _, r := range wprx {
			switch r.P.Type {
			case codec.PUBACK, codec.PUBREC, codec.PUBCOMP:
				if r.P.PacketID > 60000 || int(r.P.PacketID) <= 60000-c.NMsgs {
					return c05result{Fail: fmt.Sprintf("the witness publisher received %s for packet identifier %d, which it never used (it numbered its %d packets from 60000 downwards)", codec.TypeName(r.P.Type), r.P.PacketID, c.NMsgs)}
				}
				if r.P.Type == codec.PUBACK {
					acked[r.P.PacketID]++
				}
			}
		}
		if c.WitnessQoS == 1 {
			for n := 1; n <= c.NMsgs; n++ {
				if k := acked[uint16(60001-n)]; k != 1 {
					return c05result{Fail: fmt.Sprintf("the witness publisher's QoS 1 PUBLISH number %d (identifier %d) was acknowledged %d times", n, 60001-n, k)}
				}
			}
		}
	}
	if err != nil {
		if err == wire.ErrTimeout {
			return c05hang(res, "witness publisher got no PINGRESP")
		}
		return c05result{Fail: fmt.Sprintf("the witness publisher's connection was closed by the broker (%v) although only the attacker misbehaved", err)}
	}
	rx, err := Ws.Barrier()
	if err != nil {
		if err == wire.ErrTimeout {
			return c05hang(res, "witness subscriber got no PINGRESP")
		}
		return c05result{Fail: fmt.Sprintf("the witness subscriber's connection was closed by the broker (%v; stream error %v) although only the attacker misbehaved", err, Ws.StreamErr())}
	}
	// (3) exactly the witness sequence, in order, intact
	n := 0
	for _, r := range rx {
		if r.P.Type != codec.PUBLISH || string(r.P.Topic) == "att/will" {
			continue
		}
		n++
		if string(r.P.Topic) != witnessTopic || !bytes.Equal(r.P.Payload, witnessPayloadPad(n, c.WitnessPad)) {
			return c05result{Fail: fmt.Sprintf("witness subscriber: message %d of the sequence is wrong (topic %q, %d bytes, starts %q)", n, r.P.Topic, len(r.P.Payload), clip(r.P.Payload, 16))}
		}
	}
	if n != c.NMsgs {
		return c05result{Fail: fmt.Sprintf("witness subscriber received %d of the %d witness messages", n, c.NMsgs)}
	}
	// (4) the subscriber to everything is alive and holds the witness sequence too
	rxa, err := Wall.Barrier()
	if err != nil {
		if err == wire.ErrTimeout {
			return c05hang(res, "the witness subscribed to '#' got no PINGRESP")
		}
		return c05result{Fail: fmt.Sprintf("the connection of the witness subscribed to '#' was closed by the broker (%v; stream error %v) although only the attacker misbehaved", err, Wall.StreamErr())}
	}
	// what an attacker's valid packets published reaches the subscriber of everything at most once each
	attCopies := map[string]int{}
	for _, r := range rxa {
		if r.P.Type == codec.PUBLISH && bytes.HasPrefix(r.P.Payload, []byte("ATT")) {
			if i := bytes.IndexByte(r.P.Payload, ':'); i > 0 && i < 12 {
				attCopies[string(r.P.Payload[:i])]++
			}
		}
	}
	flipped := false
	for _, a := range c.Attackers {
		flipped = flipped || strings.HasPrefix(a.Kind, "bit-flips")
	}
	for k, v := range attCopies {
		if v > 1 && !flipped {
			return c05result{Fail: fmt.Sprintf("the witness subscribed to '#' received %d copies of message %s, which an attacker's connection published once", v, k)}
		}
	}
	n = 0
	for _, r := range rxa {
		if r.P.Type != codec.PUBLISH || string(r.P.Topic) != witnessTopic {
			continue
		}
		n++
		if !bytes.Equal(r.P.Payload, witnessPayloadPad(n, c.WitnessPad)) {
			return c05result{Fail: fmt.Sprintf("witness subscribed to '#': message %d of the witness sequence is wrong (%d bytes, starts %q)", n, len(r.P.Payload), clip(r.P.Payload, 16))}
		}
	}
	if n != c.NMsgs {
		return c05result{Fail: fmt.Sprintf("the witness subscribed to '#' received %d of the %d witness messages", n, c.NMsgs)}
	}
	// (5) the broker still serves what the witnesses had not used while the attackers were at work:
	// a new connection, a new subscription, a retained publish, the retained copy for a later subscriber
	late := func(name string, wantRetained bool) *c05result {
		L := b.Dial(name)
		if _, err := L.Connect(wire.ConnectPacket(name, true, 300)); err != nil {
			return &c05result{Fail: fmt.Sprintf("after the attack a new client (%s) cannot connect: %v", name, err)}
		}
		L.Send(&codec.Packet{Type: codec.SUBSCRIBE, PacketID: 1, Topics: [][]byte{[]byte("late/#")}, QoSs: []byte{1}})
		rx, err := L.Barrier()
		if err != nil {
			if err == wire.ErrTimeout {
				r := c05hang(res, fmt.Sprintf("after the attack a new client (%s) that sent a SUBSCRIBE got neither SUBACK nor PINGRESP", name))
				return &r
			}
			return &c05result{Fail: fmt.Sprintf("after the attack a new client's (%s) connection was closed by the broker after its SUBSCRIBE: %v", name, err)}
		}
		nack, nret := 0, 0
		for _, r := range rx {
			switch {
			case r.P.Type == codec.SUBACK && r.P.PacketID == 1:
				nack++
			case r.P.Type == codec.PUBLISH && string(r.P.Topic) == "late/r" && r.P.Retain && string(r.P.Payload) == "kept":
				nret++
			}
		}
		if nack != 1 {
			return &c05result{Fail: fmt.Sprintf("after the attack a new client's (%s) SUBSCRIBE was answered by %d SUBACKs", name, nack)}
		}
		if wantRetained && nret != 1 {
			return &c05result{Fail: fmt.Sprintf("after the attack a witness published a retained message on late/r; a new subscriber of late/# received %d retained copies of it", nret)}
		}
		if !wantRetained {
			Wp.Send(&codec.Packet{Type: codec.PUBLISH, Retain: true, Topic: []byte("late/r"), Payload: []byte("kept")})
			if _, err := Wp.Barrier(); err != nil {
				if err == wire.ErrTimeout {
					r := c05hang(res, "after the attack the witness publisher sent a retained PUBLISH and got no PINGRESP any more")
					return &r
				}
				return &c05result{Fail: fmt.Sprintf("after the attack the witness publisher's connection was closed by the broker after a retained PUBLISH: %v", err)}
			}
			rx, err := L.Barrier()
			if err != nil {
				return &c05result{Fail: fmt.Sprintf("after the attack the new subscriber's connection broke: %v", err)}
			}
			live := 0
			for _, r := range rx {
				if r.P.Type == codec.PUBLISH && string(r.P.Topic) == "late/r" && string(r.P.Payload) == "kept" {
					live++
				}
			}
			if live != 1 {
				return &c05result{Fail: fmt.Sprintf("after the attack a witness published on late/r; the new subscriber of late/# received %d copies", live)}
			}
		}
		return nil
	}
	if r := late("late1", false); r != nil {
		return *r
	}
	if r := late("late2", true); r != nil {
		return *r
	}
	return res
}

func clip(b []byte, n int) []byte {
	if len(b) > n {
		return b[:n]
	}
	return b
}

func c05hang(res c05result, what string) c05result {
	quiet := func() bool {
		for _, g := range census.Lib() {
			if !g.Parked() {
				return false
			}
		}
		return true
	}
	if quiet() {
		time.Sleep(200 * time.Millisecond)
		if quiet() {
			res.Fail = fmt.Sprintf("%s and every library goroutine is parked: the witness connection is wedged although only the attacker misbehaved (%v)", what, census.Summary(census.Lib()))
			return res
		}
	}
	res.Incon = what + ": deadline expired while library goroutines were still running"
	return res
}

// ---- attacker streams: grammar, then mutation ------------------------------------------------

func genAttacker(t *rapid.T, c *C05Case, ai int) Attacker {
	a := Attacker{StartAt: rapid.IntRange(0, c.NMsgs-2).Draw(t, "startat")}
	var pk [][]byte
	id := fmt.Sprintf("att%d", ai)
	cp := wire.ConnectPacket(id, rapid.Bool().Draw(t, "clean"), 60)
	if rapid.Bool().Draw(t, "will") {
		cp.ConnectFlags |= 4
		cp.WillTopic, cp.WillMessage = []byte(rapid.SampledFrom([]string{"att/will", "att/will", "att/will", "att/+", "att/#", "#", "", "att//will"}).Draw(t, "willtopic")), []byte("gone")
		if string(cp.WillTopic) != "att/will" {
			a.OddWill = string(cp.WillTopic) + " "
		}
		if ws := rapid.SampledFrom([]int{0, 0, 0, 3000, 9000, 20000, 65535}).Draw(t, "willsize"); ws > 0 {
			cp.WillMessage = bytes.Repeat([]byte{'w'}, ws)
			a.BigWill = ws
		}
		if rapid.IntRange(0, 3).Draw(t, "willretain") == 0 {
			cp.ConnectFlags |= 32
			if a.BigWill == 0 && rapid.Bool().Draw(t, "willempty") {
				cp.WillMessage = []byte{}
			}
		}
	}
	pk = append(pk, codec.Encode(cp))
	a.ToWitness = rapid.Bool().Draw(t, "to-witness")
	filter := "att/#"
	if a.ToWitness {
		filter = "wit/#"
	}
	pk = append(pk, codec.Encode(&codec.Packet{Type: codec.SUBSCRIBE, PacketID: 1, Topics: [][]byte{[]byte(filter)}, QoSs: []byte{byte(rapid.IntRange(0, 2).Draw(t, "sq"))}}))
	for i, n := 0, rapid.IntRange(0, 5).Draw(t, "npubs"); i < n; i++ {
		q := byte(rapid.IntRange(0, 2).Draw(t, "pq"))
		pp := &codec.Packet{Type: codec.PUBLISH, QoS: q, Retain: rapid.IntRange(0, 2).Draw(t, "retain") == 0, Topic: []byte(rapid.SampledFrom([]string{"att/t", "att/t", "att/r", "att"}).Draw(t, "ptopic")), Payload: bytes.Repeat([]byte{'a'}, rapid.SampledFrom([]int{0, 0, 5, 100, 3000}).Draw(t, "psize"))}
		if q > 0 {
			pp.PacketID = uint16(10 + i)
		}
		if len(pp.Payload) >= 16 {
			copy(pp.Payload, fmt.Sprintf("ATT%d.%d:", ai, i)) // names the message for the witness subscribed to everything
		}
		pk = append(pk, codec.Encode(pp))
		if q == 2 && rapid.IntRange(0, 3).Draw(t, "rel") > 0 {
			// the exchange is completed, and the PUBREL possibly repeated (as after a lost PUBCOMP)
			for r, m := 0, 1+rapid.SampledFrom([]int{0, 0, 1, 2}).Draw(t, "relagain"); r < m; r++ {
				pk = append(pk, codec.Encode(&codec.Packet{Type: codec.PUBREL, PacketID: pp.PacketID}))
			}
		}
	}
	a.Origin = "valid session"
	limit := c.BufSize
	switch m := rapid.IntRange(0, 17).Draw(t, "mutation"); m {
	case 14: // pre-CONNECT remaining length that never terminates (continuation bit in every byte)
		a.Kind = "connect-unterminated-length"
		k := rapid.IntRange(1, 8).Draw(t, "ncont")
		h := []byte{0x10}
		for i := 0; i < k; i++ {
			h = append(h, 0x80|byte(rapid.IntRange(0, 127).Draw(t, "cb")))
		}
		// nothing may follow: a later byte below 0x80 would terminate the length and declare
		// up to 32 GiB, which the connection handler allocates up front (see section 0 of DESIGN.md)
		pk = [][]byte{h}
		a.Origin = fmt.Sprintf("CONNECT whose remaining length has %d continuation bytes and no end", k)
	case 0: // cut at a random byte
		a.Kind = "cut-at-byte"
		all := bytes.Join(pk, nil)
		cut := rapid.IntRange(0, len(all)).Draw(t, "cut")
		pk = [][]byte{all[:cut]}
		a.Origin = fmt.Sprintf("cut at byte %d of %d", cut, len(all))
	case 1: // bit flips
		a.Kind = "bit-flips"
		all := append([]byte(nil), bytes.Join(pk, nil)...)
		for i, n := 0, rapid.IntRange(1, 4).Draw(t, "nflips"); i < n; i++ {
			all[rapid.IntRange(0, len(all)-1).Draw(t, "flippos")] ^= 1 << rapid.IntRange(0, 7).Draw(t, "bit")
		}
		pk = [][]byte{all}
		a.Origin = "bit flips"
	case 2: // wrong first packet
		a.Kind = "no-connect-first"
		pk = pk[1:]
		a.Origin = "no CONNECT first"
	case 3: // garbage before CONNECT
		a.Kind = "garbage-before-connect"
		g := rapid.SliceOfN(rapid.Byte(), 1, 30).Draw(t, "garbage")
		pk = append([][]byte{g}, pk...)
		a.Origin = "garbage before CONNECT"
	case 4: // garbage after CONNECT
		a.Kind = "garbage-after-connect"
		g := rapid.SliceOfN(rapid.Byte(), 1, 60).Draw(t, "garbage")
		pk = append(pk[:1:1], append([][]byte{g}, pk[1:]...)...)
		a.Origin = "garbage after CONNECT"
	case 5: // truncated CONNECT (body cut, remaining length consistent)
		a.Kind = "connect-body-cut"
		_, _, hdr, _ := codec.Header(pk[0])
		cut := rapid.IntRange(0, len(pk[0])-hdr-1).Draw(t, "bodycut")
		pk[0] = codec.Raw(0x10, pk[0][hdr:hdr+cut])
		a.Origin = fmt.Sprintf("CONNECT body cut to %d bytes", cut)
	case 6: // declared remaining length corrupted (pre-CONNECT), bounded to 1 MiB in-process
		a.Kind = "connect-declared-length"
		decl := rapid.SampledFrom([]int{1, 2, 127, 128, 16384, 100000, 1 << 20}).Draw(t, "declared")
		_, _, hdr, _ := codec.Header(pk[0])
		pk[0] = append(append([]byte{0x10}, codec.Varint(decl)...), pk[0][hdr:]...)
		a.Origin = fmt.Sprintf("CONNECT declaring remaining length %d", decl)
	case 7: // post-CONNECT packet larger than the ring
		a.Kind = "packet-larger-than-ring"
		pk = append(pk, codec.Encode(&codec.Packet{Type: codec.PUBLISH, Topic: []byte("att/big"), Payload: bytes.Repeat([]byte{'B'}, limit+rapid.IntRange(1, 5000).Draw(t, "over"))}))
		a.Origin = "post-CONNECT packet larger than the ring"
	case 8: // post-CONNECT packet between size-8192 and size
		a.Kind = "packet-between-limit-and-ring"
		pk = append(pk, codec.Encode(&codec.Packet{Type: codec.PUBLISH, Topic: []byte("att/mid"), Payload: bytes.Repeat([]byte{'M'}, limit-rapid.IntRange(1, 8000).Draw(t, "under"))}))
		a.Origin = "post-CONNECT packet between size-8192 and size"
	case 9: // post-CONNECT declared remaining length huge, body missing
		a.Kind = "declared-length-huge"
		decl := rapid.SampledFrom([]int{limit + 1, 1 << 20, codec.MaxRemaining}).Draw(t, "declared")
		pk = append(pk, append([]byte{0x30}, codec.Varint(decl)...), []byte{0, 3, 'a', '/', 'b'})
		a.Origin = fmt.Sprintf("post-CONNECT PUBLISH declaring %d bytes", decl)
	case 10: // 5-byte remaining length with a small value, post-CONNECT
		a.Kind = "five-byte-length"
		pk = append(pk, []byte{0x30, 0x85, 0x80, 0x80, 0x80, 0x00, 0, 1, 'a', 'x', 'y'})
		a.Origin = "post-CONNECT 5-byte remaining length"
	case 11: // reserved packet type / server-only packets
		a.Kind = "reserved-or-server-only-type"
		pk = append(pk, rapid.SampledFrom([][]byte{{0xF0, 0}, {0x00, 0}, {0x20, 2, 0, 0}, {0x90, 3, 0, 1, 0}, {0xD0, 0}}).Draw(t, "reserved"))
		a.Origin = "reserved or server-only packet type"
	case 12: // malformed SUBSCRIBE / UNSUBSCRIBE / PUBLISH bodies
		a.Kind = "malformed-request-body"
		pk = append(pk, rapid.SampledFrom([][]byte{{0x82, 2, 0, 1}, {0x82, 5, 0, 1, 0, 9, 'a'}, {0xA2, 2, 0, 1}, {0x32, 3, 0, 1, 'a'}, {0x30, 2, 0, 5}, {0x82, 6, 0, 1, 0, 1, 'a', 9}, {0x36, 5, 0, 1, 'a', 0, 1}}).Draw(t, "malformed"))
		a.Origin = "malformed request body"
	default:
		a.Origin, a.Kind = "valid session, sudden end", "valid-sudden-end"
	}
	a.Stream = bytes.Join(pk, nil)
	if capped := capFirstLength(a.Stream, 1<<20); capped != nil {
		// bounded exclusion (harness safety): the connection handler allocates the declared
		// remaining length of the FIRST packet up front; in-process runs keep it <= 1 MiB
		a.Stream = capped
		a.Origin += " [first declared length capped to <= 1 MiB]"
		a.Kind += "+capped"
	}
	a.End = rapid.SampledFrom([]string{"close", "close", "close", "stall-close", "idle"}).Draw(t, "end")
	if a.End == "idle" && rapid.IntRange(0, 3).Draw(t, "keep-idle") != 0 {
		a.End = "close" // idle ends cost up to 1 s: keep them rare
	}
	if a.Kind == "valid-sudden-end" && a.End == "close" && rapid.Bool().Draw(t, "barrier-close") {
		a.End = "barrier-close"
	}
	return a
}

// genC05Jam: a valid subscriber of the witness topic stops reading while large
// witness messages pile up for it, then ends with a DISCONNECT packet on a
// socket it leaves open.
func genC05Jam(t *rapid.T) C05Case {
	c := C05Case{BufSize: 16384, WitnessQoS: byte(rapid.IntRange(0, 1).Draw(t, "wq")), NMsgs: rapid.IntRange(24, 40).Draw(t, "nmsgs"), WitnessPad: rapid.SampledFrom([]int{1200, 3000}).Draw(t, "pad")}
	a := Attacker{StartAt: rapid.IntRange(0, 3).Draw(t, "startat"), ToWitness: true, End: "stall-disconnect", Kind: "valid-subscriber-stalls-then-disconnects", Origin: "valid session subscribed to the witness topic"}
	a.Stream = bytes.Join([][]byte{
		codec.Encode(wire.ConnectPacket("jam", rapid.Bool().Draw(t, "clean"), 60)),
		codec.Encode(&codec.Packet{Type: codec.SUBSCRIBE, PacketID: 1, Topics: [][]byte{[]byte("wit/#")}, QoSs: []byte{byte(rapid.IntRange(0, 1).Draw(t, "sq"))}}),
	}, nil)
	c.Attackers = []Attacker{a}
	c.Transport = genTransport(t)
	return c
}

// genC05Legal: a connection that keeps to the protocol but uses its rarely seen corners - QoS 2
// exchanges whose PUBREL is repeated (as after a lost PUBCOMP), identifiers reused at once,
// acknowledgements that refer to nothing - processed to the end before the connection is cut.
// Whatever it does may not show at anybody else's connection.
func genC05Legal(t *rapid.T) C05Case {
	c := C05Case{BufSize: 16384, WitnessQoS: byte(rapid.IntRange(0, 1).Draw(t, "wq")), NMsgs: rapid.IntRange(12, 40).Draw(t, "nmsgs")}
	a := Attacker{StartAt: rapid.IntRange(0, c.NMsgs-2).Draw(t, "startat"), End: rapid.SampledFrom([]string{"barrier-close", "barrier-close", "close"}).Draw(t, "end"), Kind: "valid-unusual-sequences", Origin: "valid session with repeated PUBRELs, reused identifiers and stray acknowledgements"}
	pk := [][]byte{
		codec.Encode(wire.ConnectPacket("legal", rapid.Bool().Draw(t, "clean"), 60)),
		codec.Encode(&codec.Packet{Type: codec.SUBSCRIBE, PacketID: 1, Topics: [][]byte{[]byte("att/#")}, QoSs: []byte{byte(rapid.IntRange(0, 2).Draw(t, "sq"))}}),
	}
	for i, n := 0, rapid.IntRange(2, 6).Draw(t, "npubs"); i < n; i++ {
		id := uint16(rapid.SampledFrom([]int{7, 7, 8, 100 + i}).Draw(t, "id"))
		q := byte(rapid.SampledFrom([]int{2, 2, 1, 0}).Draw(t, "pq"))
		pl := bytes.Repeat([]byte{'a'}, rapid.SampledFrom([]int{20, 100, 3000}).Draw(t, "psize"))
		copy(pl, fmt.Sprintf("ATT0.%d:", i))
		pp := &codec.Packet{Type: codec.PUBLISH, QoS: q, Topic: []byte("att/t"), Payload: pl}
		if q > 0 {
			pp.PacketID = id
		}
		pk = append(pk, codec.Encode(pp))
		if q == 2 {
			for r, m := 0, rapid.IntRange(1, 3).Draw(t, "rels"); r < m; r++ {
				pk = append(pk, codec.Encode(&codec.Packet{Type: codec.PUBREL, PacketID: id}))
			}
		}
		switch rapid.IntRange(0, 5).Draw(t, "stray") {
		case 0:
			pk = append(pk, codec.Encode(&codec.Packet{Type: codec.PUBACK, PacketID: id}))
		case 1:
			pk = append(pk, codec.Encode(&codec.Packet{Type: codec.PUBCOMP, PacketID: id}))
		case 2:
			pk = append(pk, []byte{0xC0, 0})
		}
	}
	a.Stream = bytes.Join(pk, nil)
	c.Attackers = []Attacker{a}
	c.Transport = genTransport(t)
	return c
}

func genC05(t *rapid.T) C05Case {
	if j := rapid.IntRange(0, 9).Draw(t, "jam"); j == 0 {
		return genC05Jam(t)
	} else if j == 2 {
		return genC05Legal(t)
	} else if j == 1 {
		c := genC05Jam(t)
		c.WitnessPad = 0
		c.Attackers[0].End, c.Attackers[0].Kind = "flood-close", "valid-subscriber-floods-requests-unread-then-cut"
		c.Transport = genTransport(t)
		return c
	}
	c := C05Case{BufSize: 16384, WitnessQoS: byte(rapid.IntRange(0, 1).Draw(t, "wq")), NMsgs: rapid.IntRange(12, 60).Draw(t, "nmsgs")}
	for i, n := 0, rapid.IntRange(1, 3).Draw(t, "nattackers"); i < n; i++ {
		c.Attackers = append(c.Attackers, genAttacker(t, &c, i))
	}
	if rapid.IntRange(0, 3).Draw(t, "window") == 0 {
		if rapid.IntRange(0, 3).Draw(t, "bigbuf") == 0 {
			// a large non-default BufferSize: the same windows a megabyte further out
			c.BufSize = 1 << 20
		}
		limit := c.BufSize - 8192
		a := Attacker{StartAt: rapid.IntRange(0, 3).Draw(t, "startat"), End: "limit-window-cut", Kind: "valid-session-then-packet-around-the-size-limit-in-pieces", Origin: "valid session",
			WinTotal: limit + rapid.IntRange(-1, 4).Draw(t, "wintotal"), WinSplit: limit + rapid.SampledFrom([]int{1, 1, 1, 2, 2, 0, -1, 3}).Draw(t, "winsplit")}
		if c.BufSize > 16384 {
			a.WinTotal = limit - rapid.SampledFrom([]int{0, 0, 1, 5000, 20000, 30000}).Draw(t, "bigunder")
			a.WinSplit = rapid.SampledFrom([]int{100, 100, 5000, a.WinTotal - 3, limit - 40000}).Draw(t, "bigsplit")
		}
		a.Stream = codec.Encode(wire.ConnectPacket("win", true, 60))
		c.Attackers = append(c.Attackers, a)
	}
	c.Transport = genTransport(t)
	return c
}

// genC05Trap: the forced window — a witness delivery addressed to the
// attacker is parked at writeMessage.enter while the attacker tears down.
func genC05Trap(t *rapid.T) C05Case {
	c := C05Case{BufSize: 16384, WitnessQoS: byte(rapid.IntRange(0, 1).Draw(t, "wq")), NMsgs: rapid.IntRange(12, 40).Draw(t, "nmsgs")}
	a := Attacker{StartAt: rapid.IntRange(0, 3).Draw(t, "startat"), Trap: true, ToWitness: true, End: "close", Kind: "teardown-while-delivery-in-flight", Origin: "valid session subscribed to the witness topic; torn down while a delivery to it is in flight"}
	a.Stream = bytes.Join([][]byte{
		codec.Encode(wire.ConnectPacket("trap", true, 60)),
		codec.Encode(&codec.Packet{Type: codec.SUBSCRIBE, PacketID: 1, Topics: [][]byte{[]byte("wit/#")}, QoSs: []byte{byte(rapid.IntRange(0, 1).Draw(t, "sq"))}}),
	}, nil)
	c.Attackers = []Attacker{a}
	c.Transport = genTransport(t)
	return c
}

func c05spec(t *testing.T, unit string, gen func(*rapid.T) C05Case) {
	rec := ev.New("C05", unit)
	defer rec.Flush()
	if rp := ev.LoadReplay(t, unit); rp != nil {
		var c C05Case
		json.Unmarshal(rp.Case, &c)
		for i := 0; i < 10; i++ {
			if r := runC05(c); r.Fail != "" {
				p := rec.Violation("-", "fault", r.Fail, c, nil)
				rec.Flush()
				t.Fatalf("VIOLATION %s replay=%s", r.Fail, p)
			}
		}
		return
	} else if ev.Replaying() {
		t.Skip()
	}
	rapid.Check(t, func(t *rapid.T) {
		c := gen(t)
		r := runC05(c)
		if r.Incon != "" {
			rec.Inconclusive()
			rec.Class("inconclusive: "+r.Incon, 1)
		}
		cls := append([]string(nil), r.Classes...)
		nt := false
		for _, a := range c.Attackers {
			cls = append(cls, "attack:"+a.Kind, "end:"+a.End)
			if a.Origin != "valid session, sudden end" || a.Trap {
				nt = true
			}
			if a.ToWitness {
				cls = append(cls, "deliveries-addressed-to-attacker")
			}
			if a.OddWill != "" {
				cls = append(cls, "will-topic-not-a-valid-name")
			}
			if a.BigWill > c.BufSize {
				cls = append(cls, "will-larger-than-the-witness-buffer")
			} else if a.BigWill > 0 {
				cls = append(cls, "will-of-several-KiB")
			}
		}
		rec.Case(c, nt && c.NMsgs >= 10, cls...)
		if r.Fail != "" {
			p := rec.Violation("-", "fault", r.Fail, c, nil)
			t.Fatalf("VIOLATION %s replay=%s", r.Fail, p)
		}
	})
}

func minInt(a, b int) int {
	if a < b {
		return a
	}
	return b
}

func TestC05Streams(t *testing.T) { c05spec(t, "streams", genC05) }
func TestC05Trap(t *testing.T)    { c05spec(t, "trap", genC05Trap) }

// capFirstLength returns a copy of the stream whose first packet declares at
// most max bytes, or nil if it already does (or declares nothing complete).
// It parses the length exactly as the connection handler does: bytes after the
// first one, up to five, until one has no continuation bit.
func capFirstLength(stream []byte, max int) []byte {
	if len(stream) < 2 {
		return nil
	}
	val, shift := uint64(0), uint(0)
	for i := 1; i < len(stream) && i <= 5; i++ {
		b := stream[i]
		val |= uint64(b&0x7f) << shift
		shift += 7
		if b < 0x80 {
			if val <= uint64(max) {
				return nil
			}
			out := append([]byte(nil), stream...)
			// keep the number of length bytes, lower the value: clear everything above bit 19
			for j := 3; j <= i; j++ {
				if j == 3 {
					out[j] &= 0x80 | 0x3f
				} else {
					out[j] &= 0x80
				}
			}
			return out
		}
	}
	return nil
}

// ---- unit "victim": what another client receives from the offender ------------------------------
//
// The offender's valid PUBLISH packets are addressed to a victim. The
// delivery of one of them is parked (yield writeMessage.enter) while the
// offender goes on sending - garbage, zeros, or a ring's worth of valid
// PINGREQs - and possibly closes. Whatever the offender does afterwards, the
// victim must receive the accepted message byte for byte and keep a working
// connection: the offender's later bytes concern the offender alone.

type C05VCase struct {
	Transport
	BufSize int    `json:"bufsize"`
	Sizes   []int  `json:"sizes"` // payload sizes of the offender's valid publishes; -1 = packet exactly at the size limit
	QoS     []byte `json:"qos"`
	TrapAt  int    `json:"trap_at"`  // the delivery of this publish is parked
	Tail    string `json:"tail"`     // none | garbage | zeros | ff | pings
	TailLen int    `json:"tail_len"` // bytes
	Seed    byte   `json:"seed"`     // garbage pattern
	End     string `json:"end"`      // close (while the delivery is parked) | stay
}

func runC05Victim(c C05VCase) (res c05result) {
	b, err := fix.New(int64(c.BufSize), "")
	if err != nil {
		return c05result{Fail: "fixture: " + err.Error()}
	}
	c.Transport.apply(b)
	defer b.Shutdown()
	defer fix.SetYield(nil)
	V, A := b.Dial("V"), b.Dial("A")
	if _, err := V.Connect(wire.ConnectPacket("victim", true, 300)); err != nil {
		return c05result{Fail: "victim connect: " + err.Error()}
	}
	V.Send(&codec.Packet{Type: codec.SUBSCRIBE, PacketID: 1, Topics: [][]byte{[]byte("off/#")}, QoSs: []byte{1}})
	if _, err := V.Barrier(); err != nil {
		return c05result{Fail: "victim barrier: " + err.Error()}
	}
	if _, err := A.Connect(wire.ConnectPacket("offender", true, 300)); err != nil {
		return c05result{Fail: "offender connect: " + err.Error()}
	}
	if !V.Served(wire.DefaultWait) {
		return c05result{Incon: "victim not served"}
	}
	vid := V.ID()
	const topic = "off/t"
	var stream []byte
	var want [][]byte
	for i, s := range c.Sizes {
		q := c.QoS[i%len(c.QoS)] & 1 // QoS 0/1: a QoS 2 message is handed on at PUBREL only
		if s < 0 {
			s = sizeAtLimit(c.BufSize, topic, q)
			res.Classes = append(res.Classes, "publish-at-packet-limit")
		}
		pl := payload(i+1, s)
		want = append(want, pl)
		pp := &codec.Packet{Type: codec.PUBLISH, QoS: q, Topic: []byte(topic), Payload: pl}
		if q > 0 {
			pp.PacketID = uint16(i + 1)
		}
		stream = append(stream, codec.Encode(pp)...)
	}
	switch c.Tail {
	case "garbage":
		for i := 0; i < c.TailLen; i++ {
			stream = append(stream, byte(i*37+int(c.Seed)*11+(i>>7))|1)
		}
	case "zeros":
		stream = append(stream, make([]byte, c.TailLen)...)
	case "ff":
		stream = append(stream, bytes.Repeat([]byte{0xff}, c.TailLen)...)
	case "pings":
		stream = append(stream, bytes.Repeat([]byte{0xC0, 0}, c.TailLen/2)...)
	}
	if c.TailLen >= c.BufSize/2 && c.Tail != "none" {
		res.Classes = append(res.Classes, "tail>=half-a-ring")
	}
	var seen atomic.Int32
	var trapped atomic.Bool
	release := make(chan struct{})
	fix.SetYield(func(point string, obj interface{}) {
		if point != "writeMessage.enter" {
			return
		}
		if id, ok := obj.(uint64); ok && id == vid {
			if int(seen.Add(1))-1 == c.TrapAt%len(c.Sizes) && trapped.CompareAndSwap(false, true) {
				<-release
			}
		}
	})
	A.SendAsync(stream)
	deadline := time.Now().Add(2 * time.Second)
	for !trapped.Load() && time.Now().Before(deadline) {
		time.Sleep(100 * time.Microsecond)
	}
	if !trapped.Load() {
		close(release)
		return c05result{Incon: "the delivery to the victim was not reached"}
	}
	res.Classes = append(res.Classes, "delivery-parked-while-offender-continues")
	// let the offender's connection absorb what it can of the rest
	settled(300 * time.Millisecond)
	if c.End == "close" {
		A.Close()
		time.Sleep(5 * time.Millisecond)
	}
	close(release)
	if c.End != "close" {
		settled(300 * time.Millisecond)
		A.Close()
	}
	if !A.WaitTeardown(wire.DefaultWait) {
		r := c05hang(res, "the offender's teardown did not finish")
		if r.Fail != "" {
			r.Fail = fmt.Sprintf("the offender closed its connection but the broker never tears it down - every library goroutine is parked, the connection with its goroutines, session and will stays for good (%v)", census.Summary(census.Lib()))
		}
		return r
	}
	for _, x := range b.Escaped() {
		return c05result{Fail: x + " (in production the connection handler runs without recover: the broker process dies)"}
	}
	rx, err := V.Barrier()
	if err != nil {
		if err == wire.ErrTimeout {
			return c05hang(res, "victim got no PINGRESP")
		}
		return c05result{Fail: fmt.Sprintf("the victim's connection is broken (%v; stream error: %v) although only the offender misbehaved", err, V.StreamErr()), Classes: res.Classes}
	}
	n := 0
	for _, r := range rx {
		if r.P.Type != codec.PUBLISH {
			continue
		}
		if n >= len(want) {
			return c05result{Fail: fmt.Sprintf("the victim received more PUBLISH packets (%d) than the offender's %d valid ones", n+1, len(want)), Classes: res.Classes}
		}
		if string(r.P.Topic) != topic || !bytes.Equal(r.P.Payload, want[n]) {
			return c05result{Fail: fmt.Sprintf("the victim received the offender's valid message %d corrupted: topic %q, %d bytes (sent %d), first difference at byte %d (got %#x): bytes the offender sent later reached another client inside an accepted message", n, r.P.Topic, len(r.P.Payload), len(want[n]), firstDiff(r.P.Payload, want[n]), at(r.P.Payload, firstDiff(r.P.Payload, want[n]))), Classes: res.Classes}
		}
		n++
	}
	if n < c.TrapAt%len(c.Sizes)+1 {
		return c05result{Fail: fmt.Sprintf("the victim received %d of the offender's messages; message %d had been accepted and was being delivered when the offender went on", n, c.TrapAt%len(c.Sizes)), Classes: res.Classes}
	}
	return res
}

func at(b []byte, i int) byte {
	if i >= 0 && i < len(b) {
		return b[i]
	}
	return 0
}

func genC05Victim(t *rapid.T) C05VCase {
	c := C05VCase{BufSize: rapid.SampledFrom([]int{16384, 16384, 32768}).Draw(t, "bufsize"), Seed: rapid.Byte().Draw(t, "seed")}
	for i, n := 0, rapid.IntRange(1, 3).Draw(t, "npubs"); i < n; i++ {
		c.Sizes = append(c.Sizes, rapid.SampledFrom([]int{-1, -1, 10, 3000, 6000}).Draw(t, "size"))
		c.QoS = append(c.QoS, byte(rapid.IntRange(0, 1).Draw(t, "q")))
	}
	c.TrapAt = rapid.IntRange(0, len(c.Sizes)-1).Draw(t, "trapat")
	c.Tail = rapid.SampledFrom([]string{"none", "garbage", "garbage", "zeros", "ff", "pings", "pings"}).Draw(t, "tail")
	c.TailLen = rapid.SampledFrom([]int{1, 200, c.BufSize / 2, c.BufSize/2 + 1, c.BufSize, 3 * c.BufSize}).Draw(t, "taillen")
	c.End = rapid.SampledFrom([]string{"close", "stay"}).Draw(t, "end")
	c.Transport = genTransport(t)
	return c
}

func TestC05Victim(t *testing.T) {
	rec := ev.New("C05", "victim")
	defer rec.Flush()
	if rp := ev.LoadReplay(t, "victim"); rp != nil {
		var c C05VCase
		json.Unmarshal(rp.Case, &c)
		for i := 0; i < 5; i++ {
			if r := runC05Victim(c); r.Fail != "" {
				p := rec.Violation("-", "fault", r.Fail, c, nil)
				rec.Flush()
				t.Fatalf("VIOLATION %s replay=%s", r.Fail, p)
			}
		}
		return
	} else if ev.Replaying() {
		t.Skip()
	}
	rapid.Check(t, func(t *rapid.T) {
		c := genC05Victim(t)
		r := runC05Victim(c)
		if r.Incon != "" {
			rec.Inconclusive()
			rec.Class("inconclusive: "+r.Incon, 1)
		}
		cls := append(append([]string(nil), r.Classes...), "tail:"+c.Tail, "end:"+c.End)
		rec.Case(c, r.Incon == "" && c.Tail != "none", cls...)
		if r.Fail != "" {
			p := rec.Violation("-", "fault", r.Fail, c, nil)
			t.Fatalf("VIOLATION %s replay=%s", r.Fail, p)
		}
	})
}
