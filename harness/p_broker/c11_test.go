package p_broker

import (
	"encoding/json"
	"fmt"
	"strings"
	"sync"
	"testing"
	"time"

	"github.com/mdzio/go-mqtt/message"
	"github.com/mdzio/go-mqtt/service"
	"pgregory.net/rapid"
	"verifharness/ev"
	"verifharness/fix"
	"verifharness/ref/codec"
	"verifharness/wire"
)

// C11Case is one first-packet scenario (replay format).
type C11Case struct {
	Auth   string `json:"auth"`   // "" accept all | mockFailure | verifUserPass
	First  []byte `json:"first"`  // bytes of the first packet
	Origin string `json:"origin"` // how it was built
	Then   string `json:"then"`   // "packets" (effect-bearing packets in the same write) | "close" | "silence"
	// Victim: a legitimate client with the same client identifier exists
	// before the first packet arrives: "stored" (persistent session with a
	// subscription, disconnected) or "live" (connected, with a will). Only
	// with the user/password authenticator.
	Victim string `json:"victim,omitempty"`
	// Frag: offsets at which the bytes are cut into separate transport writes
	// (TCP may deliver a packet in any segmentation).
	Frag []int `json:"frag,omitempty"`
}

// verdict of the reference side for a first packet.
type c11class struct {
	kind  string // accept | refuse | either
	codes []byte // acceptable non-zero CONNACK codes for refuse (empty = any non-zero code or none)
	why   string
	id    string
}

// classify derives the expectation from the specification (3.1/3.2), the
// server's documented policy and the authenticator.
func classifyFirst(c C11Case) c11class {
	b := c.First
	first, remlen, hdr, herr := codec.Header(b)
	if herr != nil {
		return c11class{kind: "refuse", why: "fixed header malformed or incomplete: " + herr.Error()}
	}
	if first>>4 != codec.CONNECT {
		return c11class{kind: "refuse", why: "first packet is " + codec.TypeName(first>>4)}
	}
	if len(b) < hdr+remlen {
		if c.Then == "packets" {
			return c11class{kind: "either", why: "declared remaining length swallows the following packets"}
		}
		return c11class{kind: "refuse", why: "CONNECT shorter than its remaining length"}
	}
	if first&15 != 0 {
		return c11class{kind: "refuse", why: "CONNECT with non-zero fixed-header flags"}
	}
	p, _, err := codec.Decode(b[:hdr+remlen])
	if err != nil {
		// which defect? only the ones 3.1.1 makes the server refuse are "refuse"
		body := b[hdr : hdr+remlen]
		if d := connectDefect(body); d != "" {
			return c11class{kind: "refuse", why: d}
		}
		return c11class{kind: "either", why: "tolerated by 3.1 compatibility: " + err.Error()}
	}
	if len(b) > hdr+remlen {
		return c11class{kind: "either", why: "bytes after the CONNECT inside the first write"}
	}
	id := string(p.ClientID)
	var codes []byte
	if pol := codec.Policy(p); pol != 0 {
		codes = append(codes, pol)
	}
	authOK := true
	switch c.Auth {
	case "mockFailure":
		authOK = false
	case fix.AuthUserPass:
		authOK = p.UserFlag() && p.PassFlag() && string(p.Username) == "user" && string(p.Password) == "pass"
	}
	if !authOK {
		codes = append(codes, 4)
	}
	if len(codes) > 0 {
		cl := c11class{kind: "refuse", codes: codes, why: fmt.Sprintf("refusal codes %v apply", codes), id: id}
		if p.ProtoName != "MQTT" && p.ProtoName != "MQIsdp" {
			cl.codes = append(cl.codes, 0xff) // wrong protocol name: code 1 or plain close
		}
		return cl
	}
	alnumOK := len(p.ClientID) <= 23
	for _, ch := range p.ClientID {
		if !(ch >= '0' && ch <= '9' || ch >= 'a' && ch <= 'z' || ch >= 'A' && ch <= 'Z') {
			alnumOK = false
		}
	}
	if !alnumOK {
		return c11class{kind: "either", why: "client id beyond the ids a server must accept", id: id}
	}
	if p.WillFlag() && hasEmptyLevel(string(p.WillTopic)) {
		return c11class{kind: "either", why: "will topic with empty level", id: id}
	}
	return c11class{kind: "accept", why: "acceptable CONNECT", id: id}
}

// connectDefect recognises the malformations the specification tells a server
// to refuse, in a CONNECT body the strict decoder rejected ("" = none of them).
func connectDefect(body []byte) string {
	if len(body) < 2 {
		return "CONNECT body truncated"
	}
	n := int(body[0])<<8 | int(body[1])
	o := 2 + n
	if len(body) < o+4 {
		return "CONNECT body truncated"
	}
	flags := body[o+1]
	if flags&1 != 0 {
		return "reserved connect flag set"
	}
	if (flags>>3)&3 == 3 {
		return "will QoS 3"
	}
	if flags&4 == 0 && flags&(32|24) != 0 {
		return "will QoS/retain without will flag"
	}
	o += 4
	need := 1 // client id
	if flags&4 != 0 {
		need += 2
	}
	for i := 0; i < need; i++ {
		if len(body) < o+2 {
			return "CONNECT body truncated"
		}
		l := int(body[o])<<8 | int(body[o+1])
		o += 2 + l
		if len(body) < o {
			return "CONNECT body truncated"
		}
	}
	return ""
}

type c11result struct {
	Fail    string
	Classes []string
}

const c11Retained = "c11/r"
const c11Live = "c11/w"

func effectPackets() []byte {
	var b []byte
	b = append(b, codec.Encode(&codec.Packet{Type: codec.SUBSCRIBE, PacketID: 1, Topics: [][]byte{[]byte("#")}, QoSs: []byte{1}})...)
	b = append(b, codec.Encode(&codec.Packet{Type: codec.PUBLISH, Retain: true, Topic: []byte(c11Retained), Payload: []byte("retained-by-unaccepted")})...)
	b = append(b, codec.Encode(&codec.Packet{Type: codec.PUBLISH, QoS: 1, PacketID: 2, Topic: []byte(c11Live), Payload: []byte("live-by-unaccepted")})...)
	return b
}

func runC11(c C11Case) c11result {
	var res c11result
	cls := classifyFirst(c)
	res.Classes = append(res.Classes, "expect:"+cls.kind, "auth:"+c.Auth, "then:"+c.Then)
	b, err := fix.New(16384, c.Auth)
	if err != nil {
		res.Fail = "fixture: " + err.Error()
		return res
	}
	defer b.Shutdown()
	// in-process witness on everything
	var wmu sync.Mutex
	var seen []string
	var wfn service.OnPublishFunc = func(m *message.PublishMessage) error {
		wmu.Lock()
		seen = append(seen, fmt.Sprintf("%s retain=%v %q", m.Topic(), m.Retain(), m.Payload()))
		wmu.Unlock()
		return nil
	}
	if err := b.Srv.Subscribe("#", 2, &wfn); err != nil {
		res.Fail = "witness subscribe: " + err.Error()
		return res
	}
	var vic *fix.Conn
	vicConnect := func() (*codec.Packet, error) {
		vic = b.Dial("victim")
		cp := wire.ConnectPacket(cls.id, false, 120)
		cp.ConnectFlags |= 128 | 64 | 4 | 8
		cp.Username, cp.Password = []byte("user"), []byte("pass")
		cp.WillTopic, cp.WillMessage = []byte("vic/will"), []byte("victim-own-will")
		return vic.Connect(cp)
	}
	victim := c.Victim
	if victim != "" && (c.Auth != fix.AuthUserPass || cls.kind != "refuse" || !plainID(cls.id) || c.Then != "packets") {
		victim = ""
	}
	if victim != "" {
		if ack, err := vicConnect(); err != nil || ack.ReturnCode != 0 {
			res.Fail = fmt.Sprintf("victim could not connect: %v %v", ack, err)
			return res
		}
		vic.Send(&codec.Packet{Type: codec.SUBSCRIBE, PacketID: 1, Topics: [][]byte{[]byte("vic/#")}, QoSs: []byte{1}})
		if _, err := vic.Barrier(); err != nil {
			res.Fail = "victim barrier: " + err.Error()
			return res
		}
		if victim == "stored" {
			vic.Send(&codec.Packet{Type: codec.DISCONNECT})
			vic.WaitTeardown(wire.DefaultWait)
			vic.Close()
		}
		res.Classes = append(res.Classes, "victim:"+victim)
		wmu.Lock()
		seen = nil
		wmu.Unlock()
	}
	// "halfclose": the client ends its sending direction right behind the first packet and goes
	// on reading (the bytes and the end of the stream can reach the broker in one Read call)
	ended := c.Then == "close" || c.Then == "halfclose"
	at := b.DialOpt("attacker", c.Then == "halfclose")
	at.AutoAck = true
	out := append([]byte(nil), c.First...)
	if c.Then == "packets" {
		out = append(out, effectPackets()...)
	}
	// the broker may stop reading at any point, so the writes are queued
	prev := 0
	for _, f := range c.Frag {
		if f > prev && f < len(out) {
			at.SendAsync(out[prev:f])
			prev = f
		}
	}
	if prev > 0 {
		res.Classes = append(res.Classes, "first-packet-in-several-writes")
	}
	if c.Then != "halfclose" {
		at.SendAsync(out[prev:])
	} else if len(out[prev:]) > 0 {
		at.SendRawTimeout(out[prev:], 3*time.Second) // returns when the transport has taken the bytes
	}
	if c.Then == "close" {
		// give the handler a moment to take what it wants, then cut
		at.Served(20 * time.Millisecond)
		at.Close()
	}
	if c.Then == "halfclose" {
		at.HalfClose()
		res.Classes = append(res.Classes, "first-packet-then-end-of-stream-in-one-read")
	}
	// what did the broker answer?
	var connack *codec.Packet
	rx, werr := at.WaitFor(func(p *codec.Packet) bool { return p.Type == codec.CONNACK }, 3*time.Second)
	if werr == nil {
		connack = rx[len(rx)-1].P
		if len(rx) > 1 {
			res.Fail = fmt.Sprintf("broker sent %s before any CONNACK (%s; %s)", rx[0].P, c.Origin, cls.why)
			return res
		}
	} else if werr == wire.ErrTimeout && !ended {
		res.Fail = fmt.Sprintf("no CONNACK and the connection still open 3 s after the first packet (%s; %s)", c.Origin, cls.why)
		return res
	}
	accepted := connack != nil && connack.ReturnCode == 0
	code := byte(0xff)
	if connack != nil {
		code = connack.ReturnCode
		res.Classes = append(res.Classes, fmt.Sprintf("connack-code:%d", code))
	} else {
		res.Classes = append(res.Classes, "no-connack")
	}
	switch cls.kind {
	case "accept":
		if !accepted && !ended {
			res.Fail = fmt.Sprintf("acceptable CONNECT (%s) was not accepted: CONNACK %v", c.Origin, connack)
			return res
		}
	case "refuse":
		if accepted {
			res.Fail = fmt.Sprintf("first packet that must be refused (%s; %s) was answered with CONNACK code 0", c.Origin, cls.why)
			return res
		}
		if connack != nil && len(cls.codes) > 0 {
			ok := false
			for _, k := range cls.codes {
				ok = ok || k == code
			}
			if !ok {
				res.Fail = fmt.Sprintf("refused with CONNACK code %d, expected one of %v (%s; %s)", code, cls.codes, c.Origin, cls.why)
				return res
			}
		}
		if connack == nil && len(cls.codes) > 0 && !ended {
			plain := false
			for _, k := range cls.codes {
				plain = plain || k == 0xff
			}
			if !plain {
				res.Fail = fmt.Sprintf("connection closed without the CONNACK code %v the refusal requires (%s; %s)", cls.codes, c.Origin, cls.why)
				return res
			}
		}
	}
	aligned := false
	if _, remlen, hdr, herr := codec.Header(c.First); herr == nil && hdr+remlen == len(c.First) {
		aligned = true
	}
	if accepted && !aligned {
		// the declared length of the first packet differs from the bytes sent: what follows is
		// misaligned garbage for the broker; nothing is asserted about how it deals with it here (C05)
		res.Classes = append(res.Classes, "accepted-but-following-stream-misaligned")
		at.Close()
		at.WaitTeardown(wire.DefaultWait)
		for _, x := range b.Escaped() {
			res.Fail = x
		}
		return res
	}
	if accepted && !ended {
		// the connection works
		if _, err := at.Barrier(); err != nil {
			res.Fail = fmt.Sprintf("accepted connection (%s) does not answer PINGREQ: %v", c.Origin, err)
			return res
		}
	} else if !ended {
		if !at.WaitClosed(3 * time.Second) {
			res.Fail = fmt.Sprintf("connection not closed by the broker after refusing the first packet (%s; %s; CONNACK %v)", c.Origin, cls.why, connack)
			return res
		}
	}
	at.Close()
	if !at.WaitTeardown(wire.DefaultWait) {
		res.Fail = "teardown of the first connection did not finish"
		return res
	}
	for _, x := range b.Escaped() {
		res.Fail = x
		return res
	}
	// side effects
	wmu.Lock()
	got := append([]string(nil), seen...)
	wmu.Unlock()
	effect := len(got) > 0
	var rseen []string
	var rfn service.OnPublishFunc = func(m *message.PublishMessage) error {
		rseen = append(rseen, string(m.Topic()))
		return nil
	}
	b.Srv.Subscribe("#", 0, &rfn)
	retainedStored := len(rseen) > 0
	if c.Then == "packets" {
		if !accepted && (effect || retainedStored) {
			res.Fail = fmt.Sprintf("packets sent on a connection that was not accepted (%s; CONNACK %v) had effects: witness saw %v, retained topics %v", c.Origin, connack, got, rseen)
			return res
		}
		if accepted && cls.kind != "refuse" && !(effect && retainedStored) {
			res.Fail = fmt.Sprintf("connection accepted with code 0 (%s) but its later packets had no effect: witness saw %v, retained topics %v", c.Origin, got, rseen)
			return res
		}
		if !accepted {
			res.Classes = append(res.Classes, "refused-with-effect-bearing-packets")
		}
	}
	// a refused CONNECT must not have touched the state of a legitimate client with the same identifier
	if victim != "" && !accepted {
		if victim == "stored" {
			ack, err := vicConnect()
			if err != nil || ack.ReturnCode != 0 {
				res.Fail = fmt.Sprintf("victim could not reconnect after the refused CONNECT: %v %v", ack, err)
				return res
			}
			if !ack.SessionPresent {
				res.Fail = fmt.Sprintf("a refused CONNECT (%s; CONNACK %v) destroyed the stored session of the legitimate client %q: SessionPresent=0 on its next CleanSession=0 connect", c.Origin, connack, cls.id)
				return res
			}
		}
		if _, err := vic.Barrier(); err != nil {
			res.Fail = fmt.Sprintf("the legitimate client %q with the same identifier was disturbed by a refused CONNECT (%s): %v", cls.id, c.Origin, err)
			return res
		}
		pm := message.NewPublishMessage()
		pm.SetTopic([]byte("vic/x"))
		pm.SetPayload([]byte("for-victim"))
		pm.SetQoS(0)
		b.Srv.Publish(pm)
		rx, err := vic.Barrier()
		n := 0
		for _, r := range rx {
			if r.P.Type == codec.PUBLISH && string(r.P.Topic) == "vic/x" {
				n++
			}
		}
		if err != nil || n != 1 {
			res.Fail = fmt.Sprintf("after a refused CONNECT (%s) the legitimate client %q received %d copies of a publish matching its subscription (err %v)", c.Origin, cls.id, n, err)
			return res
		}
		// its will is still its own
		wmu.Lock()
		seen = nil
		wmu.Unlock()
		vic.Close()
		vic.WaitTeardown(wire.DefaultWait)
		wmu.Lock()
		got := append([]string(nil), seen...)
		wmu.Unlock()
		if len(got) != 1 || got[0] != fmt.Sprintf("%s retain=%v %q", "vic/will", false, "victim-own-will") {
			res.Fail = fmt.Sprintf("after a refused CONNECT (%s) the abrupt end of the legitimate client %q published %v instead of its own will", c.Origin, cls.id, got)
			return res
		}
		return res
	}
	// a refused client identifier must not have left session state behind
	if !accepted && cls.id != "" && c.Auth != "mockFailure" && len(cls.id) <= 23 && codec.Policy(&codec.Packet{ProtoName: "MQTT", Level: 4, ClientID: []byte(cls.id)}) == 0 {
		pr := b.Dial("probe")
		cp := wire.ConnectPacket(cls.id, false, 60)
		if c.Auth == fix.AuthUserPass {
			cp.ConnectFlags |= 128 | 64
			cp.Username, cp.Password = []byte("user"), []byte("pass")
		}
		ack, err := pr.Connect(cp)
		if err == nil && ack.ReturnCode == 0 && ack.SessionPresent {
			res.Fail = fmt.Sprintf("refused CONNECT (%s) left session state for client id %q behind (SessionPresent=1 afterwards)", c.Origin, cls.id)
			return res
		}
		if err == nil && ack.ReturnCode == 0 {
			res.Classes = append(res.Classes, "session-probe")
		}
		pr.Close()
	}
	return res
}

// ---- generation --------------------------------------------------------------------------

type connectSpec struct {
	name   string
	level  byte
	flags  byte
	id     string
	user   string
	pass   string
	origin string
	will   int // length of the will message (0 = the default three bytes, -1 = a zero-length will message)
	ka     int // keep-alive: 0 = the default 60 s, -1 = keep-alive 0 (none), else the value
}

func (cs connectSpec) packet() *codec.Packet {
	p := &codec.Packet{Type: codec.CONNECT, ProtoName: cs.name, Level: cs.level, ConnectFlags: cs.flags, KeepAlive: 60, ClientID: []byte(cs.id)}
	switch {
	case cs.ka < 0:
		p.KeepAlive = 0
	case cs.ka > 0:
		p.KeepAlive = uint16(cs.ka)
	}
	if p.WillFlag() {
		p.WillTopic, p.WillMessage = []byte("c11/will"), []byte("bye")
		if cs.will < 0 {
			p.WillMessage = []byte{}
		}
		if cs.will > 0 {
			p.WillMessage = make([]byte, cs.will)
			for i := range p.WillMessage {
				p.WillMessage[i] = byte('a' + i%26)
			}
		}
	}
	if p.UserFlag() {
		p.Username = []byte(cs.user)
	}
	if p.PassFlag() {
		p.Password = []byte(cs.pass)
	}
	return p
}

var c11IDs = []string{"abc123", "id-with.printable_chars~24..32!!", "an-identifier-that-is-longer-than-32-bytes", "ctl\x01id", ""}
var c11Auths = []string{"", "mockFailure", fix.AuthUserPass}

func enumC11(emit func(C11Case)) {
	// every connect-flags byte on an otherwise acceptable CONNECT, each authenticator
	for _, a := range c11Auths {
		for f := 0; f < 256; f++ {
			cs := connectSpec{name: "MQTT", level: 4, flags: byte(f), id: "abc123", user: "user", pass: "pass"}
			emit(C11Case{Auth: a, First: codec.Encode(cs.packet()), Origin: fmt.Sprintf("CONNECT MQTT/4 flags=%08b id=abc123 user/pass", f), Then: "packets"})
		}
	}
	// protocol name x level x id class x credentials
	for _, a := range c11Auths {
		for _, name := range []string{"MQTT", "MQIsdp", "MQXX"} {
			for _, lv := range []byte{3, 4, 5, 0, 255} {
				for _, id := range c11IDs {
					for _, cred := range []struct {
						f          byte
						user, pass string
					}{{0, "", ""}, {128 | 64, "user", "pass"}, {128 | 64, "user", "wrong"}, {128, "user", ""}} {
						for _, clean := range []byte{0, 2} {
							cs := connectSpec{name: name, level: lv, flags: cred.f | clean, id: id, user: cred.user, pass: cred.pass}
							emit(C11Case{Auth: a, First: codec.Encode(cs.packet()), Origin: fmt.Sprintf("CONNECT %s/%d flags=%08b id=%q user=%q pass=%q", name, lv, cs.flags, id, cred.user, cred.pass), Then: "packets"})
						}
					}
				}
			}
		}
	}
	// acceptable CONNECTs whose optional fields are present and empty, with the keep-alive values
	// and the empty identifier for which the broker rewrites the CONNECT it keeps
	for _, ka := range []int{0, -1, 1, 65535} {
		for _, id := range []string{"abc123", ""} {
			for _, cred := range []struct {
				f          byte
				user, pass string
			}{{0, "", ""}, {128 | 64, "user", "pass"}, {128 | 64, "user", ""}, {128, "user", ""}, {128 | 64, "", ""}, {128, "", ""}} {
				for _, will := range []int{0, 1, -1} {
					for _, clean := range []byte{0, 2} {
						for _, a := range []string{"", fix.AuthUserPass} {
							cs := connectSpec{name: "MQTT", level: 4, flags: cred.f | clean, id: id, user: cred.user, pass: cred.pass, ka: ka}
							if will != 0 {
								cs.flags |= 4
								cs.will = will
							}
							emit(C11Case{Auth: a, First: codec.Encode(cs.packet()), Origin: fmt.Sprintf("CONNECT MQTT/4 flags=%08b id=%q user=%q pass=%q keep-alive %d will message %d bytes", cs.flags, id, cred.user, cred.pass, cs.packet().KeepAlive, len(cs.packet().WillMessage)), Then: "packets"})
						}
					}
				}
			}
		}
	}
	// a legitimate client with the same identifier exists; the intruder is refused by the authenticator
	for _, vict := range []string{"stored", "live"} {
		for _, cred := range []struct {
			f          byte
			user, pass string
		}{{128 | 64, "user", "wrong"}, {0, "", ""}, {128, "user", ""}} {
			for _, extra := range []byte{0, 2, 4, 2 | 4, 4 | 32 | 16} {
				cs := connectSpec{name: "MQTT", level: 4, flags: cred.f | extra, id: "abc123", user: cred.user, pass: cred.pass}
				emit(C11Case{Auth: fix.AuthUserPass, First: codec.Encode(cs.packet()), Origin: fmt.Sprintf("CONNECT MQTT/4 flags=%08b id=abc123 user=%q pass=%q while a legitimate client abc123 exists (%s)", cs.flags, cred.user, cred.pass, vict), Then: "packets", Victim: vict})
			}
		}
	}
	// every other packet type as first packet
	others := []*codec.Packet{
		{Type: codec.CONNACK}, {Type: codec.PUBLISH, Topic: []byte(c11Live), Payload: []byte("x")}, {Type: codec.PUBLISH, QoS: 1, PacketID: 9, Retain: true, Topic: []byte(c11Retained), Payload: []byte("x")},
		{Type: codec.PUBACK, PacketID: 1}, {Type: codec.PUBREC, PacketID: 1}, {Type: codec.PUBREL, PacketID: 1}, {Type: codec.PUBCOMP, PacketID: 1},
		{Type: codec.SUBSCRIBE, PacketID: 1, Topics: [][]byte{[]byte("#")}, QoSs: []byte{0}}, {Type: codec.SUBACK, PacketID: 1, ReturnCodes: []byte{0}},
		{Type: codec.UNSUBSCRIBE, PacketID: 1, Topics: [][]byte{[]byte("#")}}, {Type: codec.UNSUBACK, PacketID: 1}, {Type: codec.PINGREQ}, {Type: codec.PINGRESP}, {Type: codec.DISCONNECT},
	}
	for _, a := range c11Auths {
		for _, p := range others {
			emit(C11Case{Auth: a, First: codec.Encode(p), Origin: "first packet " + codec.TypeName(p.Type), Then: "packets"})
		}
		emit(C11Case{Auth: a, First: []byte{0x00, 0x00}, Origin: "reserved packet type 0", Then: "packets"})
		emit(C11Case{Auth: a, First: []byte{0xF0, 0x00}, Origin: "reserved packet type 15", Then: "packets"})
	}
	// malformed bodies with a consistent remaining length, and real truncations
	good := codec.Encode(connectSpec{name: "MQTT", level: 4, flags: 2 | 4 | 128 | 64, id: "abc123", user: "user", pass: "pass"}.packet())
	_, _, hdr, _ := codec.Header(good)
	for cut := 0; cut < len(good)-hdr; cut += 3 {
		emit(C11Case{Auth: "", First: codec.Raw(0x10, good[hdr:hdr+cut]), Origin: fmt.Sprintf("CONNECT body cut to %d bytes, remaining length consistent", cut), Then: "packets"})
	}
	for _, cut := range []int{0, 1, 2, 7, 12, len(good) - 1} {
		emit(C11Case{Auth: "", First: good[:cut], Origin: fmt.Sprintf("CONNECT truncated after %d bytes, then close", cut), Then: "close"})
	}
	for _, cut := range []int{1, 9, len(good) - 1} {
		emit(C11Case{Auth: "", First: good[:cut], Origin: fmt.Sprintf("CONNECT truncated after %d bytes, then silence", cut), Then: "silence"})
	}
	// the client ends its sending direction behind a truncated CONNECT (cut at every offset; the
	// CONNECT has CleanSession=0, will, user name and password so that a tail of zeros would decode)
	full := codec.Encode(connectSpec{name: "MQTT", level: 4, flags: 4 | 128 | 64, id: "halfclosed", user: "user", pass: "pass"}.packet())
	for cut := 0; cut <= len(full); cut++ {
		emit(C11Case{Auth: "", First: full[:cut], Origin: fmt.Sprintf("CONNECT (%d bytes) truncated after %d bytes, then the end of the stream while the client goes on reading", len(full), cut), Then: "halfclose"})
	}
	emit(C11Case{Auth: "", First: []byte{0x10, 0xff, 0xff, 0xff, 0xff, 0x01}, Origin: "CONNECT with a 5-byte remaining length", Then: "close"})
	// acceptable CONNECTs around and beyond 64 KiB (each field holds up to 65535 bytes, a CONNECT up to five of them)
	for _, big := range []struct{ will, user, pass int }{{65535 - 40, 0, 0}, {65535, 0, 0}, {0, 40000, 30000}, {65535, 65535, 65535}, {16384, 0, 0}, {0, 127, 0}, {0, 128, 0}} {
		cs := connectSpec{name: "MQTT", level: 4, flags: 2, id: "bigconnect", will: big.will}
		if big.will > 0 {
			cs.flags |= 4
		}
		if big.user > 0 {
			cs.flags |= 128
			cs.user = strings.Repeat("u", big.user)
		}
		if big.pass > 0 {
			cs.flags |= 64
			cs.pass = strings.Repeat("p", big.pass)
		}
		enc := codec.Encode(cs.packet())
		emit(C11Case{Auth: "", First: enc, Origin: fmt.Sprintf("acceptable CONNECT of %d bytes (will message %d, user name %d, password %d bytes)", len(enc), big.will, big.user, big.pass), Then: "packets"})
	}
}

func failC11(t interface{ Fatalf(string, ...any) }, rec *ev.Rec, c C11Case, msg string) {
	p := rec.Violation("-", "bytes", msg, c, nil)
	t.Fatalf("VIOLATION %s replay=%s", msg, p)
}

func TestC11Enum(t *testing.T) {
	rec := ev.New("C11", "enum")
	defer rec.Flush()
	if rp := ev.LoadReplay(t, "enum"); rp != nil {
		var c C11Case
		json.Unmarshal(rp.Case, &c)
		if r := runC11(c); r.Fail != "" {
			failC11(t, rec, c, r.Fail)
		}
		return
	} else if ev.Replaying() {
		t.Skip()
	}
	e := ev.GetEnv()
	var cases []C11Case
	idx := 0
	enumC11(func(c C11Case) {
		idx++
		if idx%e.Shards == e.Shard {
			cases = append(cases, c)
		}
	})
	// cases are independent (own broker each): run them 8 at a time so the
	// one-second connect timeouts overlap
	type done struct {
		c C11Case
		r c11result
	}
	sem := make(chan struct{}, 8)
	out := make(chan done, len(cases))
	for _, c := range cases {
		sem <- struct{}{}
		go func(c C11Case) {
			defer func() { <-sem }()
			out <- done{c, runC11(c)}
		}(c)
	}
	var firstFail *done
	for range cases {
		d := <-out
		nt := false
		for _, cl := range d.r.Classes {
			if cl == "refused-with-effect-bearing-packets" {
				nt = true
			}
		}
		rec.Case(d.c, nt, d.r.Classes...)
		if d.r.Fail != "" && (firstFail == nil || len(d.c.First) < len(firstFail.c.First)) {
			dd := d
			firstFail = &dd
		}
	}
	rec.Exhaustive(true)
	rec.Set("exhaustive_space_c11", "all 256 connect-flag bytes x 3 authenticators; protocol name {MQTT,MQIsdp,other} x level {3,4,5,0,255} x 5 client-id classes x 4 credential variants x CleanSession x 3 authenticators; every non-CONNECT packet type and both reserved types as first packet x 3 authenticators; CONNECT bodies cut at every third length; truncations followed by close or silence; each followed in the same write by SUBSCRIBE '#', a retained PUBLISH and a QoS 1 PUBLISH")
	if firstFail != nil {
		failC11(t, rec, firstFail.c, firstFail.r.Fail)
	}
}

func TestC11Random(t *testing.T) {
	rec := ev.New("C11", "random")
	defer rec.Flush()
	if rp := ev.LoadReplay(t, "random"); rp != nil {
		var c C11Case
		json.Unmarshal(rp.Case, &c)
		if r := runC11(c); r.Fail != "" {
			failC11(t, rec, c, r.Fail)
		}
		return
	} else if ev.Replaying() {
		t.Skip()
	}
	rapid.Check(t, func(t *rapid.T) {
		cs := connectSpec{
			name:  rapid.SampledFrom([]string{"MQTT", "MQTT", "MQTT", "MQIsdp", "MQXX", ""}).Draw(t, "name"),
			level: rapid.SampledFrom([]byte{4, 4, 4, 3, 5, 0}).Draw(t, "level"),
			flags: byte(rapid.IntRange(0, 255).Draw(t, "flags")),
			id:    rapid.SampledFrom(append([]string{"x", "client42", "ABCDEFGHIJKLMNOPQRSTUVW"}, c11IDs...)).Draw(t, "id"),
			// besides right and wrong credentials: wrong pairs whose concatenation equals the accepted pair's
			user: rapid.SampledFrom([]string{"user", "user", "other", "", "userp", "use", "userpass"}).Draw(t, "user"),
			pass: rapid.SampledFrom([]string{"pass", "pass", "wrong", "", "ass", "rpass"}).Draw(t, "pass"),
			will: rapid.SampledFrom([]int{0, 0, 90, 150, 20000}).Draw(t, "willlen"),
		}
		if rapid.Bool().Draw(t, "sane-flags") {
			cs.flags &= 2 | 4 | 8 | 32 | 64 | 128
			if cs.flags&4 == 0 {
				cs.flags &^= 8 | 32
			}
			if cs.flags&128 == 0 {
				cs.flags &^= 64
			}
		}
		enc := codec.Encode(cs.packet())
		origin := fmt.Sprintf("CONNECT %s/%d flags=%08b id=%q user=%q pass=%q", cs.name, cs.level, cs.flags, cs.id, cs.user, cs.pass)
		for i, n := 0, rapid.SampledFrom([]int{0, 0, 0, 1, 1, 2}).Draw(t, "nmut"); i < n; i++ {
			switch rapid.IntRange(0, 2).Draw(t, "mut") {
			case 0:
				pos := rapid.IntRange(0, len(enc)-1).Draw(t, "pos")
				enc = append([]byte(nil), enc...)
				enc[pos] ^= 1 << rapid.IntRange(0, 7).Draw(t, "bit")
				origin += fmt.Sprintf(" bitflip@%d", pos)
			case 1:
				_, _, hdr, err := codec.Header(enc)
				if err == nil && len(enc) > hdr {
					cut := rapid.IntRange(0, len(enc)-hdr-1).Draw(t, "cut")
					enc = codec.Raw(enc[0], enc[hdr:hdr+cut])
					origin += fmt.Sprintf(" body-cut@%d", cut)
				}
			case 2:
				_, _, hdr, err := codec.Header(enc)
				if err == nil {
					extra := rapid.SliceOfN(rapid.Byte(), 1, 4).Draw(t, "extra")
					enc = codec.Raw(enc[0], append(append([]byte(nil), enc[hdr:]...), extra...))
					origin += " extra-bytes-inside"
				}
			}
		}
		if cs.will > 0 && cs.flags&4 != 0 {
			origin += fmt.Sprintf(" will-message=%d-bytes", cs.will)
		}
		c := C11Case{Auth: rapid.SampledFrom(c11Auths).Draw(t, "auth"), First: enc, Origin: origin, Then: "packets"}
		if rapid.IntRange(0, 2).Draw(t, "fragmented") == 0 {
			for i, n, at := 0, rapid.IntRange(1, 3).Draw(t, "nfrag"), 0; i < n; i++ {
				at += rapid.SampledFrom([]int{1, 1, 2, 2, 3, 4, 7, 20}).Draw(t, "fragstep")
				c.Frag = append(c.Frag, at)
			}
			c.Origin += fmt.Sprintf(" written in pieces cut at %v", c.Frag)
		}
		if c.Auth == fix.AuthUserPass && rapid.IntRange(0, 2).Draw(t, "victim") == 0 {
			c.Victim = rapid.SampledFrom([]string{"stored", "live"}).Draw(t, "victimkind")
		}
		// a corrupted remaining length can make the broker wait for bytes that never come;
		// close after the write in that case so the case stays cheap
		if _, remlen, hdr, err := codec.Header(enc); err != nil || hdr+remlen > len(enc)+len(effectPackets()) {
			c.Then = "close"
		}
		r := runC11(c)
		nt := false
		for _, cl := range r.Classes {
			if cl == "refused-with-effect-bearing-packets" {
				nt = true
			}
		}
		rec.Case(c, nt, r.Classes...)
		if r.Fail != "" {
			failC11(t, rec, c, r.Fail)
		}
	})
}

// plainID: 1-23 alphanumerics, the identifiers every server must accept.
func plainID(id string) bool {
	if len(id) == 0 || len(id) > 23 {
		return false
	}
	for _, ch := range []byte(id) {
		if !(ch >= '0' && ch <= '9' || ch >= 'a' && ch <= 'z' || ch >= 'A' && ch <= 'Z') {
			return false
		}
	}
	return true
}
