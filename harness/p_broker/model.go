// Package p_broker holds the broker-level checks that share one plan
// interpreter: a plan (data) is executed against a real in-process broker over
// net.Pipe and, in lock-step, against a reference broker model written from
// MQTT 3.1.1; discrepancies are classified, and every property's check
// reports only the classes its own statement covers.
package p_broker

import (
	"sort"
	"strings"

	"verifharness/ref/match"
)

// matcher abstracts filter matching and filter identity so that the recorded
// wrong behaviour of the library (known finding "empty-level") can be run as a
// variant model next to the specification model.
type matcher interface {
	Matches(filter, name string) bool
	Canon(filter string) string // identity of a filter inside a session
	CanonName(name string) string
	ValidFilter(f string) bool
}

type specMatcher struct{}

func (specMatcher) Matches(f, n string) bool  { return match.Matches(f, n) }
func (specMatcher) Canon(f string) string     { return f }
func (specMatcher) CanonName(n string) string { return n }
func (specMatcher) ValidFilter(f string) bool { return match.ValidFilter(f) }

// emptyLevelMatcher reproduces topics/memtopics.go nextTopicLevel: a leading
// or inner empty level of a filter OR name is treated as '+', a trailing empty
// level is dropped.
type emptyLevelMatcher struct{}

func libLevels(s string) []string {
	lv := strings.Split(s, "/")
	if len(lv) > 1 && lv[len(lv)-1] == "" {
		lv = lv[:len(lv)-1]
	}
	for i, l := range lv {
		if l == "" {
			lv[i] = "+"
		}
	}
	return lv
}

func (emptyLevelMatcher) Canon(f string) string     { return strings.Join(libLevels(f), "/") }
func (emptyLevelMatcher) CanonName(n string) string { return strings.Join(libLevels(n), "/") }
func (emptyLevelMatcher) ValidFilter(f string) bool {
	return match.ValidFilter(f)
}
func (emptyLevelMatcher) Matches(f, n string) bool {
	fl, nl := libLevels(f), libLevels(n)
	for i, l := range fl {
		if l == "#" {
			return true
		}
		if i >= len(nl) {
			return false
		}
		// a '+' that came from an empty NAME level is matched by '+' or by a
		// filter level that is itself '+' (from an empty level) only
		if l != "+" && l != nl[i] {
			return false
		}
	}
	return len(fl) == len(nl)
}

func hasEmptyLevel(s string) bool {
	for _, l := range strings.Split(s, "/") {
		if l == "" {
			return true
		}
	}
	return false
}

// ---- model -----------------------------------------------------------------

type will struct {
	Topic   string
	Payload []byte
	QoS     byte
	Retain  bool
}

type retMsg struct {
	Topic   string
	Payload []byte
	QoS     byte
	MsgNo   int
}

type msession struct {
	subs map[string]byte // canonical filter -> granted QoS
	orig map[string]string
}

type mconn struct {
	id    string
	clean bool
	will  *will
	sess  *msession
}

type model struct {
	m        matcher
	sessions map[string]*msession // state kept for client identifiers
	live     map[int]*mconn       // by client index
	inproc   map[int]map[string]byte
	retained map[string]retMsg
}

func newModel(m matcher) *model {
	return &model{m: m, sessions: map[string]*msession{}, live: map[int]*mconn{}, inproc: map[int]map[string]byte{}, retained: map[string]retMsg{}}
}

// connect returns the expected SessionPresent flag.
func (md *model) connect(ci int, id string, clean bool, w *will) bool {
	present := false
	var s *msession
	if !clean {
		if old, ok := md.sessions[id]; ok {
			s, present = old, true
		}
	}
	if s == nil {
		s = &msession{subs: map[string]byte{}, orig: map[string]string{}}
	}
	if clean {
		delete(md.sessions, id)
	} else {
		md.sessions[id] = s
	}
	md.live[ci] = &mconn{id: id, clean: clean, will: w, sess: s}
	return present
}

// end removes the live connection; returns the will to publish (nil if none).
func (md *model) end(ci int, byDisconnectPacket bool) *will {
	c := md.live[ci]
	if c == nil {
		return nil
	}
	delete(md.live, ci)
	if byDisconnectPacket {
		return nil
	}
	return c.will
}

func (md *model) subscribe(ci int, filter string, qos byte) {
	if c := md.live[ci]; c != nil {
		k := md.m.Canon(filter)
		c.sess.subs[k] = qos
		c.sess.orig[k] = filter
	}
}

func (md *model) unsubscribe(ci int, filter string) {
	if !md.m.ValidFilter(filter) {
		return // nothing can be held under an invalid filter
	}
	if c := md.live[ci]; c != nil {
		k := md.m.Canon(filter)
		delete(c.sess.subs, k)
		delete(c.sess.orig, k)
	}
}

// allowed returns, for one receiver, the sorted QoS values one copy per
// matching subscription would carry (empty = must receive nothing).
func allowedFor(m matcher, subs map[string]byte, topic string, pq byte) []byte {
	var a []byte
	for f, g := range subs {
		if m.Matches(f, topic) {
			q := pq
			if g < q {
				q = g
			}
			a = append(a, q)
		}
	}
	sort.Slice(a, func(i, j int) bool { return a[i] < a[j] })
	return a
}

// retain updates the retained store for an accepted publish.
func (md *model) retain(topic string, payload []byte, qos byte, msgno int) {
	if len(payload) == 0 {
		delete(md.retained, md.m.CanonName(topic))
		return
	}
	md.retained[md.m.CanonName(topic)] = retMsg{Topic: topic, Payload: append([]byte(nil), payload...), QoS: qos, MsgNo: msgno}
}

// retainedFor lists the retained messages matching a filter (sorted by topic).
func (md *model) retainedFor(filter string) []retMsg {
	var out []retMsg
	for _, r := range md.retained {
		if md.m.Matches(filter, r.Topic) {
			out = append(out, r)
		}
	}
	sort.Slice(out, func(i, j int) bool { return out[i].Topic < out[j].Topic })
	return out
}
