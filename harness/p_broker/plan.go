package p_broker

import (
	"bytes"
	"fmt"
	"sort"
	"sync"
	"sync/atomic"
	"time"

	"github.com/mdzio/go-mqtt/message"
	"github.com/mdzio/go-mqtt/service"
	"verifharness/census"
	"verifharness/fix"
	"verifharness/ref/codec"
	"verifharness/wire"
)

// ---- plan (data) -------------------------------------------------------------

type Will struct {
	Topic  string `json:"topic"`
	Size   int    `json:"size"`
	QoS    byte   `json:"qos"`
	Retain bool   `json:"retain,omitempty"`
}

type Op struct {
	K       string   `json:"k"` // connect sub unsub pub disconnect close garbage isub iunsub spub filler
	C       int      `json:"c"`
	Clean   bool     `json:"clean,omitempty"`
	Will    *Will    `json:"will,omitempty"`
	Filters []string `json:"filters,omitempty"`
	QoS     []byte   `json:"qos,omitempty"`
	Topic   string   `json:"topic,omitempty"`
	PQ      byte     `json:"pq,omitempty"`
	Retain  bool     `json:"retain,omitempty"`
	Size    int      `json:"size,omitempty"`
	Bytes   int      `json:"bytes,omitempty"`
	Burst   []int    `json:"burst,omitempty"`   // payload sizes of a pipelined burst (>= 8 each)
	Same    bool     `json:"same,omitempty"`    // pub: the payload of the previous publish on this topic again (only QoS and flags differ)
	Dup     bool     `json:"dup,omitempty"`     // pub (QoS > 0): the PUBLISH carries DUP=1 (a retransmission whose first copy was lost)
	EOFData bool     `json:"eofdata,omitempty"` // connect: transport may return last bytes together with EOF
	KA0     bool     `json:"ka0,omitempty"`     // connect: keep-alive 0 in the CONNECT (no keep-alive; the server substitutes its own)
	Pipe    int      `json:"pipe,omitempty"`    // connect: the CONNECT is written together with what follows, without waiting for the CONNACK: 1 = a PINGREQ, 2 = the DISCONNECT (the whole life of the connection in one write)
	Refuse  bool     `json:"refuse,omitempty"`  // isub: the callback returns an error for what it is handed during the Subscribe call; the application then unsubscribes
}

type Plan struct {
	BufSize  int   `json:"bufsize"`
	NClients int   `json:"nclients"`
	NInproc  int   `json:"ninproc,omitempty"`
	Ops      []Op  `json:"ops"`
	Seg      []int `json:"seg,omitempty"`   // transport: inbound bytes reach the broker in pieces of these sizes (cyclic)
	Reset    bool  `json:"reset,omitempty"` // transport: the end of a client's stream is a connection reset, not io.EOF
	// InprocErr: the in-process subscribers' callbacks return an error for every
	// live delivery (after taking it); the other subscribers' copies are not affected.
	InprocErr bool `json:"inproc_err,omitempty"`
	// PipeConnect: every connection the plan opens implicitly writes its CONNECT
	// and a PINGREQ in one piece.
	PipeConnect bool `json:"pipe_connect,omitempty"`
	// Auth: the broker checks credentials (any user, password "pass"): the plan's clients send
	// them, and operation "badconnect" is a CONNECT with a client's identifier and a wrong
	// password - refused with code 4, and without any effect on what the identifier's
	// session is.
	Auth bool `json:"auth,omitempty"`
	// IDPool > 0: the clients number their requests 1..IDPool over and over (every request of a
	// sequential plan is complete before the next is sent, so an identifier is free again at
	// once); 0: identifiers keep increasing. Pipelined bursts, whose exchanges are open at the
	// same time, take their identifiers from 20000 upwards.
	IDPool int `json:"id_pool,omitempty"`
}

// payload builds the message body: the first bytes name the message, the
// rest is a pattern keyed by the message number.
func payload(msgno, size int) []byte {
	b := make([]byte, size)
	for i := range b {
		b[i] = byte(msgno*131 + i*7 + (i >> 8))
	}
	if size >= 4 {
		b[0], b[1], b[2], b[3] = byte(msgno>>24), byte(msgno>>16), byte(msgno>>8), byte(msgno)
	}
	return b
}

var errRefused = fmt.Errorf("refused by the application")

// ---- discrepancies ---------------------------------------------------------------

// Discrepancy classes.
const (
	dRoute      = "route"       // who received what: recipients, copies, QoS, topic, payload
	dRetainLive = "retain-live" // live forward carries retain flag 1
	dRetained   = "retained"    // retained messages delivered for a new subscription
	dSuback     = "suback"      // SUBACK / UNSUBACK presence and content
	dConnack    = "connack"     // CONNACK code / SessionPresent
	dWill       = "will"        // will published / not published
	dAck        = "ack"         // PUBACK / PUBREC / PUBCOMP for the harness' own publishes
	dStream     = "stream"      // malformed bytes from the broker
	dLive       = "liveness"    // connection closed unexpectedly, teardown or answer missing at quiescence
	dEscaped    = "escaped-panic"
)

type Discrepancy struct {
	Class string `json:"class"`
	Op    int    `json:"op"`
	Text  string `json:"text"`
	Sig   string `json:"sig"` // "-" or the name of the variant model that explains it
}

type delivery struct {
	topic   string
	payload []byte
	qos     byte
	retain  bool
	dup     bool
}

type inprocSub struct {
	mu     sync.Mutex
	fn     service.OnPublishFunc
	got    []delivery
	refuse atomic.Bool // the callback returns an error (after recording what it was handed)
}

func (s *inprocSub) take() []delivery {
	s.mu.Lock()
	defer s.mu.Unlock()
	g := s.got
	s.got = nil
	return g
}

type exec struct {
	p           Plan
	b           *fix.Broker
	spec        *model
	vari        *model
	conns       []*fix.Conn
	cps         map[int][]byte // the CONNECT each live connection was opened with
	lastPayload map[string][]byte
	inproc      []*inprocSub
	msgno       int
	pid         uint16
	burstPID    uint16
	disc        []Discrepancy
	known       func(sig string) bool
	hits        map[string]int
	cls         map[string]bool
	abort       bool
	opIndex     int
	inconcl     string
}

func (e *exec) class(c string) { e.cls[c] = true }

func (e *exec) report(class, sig, format string, a ...interface{}) {
	if sig != "-" && e.known != nil && e.known(sig) {
		e.hits[sig]++
		return
	}
	if len(e.disc) < 20 {
		e.disc = append(e.disc, Discrepancy{Class: class, Op: e.opIndex, Text: fmt.Sprintf(format, a...), Sig: sig})
	}
}

func (e *exec) nextPID() uint16 {
	if e.p.IDPool > 0 {
		e.pid = e.pid%uint16(e.p.IDPool) + 1
		e.class("packet-identifiers-reused-at-once")
		return e.pid
	}
	e.pid++
	if e.pid == 0 {
		e.pid = 1
	}
	return e.pid
}

func clientID(ci int) string { return fmt.Sprintf("c%d", ci) }

// hang decides what an expired wait means: quiescent library goroutines =>
// the awaited thing can never happen (liveness discrepancy); otherwise the
// machine is overloaded and the case is inconclusive.
func (e *exec) hang(what string) {
	e.abort = true
	quiet := func() bool {
		for _, g := range census.Lib() {
			if !g.Parked() {
				return false
			}
		}
		return true
	}
	if quiet() {
		time.Sleep(200 * time.Millisecond)
		if quiet() {
			e.report(dLive, "-", "%s: nothing arrived within %v and every library goroutine is parked (%v)", what, wire.DefaultWait, census.Summary(census.Lib()))
			return
		}
	}
	if spin, cpu := census.Spinning(3*time.Second, 45*time.Second, nil); len(spin) > 0 {
		e.report(dLive, "-", "%s: nothing arrived within %v; since then the process has consumed %v of processor time while goroutine(s) of the library stayed in motion inside the same function in every census (a busy loop): %v", what, wire.DefaultWait, cpu.Round(time.Millisecond), census.Summary(spin))
		return
	}
	e.inconcl = what + ": deadline expired while library goroutines were still running"
}

// ---- observation helpers ---------------------------------------------------------

func pubsOf(rx []wire.Rx) (pubs []*codec.Packet, others []*codec.Packet) {
	for _, r := range rx {
		if r.P.Type == codec.PUBLISH {
			pubs = append(pubs, r.P)
		} else {
			others = append(others, r.P)
		}
	}
	return
}

// barrier cuts client ci's stream; ok=false if the connection is gone.
func (e *exec) barrier(ci int, what string) ([]wire.Rx, bool) {
	return e.barrierX(ci, what, false)
}

// barrierX: with closeAllowed the broker may close the connection instead of
// answering (the caller then treats the connection as ended abnormally).
func (e *exec) barrierX(ci int, what string, closeAllowed bool) ([]wire.Rx, bool) {
	c := e.conns[ci]
	if c == nil {
		return nil, false
	}
	rx, err := c.Barrier()
	if err == nil {
		return rx, true
	}
	if se := c.StreamErr(); se != nil {
		e.report(dStream, "-", "client %d received a malformed stream: %v", ci, se)
		e.abort = true
		return nil, false
	}
	if err == wire.ErrTimeout {
		e.hang(fmt.Sprintf("%s: client %d got no PINGRESP", what, ci))
		return nil, false
	}
	if closeAllowed {
		e.class("broker-closed-instead-of-answering")
		c.WaitTeardown(wire.DefaultWait)
		ws, _ := e.dropConn(ci, false)
		if ws != nil {
			e.spec.retainIf(ws)
			e.vari.retainIf(ws)
			e.checkWill(&expect{topic: ws.Topic, payload: ws.Payload, pq: ws.QoS, what: fmt.Sprintf("the will of client %d", ci)})
		}
		return nil, false
	}
	// closed by the broker although the plan did not end this connection
	e.report(dLive, "-", "%s: the broker closed the connection of client %d, which had done nothing wrong", what, ci)
	e.dropConn(ci, false)
	return nil, false
}

// dropConn forgets a connection that ended (abnormally unless byPacket).
func (e *exec) dropConn(ci int, byPacket bool) (ws, wv *will) {
	if c := e.conns[ci]; c != nil {
		c.Close()
	}
	e.conns[ci] = nil
	return e.spec.end(ci, byPacket), e.vari.end(ci, byPacket)
}

func subMultiset(got, allowed []byte) bool {
	var cg, ca [256]int
	for _, q := range got {
		cg[q]++
	}
	for _, q := range allowed {
		ca[q]++
	}
	for q := range cg {
		if cg[q] > ca[q] {
			return false
		}
	}
	return true
}

func deliveriesOK(got []byte, allowed []byte) bool {
	if len(allowed) == 0 {
		return len(got) == 0
	}
	return len(got) >= 1 && len(got) <= len(allowed) && subMultiset(got, allowed)
}

type expect struct {
	topic   string
	payload []byte
	pq      byte
	what    string
}

// checkDeliveries cuts every live client and every in-process subscriber and
// compares what they received with the model, for ONE application message
// (or none: x == nil means nothing may arrive).
func (e *exec) checkDeliveries(x *expect, retainedFlagWanted bool) {
	e.checkDeliveriesFrom(-1, x, retainedFlagWanted)
}

// checkDeliveriesFrom cuts the publisher's stream first: its PINGRESP proves
// that the fan-out of its publish is committed to every receiver's ring.
func (e *exec) checkDeliveriesFrom(first int, x *expect, retainedFlagWanted bool) {
	type rcv struct {
		name   string
		subs   func(m *model) map[string]byte
		got    []delivery
		inproc bool
	}
	var rs []rcv
	order := make([]int, 0, len(e.conns))
	if first >= 0 {
		order = append(order, first)
	}
	for ci := range e.conns {
		if ci != first {
			order = append(order, ci)
		}
	}
	for _, ci := range order {
		if e.conns[ci] == nil || e.abort {
			continue
		}
		rx, ok := e.barrier(ci, "cut")
		if !ok {
			continue
		}
		pubs, others := pubsOf(rx)
		for _, o := range others {
			if o.Type != codec.PUBREL { // PUBRELs are part of QoS 2 deliveries, acknowledged by the client
				e.report(dRoute, "-", "client %d received an unexpected %s", ci, o)
			}
		}
		var got []delivery
		for _, p := range pubs {
			got = append(got, delivery{string(p.Topic), p.Payload, p.QoS, p.Retain, p.Dup})
		}
		ci := ci
		rs = append(rs, rcv{fmt.Sprintf("client %d", ci), func(m *model) map[string]byte {
			if c := m.live[ci]; c != nil {
				return c.sess.subs
			}
			return nil
		}, got, false})
	}
	for ii, s := range e.inproc {
		ii := ii
		rs = append(rs, rcv{fmt.Sprintf("in-process subscriber %d", ii), func(m *model) map[string]byte { return m.inproc[ii] }, s.take(), true})
	}
	for _, r := range rs {
		var qs []byte
		bad := false
		for _, d := range r.got {
			if x == nil {
				continue
			}
			if d.topic != x.topic {
				e.report(dRoute, "-", "%s received a copy of %s with topic %q instead of %q", r.name, x.what, d.topic, x.topic)
				bad = true
			} else if !bytes.Equal(d.payload, x.payload) {
				e.report(dRoute, "-", "%s received %s with a payload of %d bytes that differs from the %d bytes published (first difference at %d)", r.name, x.what, len(d.payload), len(x.payload), firstDiff(d.payload, x.payload))
				bad = true
			}
			if r.inproc && d.retain != retainedFlagWanted {
				// an in-process callback sees the message object as published; the
				// statement speaks about messages forwarded to subscriptions on the wire
				e.class("in-process-delivery-with-retain-flag-as-published")
			} else if d.retain != retainedFlagWanted {
				e.report(dRetainLive, "-", "%s received %s (forwarded to an existing subscription) with retain flag %v", r.name, x.what, d.retain)
			}
			if d.dup && !r.inproc {
				// every delivery in these plans is the broker's first attempt (receivers
				// acknowledge at once): the DUP flag of the incoming PUBLISH must not be
				// propagated [MQTT-3.3.1-3]; with a granted QoS of 0 it would even make
				// the packet malformed
				e.report(dRoute, "-", "%s received %s with the DUP flag set at QoS %d although this is the broker's first delivery attempt to it", r.name, x.what, d.qos)
			}
			qs = append(qs, d.qos)
		}
		if bad {
			continue
		}
		if x == nil {
			if len(r.got) > 0 {
				e.report(dRoute, "-", "%s received %d PUBLISH packet(s) (first: topic %q, %d bytes) although nothing was published", r.name, len(r.got), r.got[0].topic, len(r.got[0].payload))
			}
			continue
		}
		as := allowedFor(e.spec.m, r.subs(e.spec), x.topic, x.pq)
		if deliveriesOK(qs, as) {
			if len(as) > 0 {
				e.class("delivered")
				if len(as) > 1 {
					e.class("overlapping-subscriptions")
				}
				for _, q := range qs {
					if q < x.pq {
						e.class("qos-downgrade")
					}
				}
			} else if r.subs(e.spec) != nil {
				e.class("non-recipient-connected")
			}
			continue
		}
		av := allowedFor(e.vari.m, r.subs(e.vari), x.topic, x.pq)
		sig := "-"
		if deliveriesOK(qs, av) {
			sig = "empty-level"
		}
		e.report(dRoute, sig, "%s received %d copies of %s (topic %q, publish QoS %d) at QoS %v; its matching subscriptions allow copies at QoS %v (held: %v)", r.name, len(qs), x.what, x.topic, x.pq, qs, as, subsList(r.subs(e.spec)))
	}
}

func subsList(m map[string]byte) []string {
	var out []string
	for f, q := range m {
		out = append(out, fmt.Sprintf("%s@%d", f, q))
	}
	sort.Strings(out)
	return out
}

func firstDiff(a, b []byte) int {
	for i := 0; i < len(a) && i < len(b); i++ {
		if a[i] != b[i] {
			return i
		}
	}
	if len(a) < len(b) {
		return len(a)
	}
	return len(b)
}

// ---- ops ------------------------------------------------------------------------------

func (e *exec) ensureConnected(ci int) bool {
	if e.conns[ci] != nil {
		return true
	}
	e.class("implicit-connect")
	e.doConnect(ci, true, nil)
	return e.conns[ci] != nil
}

// creds adds the credentials the plan's broker asks for (if it does).
func (e *exec) creds(cp *codec.Packet, pass string) {
	if e.p.Auth {
		cp.ConnectFlags |= 128 | 64
		cp.Username, cp.Password = []byte("u-"+string(cp.ClientID)), []byte(pass)
	}
}

// doBadConnect: somebody connects with client ci's identifier and a wrong password
// (CleanSession as drawn, a will of his own): refused, and of no consequence.
func (e *exec) doBadConnect(ci int, clean bool) {
	if !e.p.Auth || e.conns[ci] != nil {
		return
	}
	c := e.b.Dial(clientID(ci) + "-impostor")
	cp := wire.ConnectPacket(clientID(ci), clean, 120)
	e.creds(cp, "wrong")
	cp.ConnectFlags |= 4
	cp.WillTopic, cp.WillMessage = []byte("w/impostor"), []byte("never")
	ack, err := c.Connect(cp)
	if err == nil && ack.ReturnCode == 0 {
		e.report(dConnack, "-", "a CONNECT with the identifier of client %d and a wrong password was accepted", ci)
	}
	c.WaitClosed(wire.DefaultWait)
	c.Close()
	c.Served(wire.DefaultWait)
	e.class("refused-connect-with-a-client's-identifier")
	e.checkDeliveries(nil, false)
}

func (e *exec) doConnect(ci int, clean bool, w *Will) {
	pipe := 0
	if e.p.PipeConnect {
		pipe = 1
	}
	e.doConnectOpt(ci, clean, w, false, pipe)
}

func (e *exec) doConnectOpt(ci int, clean bool, w *Will, eofData bool, pipe int) {
	e.doConnectKA(ci, clean, w, eofData, pipe, false)
}

func (e *exec) doConnectKA(ci int, clean bool, w *Will, eofData bool, pipe int, ka0 bool) {
	if e.conns[ci] != nil {
		e.doEnd(ci, "close")
		if e.abort {
			return
		}
	}
	c := e.b.DialOpt(clientID(ci), eofData)
	if eofData {
		e.class("transport-returns-data-with-eof")
	}
	cp := wire.ConnectPacket(clientID(ci), clean, 120)
	e.creds(cp, "pass")
	if ka0 {
		cp.KeepAlive = 0
		e.class("connect-with-keep-alive-0")
	}
	var mw *will
	if w != nil {
		// the will payload depends on the will's parameters only, so that a
		// client can reconnect with a byte-identical CONNECT
		mw = &will{Topic: w.Topic, Payload: payload(9000+ci*100+int(w.QoS)*10+len(w.Topic), w.Size), QoS: w.QoS, Retain: w.Retain}
		cp.ConnectFlags |= 4 | w.QoS<<3
		if w.Retain {
			cp.ConnectFlags |= 32
		}
		cp.WillTopic, cp.WillMessage = []byte(w.Topic), mw.Payload
		e.class("connect-with-will")
	}
	if e.cps == nil {
		e.cps = map[int][]byte{}
	}
	e.cps[ci] = codec.Encode(cp)
	var ack *codec.Packet
	var err error
	switch pipe {
	case 1, 2:
		// the client does not wait for the CONNACK (MQTT 3.1.4 allows that): CONNECT
		// and the next packet reach the broker in one piece
		next := []byte{0xC0, 0}
		if pipe == 2 {
			next = []byte{0xE0, 0}
		}
		if err = c.SendRaw(append(codec.Encode(cp), next...)); err == nil {
			var got []wire.Rx
			if got, err = c.WaitFor(func(p *codec.Packet) bool { return p.Type == codec.CONNACK }, wire.DefaultWait); err == nil {
				ack = got[len(got)-1].P
			}
		}
		e.class(fmt.Sprintf("connect-pipelined-%d", pipe))
	default:
		ack, err = c.Connect(cp)
	}
	if err != nil {
		if err == wire.ErrTimeout {
			e.hang(fmt.Sprintf("client %d got no CONNACK", ci))
		} else {
			e.report(dConnack, "-", "client %d: acceptable CONNECT (clean=%v) was not answered: %v", ci, clean, err)
		}
		c.Close()
		return
	}
	wantSP := e.spec.connect(ci, clientID(ci), clean, mw)
	e.vari.connect(ci, clientID(ci), clean, mw)
	e.conns[ci] = c
	if ack.ReturnCode != 0 {
		e.report(dConnack, "-", "client %d: acceptable CONNECT refused with code %d", ci, ack.ReturnCode)
		e.dropConn(ci, true)
		return
	}
	if ack.SessionPresent != wantSP {
		e.report(dConnack, "-", "client %d: CONNECT clean=%v answered with SessionPresent=%v, expected %v", ci, clean, ack.SessionPresent, wantSP)
	}
	if wantSP {
		e.class("session-resumed")
		if len(e.spec.live[ci].sess.subs) > 0 {
			e.class("session-resumed-with-subscriptions")
		}
	}
	if !clean {
		e.class("persistent-connect")
	}
	if pipe == 2 {
		// the DISCONNECT was in the same write as the CONNECT
		e.doEnd(ci, "disconnect-sent")
		return
	}
	if pipe == 1 {
		if _, err := c.WaitFor(func(p *codec.Packet) bool { return p.Type == codec.PINGRESP }, wire.DefaultWait); err != nil {
			if err == wire.ErrTimeout {
				e.hang(fmt.Sprintf("client %d wrote CONNECT and PINGREQ in one piece, was accepted, and got no PINGRESP", ci))
			} else {
				e.report(dLive, "-", "client %d wrote CONNECT and PINGREQ in one piece and was accepted; the connection was closed instead of the PINGREQ being answered: %v", ci, err)
			}
			return
		}
	}
	// first request answered: restored subscriptions are active from here on
	if rx, ok := e.barrier(ci, "first request after CONNACK"); ok {
		if pubs, _ := pubsOf(rx); len(pubs) > 0 {
			e.report(dRoute, "-", "client %d received %d PUBLISH packet(s) right after CONNACK although nothing was published", ci, len(pubs))
		}
	}
}

// doAbortedConnect: a connection attempt that dies between the broker reading
// the CONNECT (CleanSession=0) and writing the CONNACK. Only made while the
// client is not connected and a persistent session of its identifier is
// stored: that state must still be there afterwards (nothing was established,
// nothing asked for its removal).
func (e *exec) doAbortedConnect(ci int) {
	if e.conns[ci] != nil {
		return
	}
	if _, ok := e.spec.sessions[clientID(ci)]; !ok {
		return
	}
	c := e.b.DialStalled(clientID(ci))
	cp := wire.ConnectPacket(clientID(ci), false, 120)
	e.creds(cp, "pass")
	if err := c.SendRawTimeout(codec.Encode(cp), wire.DefaultWait); err != nil {
		e.report(dLive, "-", "client %d: CONNECT of an attempt that is then aborted could not be written: %v", ci, err)
	}
	// the broker has read the CONNECT; its CONNACK cannot be delivered (nobody reads)
	settled(200 * time.Millisecond)
	c.Close()
	if !c.WaitTeardown(wire.DefaultWait) {
		e.hang(fmt.Sprintf("teardown of client %d's aborted connection attempt", ci))
		return
	}
	e.class("connect-aborted-before-connack")
	e.checkWill(nil)
}

// doSecondConnect: the client sends its CONNECT a second time on the live
// connection (a protocol violation, MQTT-3.1.0-2). A broker may ignore it or
// treat it as an error and drop the client; in the second case the connection
// has ended without a DISCONNECT packet, so the will is due.
func (e *exec) doSecondConnect(ci int) {
	c := e.conns[ci]
	if c == nil || e.cps[ci] == nil {
		return
	}
	c.SendRaw(e.cps[ci])
	if rx, err := c.Barrier(); err == nil {
		e.class("second-connect-ignored")
		if pubs, _ := pubsOf(rx); len(pubs) > 0 {
			e.report(dRoute, "-", "client %d received %d PUBLISH packet(s) after a repeated CONNECT although nothing was published", ci, len(pubs))
		}
		e.checkWill(nil)
		return
	}
	e.class("second-connect-ends-the-connection")
	e.doEnd(ci, "garbage-sent") // the broker closed the connection: an abnormal end
}

// doEnd ends connection ci: "disconnect" (DISCONNECT packet), "close"
// (abrupt), "garbage" (protocol error). The will is then checked.
func (e *exec) doEnd(ci int, how string) {
	c := e.conns[ci]
	if c == nil {
		return
	}
	hadWill := e.spec.live[ci] != nil && e.spec.live[ci].will != nil
	switch how {
	case "disconnect":
		c.Send(&codec.Packet{Type: codec.DISCONNECT})
	case "disconnect-close":
		// DISCONNECT and the end of the stream arrive together
		c.Send(&codec.Packet{Type: codec.DISCONNECT})
		c.Close()
		e.class("disconnect-then-immediate-close")
	case "requests-disconnect-close":
		// Requests that need an answer, then DISCONNECT, in one write by a client
		// that has stopped reading and closes. The schedule is forced: the
		// processor is held before it writes its last answer until the sender
		// has failed on the closed socket (the earlier answers could not be
		// delivered) - the remaining answer cannot be written any more, yet the
		// DISCONNECT behind it was received and suppresses the will.
		id := c.ID()
		var writes atomic.Int32
		var trapped atomic.Bool
		release := make(chan struct{})
		fix.SetYield(func(point string, obj interface{}) {
			if point != "writeMessage.enter" {
				return
			}
			if x, ok := obj.(uint64); ok && x == id && writes.Add(1) == 3 && trapped.CompareAndSwap(false, true) {
				<-release
			}
		})
		c.Stall()
		wrote := make(chan error, 1)
		go func() { wrote <- c.SendRawTimeout(append(bytes.Repeat([]byte{0xC0, 0}, 3), 0xE0, 0), 5*time.Second) }()
		for i := 0; i < 4000 && !trapped.Load(); i++ {
			time.Sleep(250 * time.Microsecond)
		}
		// the broker has taken the whole write (with a transport that hands the bytes over in
		// pieces the DISCONNECT may still be on its way when the processor reaches its third
		// answer: closing now would cut it off, and the will would be due)
		if err := <-wrote; err != nil {
			close(release)
			fix.SetYield(nil)
			c.Close()
			c.WaitTeardown(wire.DefaultWait)
			e.inconcl = "requests-disconnect-close: the broker did not take the client's last write"
			e.abort = true
			return
		}
		c.Close()
		if trapped.Load() {
			settled(300 * time.Millisecond)
			e.class("disconnect-behind-unanswerable-requests")
		} else {
			e.class("requests-disconnect-close-not-forced")
		}
		close(release)
		fix.SetYield(nil)
		how = "disconnect-close"
	case "bad-disconnect":
		// type DISCONNECT with non-zero reserved flags is malformed [MQTT-3.14.1-1]: a
		// protocol error, not a DISCONNECT packet - the will is due
		c.SendRaw([]byte{0xE0 | byte(1<<(uint(ci+e.opIndex)%4)), 0x00})
		e.class("disconnect-with-reserved-flags")
		how = "garbage"
	case "garbage-sent":
		// the offending packet was sent already; the broker is closing the connection
		how = "garbage"
	case "disconnect-sent":
		// the DISCONNECT was sent already (in the same write as the CONNECT); the
		// client hangs up as clients do after a DISCONNECT
		c.Close()
		how = "disconnect-close"
	case "garbage":
		c.SendRaw([]byte{0xF0, 0x00}) // reserved packet type 15
	default:
		c.Close()
	}
	if !c.WaitTeardown(wire.DefaultWait) {
		e.hang(fmt.Sprintf("teardown of client %d after %s", ci, how))
		return
	}
	if how != "close" && how != "disconnect-close" && !c.WaitClosed(wire.DefaultWait) {
		e.report(dLive, "-", "client %d: the broker did not close the connection after %s", ci, how)
	}
	ws, _ := e.dropConn(ci, how == "disconnect" || how == "disconnect-close")
	if hadWill {
		if how == "disconnect" || how == "disconnect-close" {
			e.class("will-suppressed-by-disconnect")
		} else {
			e.class("will-due")
		}
	}
	// what the others receive now is the will, or nothing
	if ws != nil {
		e.spec.retainIf(ws)
		e.vari.retainIf(ws)
		e.checkWill(&expect{topic: ws.Topic, payload: ws.Payload, pq: ws.QoS, what: fmt.Sprintf("the will of client %d", ci)})
	} else {
		e.checkWill(nil)
	}
}

func (md *model) retainIf(w *will) {
	if w.Retain {
		md.retain(w.Topic, w.Payload, w.QoS, 0)
	}
}

// checkWill is checkDeliveries with discrepancies re-labelled as will problems.
func (e *exec) checkWill(x *expect) {
	n := len(e.disc)
	e.checkDeliveries(x, false)
	for i := n; i < len(e.disc); i++ {
		if e.disc[i].Class == dRoute {
			e.disc[i].Class = dWill
		}
	}
}

func validQoS(q byte) bool { return q <= 2 }

func (e *exec) doSubscribe(op Op) {
	ci := op.C
	if !e.ensureConnected(ci) {
		return
	}
	c := e.conns[ci]
	pid := e.nextPID()
	sp := &codec.Packet{Type: codec.SUBSCRIBE, PacketID: pid}
	for i, f := range op.Filters {
		sp.Topics = append(sp.Topics, []byte(f))
		sp.QoSs = append(sp.QoSs, op.QoS[i])
	}
	if len(op.Filters) >= 4 {
		e.class("subscribe>=4-filters")
	}
	if err := c.Send(sp); err != nil {
		e.report(dLive, "-", "client %d: SUBSCRIBE could not be written: %v", ci, err)
		e.dropConn(ci, false)
		return
	}
	anyInvalid := false
	for i, f := range op.Filters {
		if !e.spec.m.ValidFilter(f) || !validQoS(op.QoS[i]) {
			anyInvalid = true
		}
	}
	rx, ok := e.barrierX(ci, "SUBSCRIBE", anyInvalid)
	if !ok {
		return
	}
	var suback *codec.Packet
	var pubs []*codec.Packet
	for _, r := range rx {
		switch {
		case r.P.Type == codec.SUBACK && suback == nil:
			suback = r.P
		case r.P.Type == codec.PUBLISH:
			pubs = append(pubs, r.P)
		case r.P.Type == codec.PUBREL:
		default:
			e.report(dSuback, "-", "client %d: unexpected %s in answer to SUBSCRIBE", ci, r.P)
		}
	}
	if anyInvalid {
		e.class("subscribe-with-invalid-filter-or-qos")
	}
	if suback == nil {
		e.report(dSuback, "-", "client %d: SUBSCRIBE %q (QoS %v, id %d) got no SUBACK although the connection stays open and answers PINGREQ", ci, op.Filters, op.QoS, pid)
		return
	}
	if suback.PacketID != pid {
		e.report(dSuback, "-", "client %d: SUBACK carries id %d, the SUBSCRIBE had %d", ci, suback.PacketID, pid)
	}
	if len(suback.ReturnCodes) != len(op.Filters) {
		e.report(dSuback, "-", "client %d: SUBACK has %d return codes for %d filters", ci, len(suback.ReturnCodes), len(op.Filters))
		return
	}
	var granted []grant // filters of this request that took effect, one entry per listed filter
	for i, f := range op.Filters {
		code := suback.ReturnCodes[i]
		ok := e.spec.m.ValidFilter(f) && validQoS(op.QoS[i])
		switch {
		case ok && code != op.QoS[i]:
			e.report(dSuback, "-", "client %d: filter %q requested at QoS %d, SUBACK code %#x (expected the granted QoS %d)", ci, f, op.QoS[i], code, op.QoS[i])
		case !ok && code != 0x80 && code > 2:
			e.report(dSuback, "-", "client %d: filter %q / QoS %d: SUBACK code %#x is neither 0x80 nor a QoS", ci, f, op.QoS[i], code)
		}
		if code <= 2 && ok {
			e.spec.subscribe(ci, f, code)
			e.vari.subscribe(ci, f, code)
			granted = append(granted, grant{f, code})
		}
	}
	e.checkRetainedDeliveries(fmt.Sprintf("client %d", ci), pubs, granted)
}

// checkRetainedDeliveries compares the PUBLISH packets that followed a
// subscription with the retained store.
type grant struct {
	f string
	q byte
}

func (e *exec) checkRetainedDeliveries(who string, pubs []*codec.Packet, granted []grant) {
	judge := func(md *model) string {
		type key struct{ topic string }
		got := map[string][]*codec.Packet{}
		for _, p := range pubs {
			got[string(p.Topic)] = append(got[string(p.Topic)], p)
		}
		want := map[string][]byte{} // topic -> allowed QoS values (one per matching filter)
		for _, gr := range granted {
			f, g := gr.f, gr.q
			for _, r := range md.retainedFor(f) {
				q := r.QoS
				if g < q {
					q = g
				}
				want[r.Topic] = append(want[r.Topic], q)
			}
		}
		for t, ps := range got {
			a, ok := want[t]
			if !ok {
				return fmt.Sprintf("%s received a PUBLISH on %q after subscribing to %v, but no retained message on a matching topic exists (retained: %v)", who, t, keys(granted), md.retainedTopics())
			}
			var qs []byte
			for _, p := range ps {
				r := md.retained[md.m.CanonName(t)]
				if !bytes.Equal(p.Payload, r.Payload) {
					return fmt.Sprintf("%s received the retained message on %q with a payload of %d bytes differing from the %d bytes stored (first difference at %d)", who, t, len(p.Payload), len(r.Payload), firstDiff(p.Payload, r.Payload))
				}
				if !p.Retain {
					return fmt.Sprintf("%s received the retained message on %q for a new subscription with retain flag 0", who, t)
				}
				qs = append(qs, p.QoS)
			}
			if !deliveriesOK(qs, sorted(a)) {
				return fmt.Sprintf("%s received %d copies of the retained message on %q at QoS %v; matching new subscriptions allow %v", who, len(qs), t, qs, sorted(a))
			}
		}
		for t := range want {
			if _, ok := got[t]; !ok {
				return fmt.Sprintf("%s subscribed to %v and did not receive the retained message on %q", who, keys(granted), t)
			}
		}
		return ""
	}
	fs := judge(e.spec)
	if fs == "" {
		if len(pubs) > 0 {
			e.class("retained-delivered")
		}
		return
	}
	sig := "-"
	if judge(e.vari) == "" {
		sig = "empty-level"
	}
	e.report(dRetained, sig, "%s", fs)
}

func sorted(a []byte) []byte {
	b := append([]byte(nil), a...)
	sort.Slice(b, func(i, j int) bool { return b[i] < b[j] })
	return b
}

func keys(m []grant) []string {
	var out []string
	for _, g := range m {
		out = append(out, fmt.Sprintf("%s@%d", g.f, g.q))
	}
	sort.Strings(out)
	return out
}

func (md *model) retainedTopics() []string {
	var out []string
	for _, r := range md.retained {
		out = append(out, r.Topic)
	}
	sort.Strings(out)
	return out
}

func (e *exec) doUnsubscribe(op Op) {
	ci := op.C
	if !e.ensureConnected(ci) {
		return
	}
	c := e.conns[ci]
	pid := e.nextPID()
	up := &codec.Packet{Type: codec.UNSUBSCRIBE, PacketID: pid}
	for _, f := range op.Filters {
		up.Topics = append(up.Topics, []byte(f))
	}
	if len(op.Filters) >= 4 {
		e.class("unsubscribe>=4-filters")
	}
	if err := c.Send(up); err != nil {
		e.report(dLive, "-", "client %d: UNSUBSCRIBE could not be written: %v", ci, err)
		e.dropConn(ci, false)
		return
	}
	rx, ok := e.barrier(ci, "UNSUBSCRIBE")
	if !ok {
		return
	}
	n := 0
	for _, r := range rx {
		if r.P.Type == codec.UNSUBACK {
			n++
			if r.P.PacketID != pid {
				e.report(dSuback, "-", "client %d: UNSUBACK carries id %d, the UNSUBSCRIBE had %d", ci, r.P.PacketID, pid)
			}
		} else if r.P.Type == codec.PUBLISH {
			e.report(dRoute, "-", "client %d received a PUBLISH while unsubscribing although nothing was published", ci)
		}
	}
	if n != 1 {
		e.report(dSuback, "-", "client %d: UNSUBSCRIBE %q (id %d) was answered by %d UNSUBACKs", ci, op.Filters, pid, n)
	}
	for _, f := range op.Filters {
		if l := e.spec.live[ci]; l != nil {
			if _, held := l.sess.subs[f]; held {
				e.class("unsubscribe-held-filter")
			}
		}
		e.spec.unsubscribe(ci, f)
		e.vari.unsubscribe(ci, f)
	}
}

func (e *exec) doPublish(op Op) {
	ci := op.C
	if !e.ensureConnected(ci) {
		return
	}
	c := e.conns[ci]
	e.msgno++
	pl := payload(e.msgno, op.Size)
	if prev, ok := e.lastPayload[op.Topic]; ok && op.Same && len(prev) > 0 {
		pl = prev
		e.class("publish-repeats-the-previous-payload")
	}
	if e.lastPayload == nil {
		e.lastPayload = map[string][]byte{}
	}
	e.lastPayload[op.Topic] = pl
	pp := &codec.Packet{Type: codec.PUBLISH, Topic: []byte(op.Topic), QoS: op.PQ, Retain: op.Retain, Payload: pl}
	if op.PQ > 0 {
		pp.PacketID = e.nextPID()
		if op.Dup {
			pp.Dup = true
			e.class("publish-with-DUP-set")
		}
	}
	what := fmt.Sprintf("message #%d from client %d", e.msgno, ci)
	if err := c.Send(pp); err != nil {
		e.report(dLive, "-", "client %d: PUBLISH could not be written: %v", ci, err)
		e.dropConn(ci, false)
		return
	}
	wait := func(t byte) bool {
		_, err := c.Take(func(p *codec.Packet) bool { return p.Type == t && p.PacketID == pp.PacketID }, wire.DefaultWait)
		if err == wire.ErrTimeout {
			// is the connection still answering? then the ack is simply missing
			e.report(dAck, "-", "client %d: %s (QoS %d, id %d) was not answered by %s", ci, what, op.PQ, pp.PacketID, codec.TypeName(t))
			return false
		} else if err != nil {
			e.report(dLive, "-", "client %d: connection ended while waiting for %s: %v", ci, codec.TypeName(t), err)
			e.dropConn(ci, false)
			return false
		}
		return true
	}
	switch op.PQ {
	case 1:
		if !wait(codec.PUBACK) {
			return
		}
	case 2:
		if !wait(codec.PUBREC) {
			return
		}
		c.Send(&codec.Packet{Type: codec.PUBREL, PacketID: pp.PacketID})
		if !wait(codec.PUBCOMP) {
			return
		}
	}
	if op.Retain {
		e.spec.retain(op.Topic, pl, op.PQ, e.msgno)
		e.vari.retain(op.Topic, pl, op.PQ, e.msgno)
		if len(pl) == 0 {
			e.class("retained-clear")
		} else {
			e.class("retained-publish")
		}
	}
	e.classifyPublish(op)
	e.checkDeliveriesFrom(ci, &expect{topic: op.Topic, payload: pl, pq: op.PQ, what: what}, false)
}

func (e *exec) classifyPublish(op Op) {
	if hasEmptyLevel(op.Topic) {
		e.class("publish-topic-with-empty-level")
	}
	limit := e.p.BufSize - 8192
	switch {
	case op.Size == 0:
		e.class("payload-empty")
	case op.Size >= limit-64:
		e.class("payload-at-packet-limit")
	case op.Size >= 4000:
		e.class("payload>=4KiB")
	}
}

func (e *exec) doServerPublish(op Op) {
	e.msgno++
	pl := payload(e.msgno, op.Size)
	m := message.NewPublishMessage()
	m.SetTopic([]byte(op.Topic))
	m.SetPayload(append([]byte(nil), pl...))
	m.SetQoS(op.PQ)
	m.SetRetain(op.Retain)
	done := make(chan error, 1)
	go func() { done <- e.b.Srv.Publish(m) }()
	select {
	case err := <-done:
		if err != nil {
			e.report(dRoute, "-", "Server.Publish(%q) returned %v", op.Topic, err)
			return
		}
	case <-time.After(wire.DefaultWait):
		e.hang("Server.Publish")
		return
	}
	e.class("in-process-publish")
	if op.Retain {
		e.spec.retain(op.Topic, pl, op.PQ, e.msgno)
		e.vari.retain(op.Topic, pl, op.PQ, e.msgno)
	}
	e.classifyPublish(op)
	e.checkDeliveries(&expect{topic: op.Topic, payload: pl, pq: op.PQ, what: fmt.Sprintf("in-process message #%d", e.msgno)}, false)
}

func (e *exec) doInprocSub(op Op) {
	ii := op.C % len(e.inproc)
	s := e.inproc[ii]
	f, q := op.Filters[0], op.QoS[0]
	if op.Refuse {
		// the application turns down what the subscription hands it at once and
		// withdraws the subscription; nothing is judged but the consequences for
		// everybody else (the stored retained messages stay what they were)
		s.refuse.Store(true)
		e.b.Srv.Subscribe(f, q, &s.fn)
		s.refuse.Store(false)
		e.b.Srv.Unsubscribe(f, &s.fn)
		s.take()
		if e.spec.inproc[ii] != nil {
			delete(e.spec.inproc[ii], e.spec.m.Canon(f))
			delete(e.vari.inproc[ii], e.vari.m.Canon(f))
		}
		e.class("in-process-subscribe-refused")
		return
	}
	err := e.b.Srv.Subscribe(f, q, &s.fn)
	valid := e.spec.m.ValidFilter(f) && validQoS(q)
	got := s.take()
	if err != nil && valid && e.p.InprocErr && len(got) > 0 {
		// the callback (which returns an error for everything in this plan) turned down a
		// retained message, Server.Subscribe reports that; the application withdraws
		e.b.Srv.Unsubscribe(f, &s.fn)
		if e.spec.inproc[ii] != nil {
			delete(e.spec.inproc[ii], e.spec.m.Canon(f))
			delete(e.vari.inproc[ii], e.vari.m.Canon(f))
		}
		e.class("in-process-subscribe-refused")
		return
	}
	if err != nil {
		if valid {
			e.report(dSuback, "-", "Server.Subscribe(%q, %d) returned %v", f, q, err)
		}
		return
	}
	if !valid {
		e.report(dSuback, "-", "Server.Subscribe(%q, %d) accepted an invalid filter/QoS", f, q)
		return
	}
	e.class("in-process-subscribe")
	if e.spec.inproc[ii] == nil {
		e.spec.inproc[ii], e.vari.inproc[ii] = map[string]byte{}, map[string]byte{}
	}
	e.spec.inproc[ii][e.spec.m.Canon(f)] = q
	e.vari.inproc[ii][e.vari.m.Canon(f)] = q
	var pubs []*codec.Packet
	for _, d := range got {
		pubs = append(pubs, &codec.Packet{Type: codec.PUBLISH, Topic: []byte(d.topic), Payload: d.payload, QoS: d.qos, Retain: d.retain})
	}
	e.checkRetainedDeliveries(fmt.Sprintf("in-process subscriber %d", ii), pubs, []grant{{f, q}})
}

func (e *exec) doInprocUnsub(op Op) {
	ii := op.C % len(e.inproc)
	s := e.inproc[ii]
	f := op.Filters[0]
	e.b.Srv.Unsubscribe(f, &s.fn)
	if e.spec.inproc[ii] != nil {
		delete(e.spec.inproc[ii], e.spec.m.Canon(f))
		delete(e.vari.inproc[ii], e.vari.m.Canon(f))
	}
}

// doBurst: the publisher writes several PUBLISH packets back to back (one
// write), so later packets arrive while earlier ones are still being fanned
// out; then everything is cut and each message is judged like a single publish.
func (e *exec) doBurst(op Op) {
	ci := op.C
	if !e.ensureConnected(ci) {
		return
	}
	c := e.conns[ci]
	q := op.PQ
	if q > 2 {
		q = 2
	}
	type bm struct {
		no int
		pl []byte
	}
	var msgs []bm
	var out []byte
	var pids []uint16
	for _, sz := range op.Burst {
		if sz < 8 {
			sz = 8
		}
		e.msgno++
		pl := payload(e.msgno, sz)
		pp := &codec.Packet{Type: codec.PUBLISH, Topic: []byte(op.Topic), QoS: q, Payload: pl}
		if q > 0 {
			if e.p.IDPool > 0 {
				e.burstPID++
				pp.PacketID = 20000 + e.burstPID%40000
			} else {
				pp.PacketID = e.nextPID()
			}
			pids = append(pids, pp.PacketID)
		}
		out = append(out, codec.Encode(pp)...)
		msgs = append(msgs, bm{e.msgno, pl})
	}
	if err := c.SendRaw(out); err != nil {
		e.report(dLive, "-", "client %d: burst of %d publishes could not be written: %v", ci, len(msgs), err)
		e.dropConn(ci, false)
		return
	}
	first := byte(codec.PUBACK)
	if q == 2 {
		first = codec.PUBREC
	}
	for _, id := range pids {
		if _, err := c.Take(func(p *codec.Packet) bool { return p.Type == first && p.PacketID == id }, wire.DefaultWait); err != nil {
			e.report(dAck, "-", "client %d: PUBLISH id %d of a burst was not answered by %s (%v)", ci, id, codec.TypeName(first), err)
			return
		}
	}
	if q == 2 {
		// all exchanges are open at once; now the releases, pipelined as well
		var rel []byte
		for _, id := range pids {
			rel = append(rel, codec.Encode(&codec.Packet{Type: codec.PUBREL, PacketID: id})...)
		}
		if err := c.SendRaw(rel); err != nil {
			e.report(dLive, "-", "client %d: the PUBRELs of a burst could not be written: %v", ci, err)
			e.dropConn(ci, false)
			return
		}
		for _, id := range pids {
			if _, err := c.Take(func(p *codec.Packet) bool { return p.Type == codec.PUBCOMP && p.PacketID == id }, wire.DefaultWait); err != nil {
				e.report(dAck, "-", "client %d: PUBREL id %d of a burst was not answered by PUBCOMP (%v)", ci, id, err)
				return
			}
		}
		e.class("pipelined-qos2-burst")
		if len(pids) > 16 {
			e.class("qos2-burst>16-exchanges-open")
		}
	}
	e.class("pipelined-burst")
	if len(out) > e.p.BufSize {
		e.class("burst>1-ring")
	}
	order := []int{ci}
	for i := range e.conns {
		if i != ci {
			order = append(order, i)
		}
	}
	type rcv struct {
		name        string
		pubs        []delivery
		subs, vsubs map[string]byte
	}
	var rs []rcv
	for _, ri := range order {
		if e.conns[ri] == nil || e.abort {
			continue
		}
		rx, ok := e.barrier(ri, "burst cut")
		if !ok {
			continue
		}
		pubs, _ := pubsOf(rx)
		r := rcv{name: fmt.Sprintf("client %d", ri)}
		for _, p := range pubs {
			r.pubs = append(r.pubs, delivery{string(p.Topic), p.Payload, p.QoS, p.Retain, p.Dup})
		}
		if l := e.spec.live[ri]; l != nil {
			r.subs = l.sess.subs
		}
		if l := e.vari.live[ri]; l != nil {
			r.vsubs = l.sess.subs
		}
		rs = append(rs, r)
	}
	for ii, s := range e.inproc {
		rs = append(rs, rcv{fmt.Sprintf("in-process subscriber %d", ii), s.take(), e.spec.inproc[ii], e.vari.inproc[ii]})
	}
	for _, r := range rs {
		per := map[int][]byte{}
		bad := false
		for _, p := range r.pubs {
			no := -1
			if len(p.payload) >= 4 {
				no = int(p.payload[0])<<24 | int(p.payload[1])<<16 | int(p.payload[2])<<8 | int(p.payload[3])
			}
			var m *bm
			for i := range msgs {
				if msgs[i].no == no {
					m = &msgs[i]
				}
			}
			if m == nil || p.topic != op.Topic || !bytes.Equal(p.payload, m.pl) {
				e.report(dRoute, "-", "%s received a PUBLISH (topic %q, %d bytes, starts %x) that is none of the %d messages of the burst from client %d byte for byte", r.name, p.topic, len(p.payload), clip(p.payload, 8), len(msgs), ci)
				bad = true
				break
			}
			per[no] = append(per[no], p.qos)
		}
		if bad {
			continue
		}
		as, av := allowedFor(e.spec.m, r.subs, op.Topic, q), allowedFor(e.vari.m, r.vsubs, op.Topic, q)
		for _, m := range msgs {
			if deliveriesOK(per[m.no], as) {
				if len(as) > 0 {
					e.class("delivered")
				}
				continue
			}
			sig := "-"
			if deliveriesOK(per[m.no], av) {
				sig = "empty-level"
			}
			e.report(dRoute, sig, "%s received %d copies of burst message #%d (topic %q, QoS %d) at QoS %v; its matching subscriptions allow %v", r.name, len(per[m.no]), m.no, op.Topic, q, per[m.no], as)
			break
		}
	}
}

// doFiller pushes unrelated traffic through client ci's connection:
// UNSUBSCRIBE packets for a long filter nobody holds (no routing effect).
func (e *exec) doFiller(op Op) {
	ci := op.C
	if !e.ensureConnected(ci) {
		return
	}
	c := e.conns[ci]
	per := e.p.BufSize - 8192 - 64
	if per > 7000 {
		per = 7000
	}
	filter := append([]byte("zz/never/"), bytes.Repeat([]byte{'x'}, per)...)
	for sent := 0; sent < op.Bytes; sent += per {
		up := &codec.Packet{Type: codec.UNSUBSCRIBE, PacketID: e.nextPID(), Topics: [][]byte{filter}}
		if err := c.Send(up); err != nil {
			e.report(dLive, "-", "client %d: filler traffic could not be written: %v", ci, err)
			e.dropConn(ci, false)
			return
		}
	}
	if op.Bytes >= e.p.BufSize {
		e.class("filler>=1-ring")
	}
	rx, ok := e.barrier(ci, "filler")
	if !ok {
		return
	}
	if pubs, _ := pubsOf(rx); len(pubs) > 0 {
		e.report(dRoute, "-", "client %d received %d PUBLISH packet(s) during filler traffic", ci, len(pubs))
	}
}

// ---- run ------------------------------------------------------------------------------

type outcome struct {
	Disc         []Discrepancy  `json:"discrepancies"`
	Classes      []string       `json:"classes"`
	KnownHits    map[string]int `json:"known_hits,omitempty"`
	Inconclusive string         `json:"inconclusive,omitempty"`
	LogTail      string         `json:"log_tail,omitempty"`
}

func normalise(p *Plan) {
	if p.NClients < 1 {
		p.NClients = 1
	}
	if p.BufSize == 0 {
		p.BufSize = 16384
	}
}

// runPlan executes a plan on a fresh broker.
func runPlan(p Plan, known func(string) bool) outcome {
	normalise(&p)
	authName := ""
	if p.Auth {
		authName = fix.AuthGate
	}
	b, err := fix.New(int64(p.BufSize), authName)
	if err != nil {
		return outcome{Inconclusive: "fixture: " + err.Error()}
	}
	e := &exec{p: p, b: b, spec: newModel(specMatcher{}), vari: newModel(emptyLevelMatcher{}), conns: make([]*fix.Conn, p.NClients),
		known: known, hits: map[string]int{}, cls: map[string]bool{}}
	b.Seg, b.Reset = p.Seg, p.Reset
	if len(p.Seg) > 0 {
		e.cls["segmented"] = true
	}
	if p.Reset {
		e.cls["reset"] = true
	}
	for i := 0; i < p.NInproc; i++ {
		s := &inprocSub{}
		s.fn = func(m *message.PublishMessage) error {
			s.mu.Lock()
			s.got = append(s.got, delivery{string(m.Topic()), append([]byte(nil), m.Payload()...), m.QoS(), m.Retain(), m.Dup()})
			s.mu.Unlock()
			if s.refuse.Load() || p.InprocErr {
				return errRefused
			}
			return nil
		}
		e.inproc = append(e.inproc, s)
	}
	defer b.Shutdown()
	for i, op := range p.Ops {
		if e.abort {
			break
		}
		e.opIndex = i
		if op.K != "isub" && op.K != "iunsub" && op.K != "spub" {
			op.C = op.C % p.NClients
		}
		switch op.K {
		case "connect":
			e.doConnectKA(op.C, op.Clean, op.Will, op.EOFData, op.Pipe, op.KA0)
		case "sub":
			e.doSubscribe(op)
		case "unsub":
			e.doUnsubscribe(op)
		case "pub":
			e.doPublish(op)
		case "disconnect", "close", "garbage", "disconnect-close", "requests-disconnect-close", "bad-disconnect":
			if e.conns[op.C] != nil {
				e.doEnd(op.C, op.K)
			}
		case "aborted-connect":
			e.doAbortedConnect(op.C)
		case "second-connect":
			e.doSecondConnect(op.C)
		case "badconnect":
			e.doBadConnect(op.C, op.Clean)
		case "isub":
			if len(e.inproc) > 0 {
				e.doInprocSub(op)
			}
		case "iunsub":
			if len(e.inproc) > 0 {
				e.doInprocUnsub(op)
			}
		case "spub":
			e.doServerPublish(op)
		case "filler":
			e.doFiller(op)
		case "burst":
			e.doBurst(op)
		}
	}
	for _, c := range b.Conns() {
		if se := c.StreamErr(); se != nil {
			e.report(dStream, "-", "connection %s received a malformed stream from the broker: %v", c.Name, se)
		}
	}
	for _, x := range b.Escaped() {
		e.report(dEscaped, "-", "%s", x)
	}
	out := outcome{Disc: e.disc, KnownHits: e.hits, Inconclusive: e.inconcl}
	for c := range e.cls {
		out.Classes = append(out.Classes, c)
	}
	sort.Strings(out.Classes)
	if len(e.disc) > 0 {
		out.LogTail = fix.Log.Tail(3000)
	}
	return out
}
