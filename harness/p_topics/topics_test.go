// C06 — the topic store implements MQTT filter matching over any subscribe
// history.
//
// Oracle: a flat model (map (subscriber, filter) -> QoS, map topic -> retained
// message) evaluated with the reference matcher ref/match (MQTT 3.1.1 section
// 4.7). Only the public API of topics.NewMemProvider() is used.
//
// Signatures: an observation that fails the oracle is re-evaluated against
// *variant machines*. A variant machine is the same store with exactly the
// recorded wrong behaviours of one flag set switched on (see the f* constants).
// The observation gets the signature of the smallest flag set whose machine
// predicts the library's answer exactly, or "-" when none does. Only
// signatures listed in KNOWN_FINDINGS.txt are tolerated; the generators never
// avoid the inputs.
package p_topics

import (
	"bytes"
	"encoding/hex"
	"encoding/json"
	"fmt"
	"math/bits"
	"math/rand"
	"sort"
	"strconv"
	"strings"
	"testing"

	"github.com/mdzio/go-mqtt/message"
	"github.com/mdzio/go-mqtt/topics"
	"pgregory.net/rapid"
	"verifharness/ev"
	"verifharness/ref/match"
)

// ---- subscriber identities ---------------------------------------------------

// The broker registers pointers (*service.OnPublishFunc). memtopics.equal
// compares two interface values of the same dynamic type with ==, which for
// pointers is identity, and falls through to "false" for distinct pointers.
// The pointee has a non-zero size so that distinct allocations have distinct
// addresses.
type subscriber struct{ id int }

const maxSubs = 64

var idents = func() (a [maxSubs]*subscriber) {
	for i := range a {
		a[i] = &subscriber{id: i}
	}
	return
}()

// ---- case --------------------------------------------------------------------

// Op is one operation of a history (JSON form is the replay format).
type Op struct {
	K string `json:"k"`           // sub | unsub | unsuball | ret | q | qr
	S int    `json:"s,omitempty"` // subscriber index (sub, unsub)
	F string `json:"f"`           // filter (sub, unsub, qr) or topic name (ret, q)
	Q byte   `json:"q,omitempty"` // subscription QoS (sub), message QoS (ret), publish QoS (q)
	P []byte `json:"p,omitempty"` // payload (ret); empty = clear the retained message
}

// Case is a history plus what the probe set after every op is built from.
type Case struct {
	Subs  int      `json:"subs"`  // number of subscriber identities
	PQ    byte     `json:"pq"`    // second publish QoS probed after every op (besides 2)
	Vocab []string `json:"vocab"` // levels the probe names are built from (the empty level is always added)
	Ops   []Op     `json:"ops"`
}

func (o Op) String() string {
	switch o.K {
	case "sub":
		return fmt.Sprintf("Subscribe(%q, qos %d, s%d)", o.F, o.Q, o.S)
	case "unsub":
		return fmt.Sprintf("Unsubscribe(%q, s%d)", o.F, o.S)
	case "unsuball":
		return fmt.Sprintf("Unsubscribe(%q, nil) [all subscribers of the filter]", o.F)
	case "ret":
		if len(o.P) == 0 {
			return fmt.Sprintf("Retain(%q, empty payload)", o.F)
		}
		return fmt.Sprintf("Retain(%q, %q, qos %d)", o.F, o.P, o.Q)
	case "q":
		return fmt.Sprintf("query Subscribers(%q, %d)", o.F, o.Q)
	case "qr":
		return fmt.Sprintf("query Retained(%q)", o.F)
	}
	return "?" + o.K
}

// inDomain: the statement's domain. Names and filters starting with '$' are
// out of scope; Unsubscribe/Retained are only exercised with well-formed
// filters and Retain/Subscribers with well-formed names; QoS is 0..2.
func inDomain(o Op) bool {
	if strings.HasPrefix(o.F, "$") || o.Q > 2 {
		return false
	}
	switch o.K {
	case "sub":
		return true // any string, valid or not
	case "unsub", "unsuball", "qr":
		return match.ValidFilter(o.F)
	case "ret", "q":
		return match.ValidName(o.F)
	}
	return false
}

// ---- observations --------------------------------------------------------------

type vent struct { // one reported subscriber
	s int
	q byte
}

type vmsg struct { // one retained message
	topic   string
	payload []byte
	q       byte
}

// probe names one observation.
type probe struct {
	kind byte   // 'C' return value of the op itself, 'S' Subscribers, 'R' Retained
	arg  string // name ('S') or filter ('R')
	pq   byte
}

func (p probe) String() string {
	switch p.kind {
	case 'S':
		return fmt.Sprintf("Subscribers(%q, pq %d)", p.arg, p.pq)
	case 'R':
		return fmt.Sprintf("Retained(%q)", p.arg)
	}
	return "return value"
}

const errAnswer = "ERROR"

func minq(a, b byte) byte {
	if a < b {
		return a
	}
	return b
}

// canonical answers (order-free)
func subsAnswer(v []vent) string {
	items := make([]string, len(v))
	for i, e := range v {
		items[i] = "s" + strconv.Itoa(e.s) + ":" + strconv.Itoa(int(e.q))
	}
	sort.Strings(items)
	return "[" + strings.Join(items, " ") + "]"
}

func retAnswer(v []vmsg) string {
	items := make([]string, len(v))
	for i, m := range v {
		items[i] = strconv.Quote(m.topic) + "|q" + strconv.Itoa(int(m.q)) + "|" + hex.EncodeToString(m.payload)
	}
	sort.Strings(items)
	return "[" + strings.Join(items, " ") + "]"
}

// ---- the specification model -----------------------------------------------------

type subKey struct {
	s int
	f string
}

type specModel struct {
	subs map[subKey]byte
	ret  map[string]vmsg
}

func newSpec() *specModel { return &specModel{subs: map[subKey]byte{}, ret: map[string]vmsg{}} }

// apply returns the specified return value of a Subscribe ("" for the other
// ops, whose return value the statement does not talk about).
func (m *specModel) apply(o Op) string {
	switch o.K {
	case "sub":
		if !match.ValidFilter(o.F) {
			return errAnswer // rejected, no side effect
		}
		m.subs[subKey{o.S, o.F}] = o.Q // replaces
		return "ok:" + strconv.Itoa(int(o.Q))
	case "unsub":
		delete(m.subs, subKey{o.S, o.F})
	case "unsuball":
		// Unsubscribe(filter, nil): the form the client library uses - every
		// subscriber of exactly this filter is removed, nothing else
		for k := range m.subs {
			if k.f == o.F {
				delete(m.subs, k)
			}
		}
	case "ret":
		if len(o.P) == 0 {
			delete(m.ret, o.F)
		} else {
			m.ret[o.F] = vmsg{o.F, append([]byte(nil), o.P...), o.Q}
		}
	}
	return ""
}

func (m *specModel) subscribers(name string, pq byte, out []vent) []vent {
	for k, q := range m.subs {
		if match.Matches(k.f, name) {
			out = append(out, vent{k.s, minq(pq, q)})
		}
	}
	return out
}

func (m *specModel) retained(filter string, out []vmsg) []vmsg {
	for t, v := range m.ret {
		if match.Matches(filter, t) {
			out = append(out, v)
		}
	}
	return out
}

// ---- variant machines ---------------------------------------------------------------

type flagset uint8

const (
	// a level starting with '$' that is not the first level makes every call
	// fail at the moment the walk reaches that level (Subscribe and Retain
	// leave the nodes of the earlier levels behind)
	fDollar flagset = 1 << iota
	// Subscribe with the zero-length filter is accepted
	fEmptyFilter
	// filters and names are split so that one trailing empty level is dropped
	// and every other empty level becomes "+" (in a name that "+" only equals
	// a "+" of a filter)
	fEmptyLevel
	// "x/#" does not match "x" in Subscribers (Retained is not affected)
	fHashParent
	// clearing a retained message removes every ancestor that is left without
	// children, together with the ancestor's own retained message
	fRetainPrune
	nFlags = 5
)

var flagNames = [nFlags]string{"dollar-level", "empty-filter", "empty-level", "hash-parent", "retain-prune"}

func (f flagset) String() string { return variantNames[f] }

var variantNames = func() (n [1 << nFlags]string) {
	for f := range n {
		n[f] = flagset(f).name()
	}
	return
}()

func (f flagset) name() string {
	var p []string
	for i := 0; i < nFlags; i++ {
		if f&(1<<i) != 0 {
			p = append(p, flagNames[i])
		}
	}
	return strings.Join(p, "+")
}

// all non-empty flag sets, smallest first
var variants = func() []flagset {
	var v []flagset
	for f := flagset(1); f < 1<<nFlags; f++ {
		v = append(v, f)
	}
	sort.SliceStable(v, func(i, j int) bool {
		return bits.OnesCount8(uint8(v[i])) < bits.OnesCount8(uint8(v[j]))
	})
	return v
}()

type vsnode struct {
	subs []vent
	kids map[string]*vsnode
}

type vrnode struct {
	msg  *vmsg
	kids map[string]*vrnode
}

type split struct {
	lv  []string
	bad int
}

type machine struct {
	fl    flagset
	sroot *vsnode
	rroot *vrnode
	last  string              // return value of the last Subscribe
	memo  [2]map[string]split // levels() of names [0] and filters [1]
	vbuf  []vent
	mbuf  []vmsg
}

func newMachine(fl flagset) *machine {
	return &machine{fl: fl, sroot: &vsnode{kids: map[string]*vsnode{}}, rroot: &vrnode{kids: map[string]*vrnode{}},
		memo: [2]map[string]split{{}, {}}}
}

// levels splits s the way the variant does. bad is the index of the first
// level at which a walk fails (-1: none).
func (m *machine) levels(s string, filter bool) ([]string, int) {
	k := 0
	if filter {
		k = 1
	}
	sp, ok := m.memo[k][s]
	if !ok {
		sp.lv, sp.bad = m.split(s, filter)
		m.memo[k][s] = sp
	}
	return sp.lv, sp.bad
}

func (m *machine) split(s string, filter bool) (lv []string, bad int) {
	lv = strings.Split(s, "/")
	bad = -1
	for i, l := range lv {
		if filter && ((strings.ContainsAny(l, "#+") && len(l) > 1) || (l == "#" && i != len(lv)-1)) {
			bad = i
			break
		}
		if m.fl&fDollar != 0 && i > 0 && strings.HasPrefix(l, "$") {
			bad = i
			break
		}
	}
	if m.fl&fEmptyLevel != 0 {
		if lv[len(lv)-1] == "" {
			lv = lv[:len(lv)-1]
		}
		for i, l := range lv {
			if l == "" {
				lv[i] = "+"
			}
		}
	}
	return
}

func (m *machine) apply(o Op) {
	switch o.K {
	case "sub":
		m.last = m.subscribe(o.S, o.F, o.Q)
	case "unsub":
		m.unsubscribe(o.S, o.F)
	case "unsuball":
		for again := true; again; {
			again = false
			for s := 0; s < maxSubs; s++ {
				m.unsubscribe(s, o.F)
			}
		}
	case "ret":
		if len(o.P) == 0 {
			m.clear(o.F)
		} else {
			m.retain(o.F, o.P, o.Q)
		}
	}
}

func (m *machine) subscribe(s int, f string, q byte) string {
	n := m.sroot
	if len(f) == 0 {
		if m.fl&fEmptyFilter == 0 {
			return errAnswer
		}
	} else {
		lv, bad := m.levels(f, true)
		for i, l := range lv {
			if i == bad {
				return errAnswer
			}
			c := n.kids[l]
			if c == nil {
				c = &vsnode{kids: map[string]*vsnode{}}
				n.kids[l] = c
			}
			n = c
		}
	}
	for i := range n.subs {
		if n.subs[i].s == s {
			n.subs[i].q = q
			return "ok:" + strconv.Itoa(int(q))
		}
	}
	n.subs = append(n.subs, vent{s, q})
	return "ok:" + strconv.Itoa(int(q))
}

func (m *machine) unsubscribe(s int, f string) {
	lv, bad := m.levels(f, true)
	path := []*vsnode{m.sroot}
	for i, l := range lv {
		if i == bad {
			return
		}
		c := path[i].kids[l]
		if c == nil {
			return
		}
		path = append(path, c)
	}
	n := path[len(path)-1]
	at := -1
	for i := range n.subs {
		if n.subs[i].s == s {
			at = i
		}
	}
	if at < 0 {
		return
	}
	n.subs = append(n.subs[:at], n.subs[at+1:]...)
	for i := len(path) - 1; i >= 1; i-- {
		if len(path[i].subs) != 0 || len(path[i].kids) != 0 {
			break
		}
		delete(path[i-1].kids, lv[i-1])
	}
}

// subscribersV: ok = no error; the slice is valid until the next call.
func (m *machine) subscribersV(name string, pq byte) (bool, []vent) {
	lv, bad := m.levels(name, false)
	m.vbuf = m.vbuf[:0]
	ok := m.smatch(m.sroot, lv, 0, bad, pq, &m.vbuf)
	return ok, m.vbuf
}

func (m *machine) subscribers(name string, pq byte) string {
	ok, v := m.subscribersV(name, pq)
	if !ok {
		return errAnswer
	}
	return subsAnswer(v)
}

func addSubs(x *vsnode, pq byte, out *[]vent) {
	for _, e := range x.subs {
		*out = append(*out, vent{e.s, minq(pq, e.q)})
	}
}

func (m *machine) smatch(n *vsnode, lv []string, d, bad int, pq byte, out *[]vent) bool {
	if d == len(lv) {
		addSubs(n, pq, out)
		if h := n.kids["#"]; h != nil && m.fl&fHashParent == 0 {
			addSubs(h, pq, out)
		}
		return true
	}
	if d == bad {
		return false
	}
	for k, c := range n.kids {
		if k == "#" {
			addSubs(c, pq, out)
		} else if k == "+" || k == lv[d] {
			if !m.smatch(c, lv, d+1, bad, pq, out) {
				return false
			}
		}
	}
	return true
}

func (m *machine) retain(topic string, payload []byte, q byte) {
	lv, bad := m.levels(topic, false)
	n := m.rroot
	for i, l := range lv {
		if i == bad {
			return
		}
		c := n.kids[l]
		if c == nil {
			c = &vrnode{kids: map[string]*vrnode{}}
			n.kids[l] = c
		}
		n = c
	}
	n.msg = &vmsg{topic, append([]byte(nil), payload...), q}
}

func (m *machine) clear(topic string) {
	lv, bad := m.levels(topic, false)
	path := []*vrnode{m.rroot}
	for i, l := range lv {
		if i == bad {
			return
		}
		c := path[i].kids[l]
		if c == nil {
			return
		}
		path = append(path, c)
	}
	path[len(path)-1].msg = nil
	for i := len(path) - 1; i >= 1; i-- {
		if len(path[i].kids) != 0 || (path[i].msg != nil && m.fl&fRetainPrune == 0) {
			break
		}
		delete(path[i-1].kids, lv[i-1])
	}
}

// retainedV: ok = no error; the slice is valid until the next call.
func (m *machine) retainedV(filter string) (bool, []vmsg) {
	lv, bad := m.levels(filter, true)
	m.mbuf = m.mbuf[:0]
	ok := m.rmatch(m.rroot, lv, 0, bad, &m.mbuf)
	return ok, m.mbuf
}

func (m *machine) retained(filter string) string {
	ok, v := m.retainedV(filter)
	if !ok {
		return errAnswer
	}
	return retAnswer(v)
}

func (m *machine) rall(n *vrnode, out *[]vmsg) {
	if n.msg != nil {
		*out = append(*out, *n.msg)
	}
	for _, c := range n.kids {
		m.rall(c, out)
	}
}

func (m *machine) rmatch(n *vrnode, lv []string, d, bad int, out *[]vmsg) bool {
	if d == len(lv) {
		if n.msg != nil {
			*out = append(*out, *n.msg)
		}
		return true
	}
	if d == bad {
		return false
	}
	switch lv[d] {
	case "#":
		m.rall(n, out)
	case "+":
		for _, c := range n.kids {
			if !m.rmatch(c, lv, d+1, bad, out) {
				return false
			}
		}
	default:
		if c := n.kids[lv[d]]; c != nil {
			return m.rmatch(c, lv, d+1, bad, out)
		}
	}
	return true
}

// ---- engine: library + model + lazily built variant machines -------------------------

type failure struct {
	Sig     string `json:"sig"`
	Op      int    `json:"op"`      // index of the last applied op
	OpText  string `json:"op_text"` //
	Probe   string `json:"observation"`
	Library string `json:"library"`
	Spec    string `json:"spec_oracle"`
}

func (f *failure) text() string {
	return fmt.Sprintf("after op %d %s: %s = %s, the section 4.7 oracle expects %s [sig %s]", f.Op, f.OpText, f.Probe, f.Library, f.Spec, f.Sig)
}

// obsv is what the library answered.
type obsv struct {
	err  bool
	bad  string // malformed answer that no machine can predict
	ret  string // 'C'
	subs []vent // 'S'
	msgs []vmsg // 'R'
}

func (o *obsv) text(kind byte) string {
	switch {
	case o.err:
		return errAnswer
	case o.bad != "":
		return o.bad
	case kind == 'S':
		return subsAnswer(o.subs)
	case kind == 'R':
		return retAnswer(o.msgs)
	}
	return o.ret
}

func sameVents(a, b []vent) bool {
	if len(a) != len(b) {
		return false
	}
	var cnt [maxSubs * 3]int8
	for _, w := range a {
		cnt[w.s*3+int(w.q)]++
	}
	for _, w := range b {
		k := w.s*3 + int(w.q)
		if cnt[k]--; cnt[k] < 0 {
			return false
		}
	}
	return true
}

func sameMsgs(a, b []vmsg) bool {
	if len(a) != len(b) || len(a) > 64 {
		return false
	}
	var used uint64
	for _, x := range a {
		hit := false
		for j, y := range b {
			if used&(1<<uint(j)) == 0 && x.topic == y.topic && x.q == y.q && bytes.Equal(x.payload, y.payload) {
				used |= 1 << uint(j)
				hit = true
				break
			}
		}
		if !hit {
			return false
		}
	}
	return true
}

// Which flags can influence which kind of observation (a machine with a flag
// that cannot influence the observation answers like the machine without it,
// so the smallest explaining set never contains it).
const (
	maskC = fDollar | fEmptyFilter
	maskS = fDollar | fEmptyLevel | fHashParent
	maskR = fDollar | fEmptyLevel | fRetainPrune
)

// triggers: the flags whose wrong behaviour the string/op can set off at all.
func triggers(o Op) flagset {
	fl := fEmptyLevel
	if strings.Contains(o.F, "/$") {
		fl |= fDollar
	}
	switch {
	case o.K == "sub" && o.F == "":
		fl |= fEmptyFilter
	case o.K == "sub" && strings.HasSuffix(o.F, "/#"):
		fl |= fHashParent
	case o.K == "ret" && len(o.P) == 0:
		fl |= fRetainPrune
	}
	return fl
}

type engine struct {
	nameBuf []byte // reused for every Subscribers look-up of probeSubs
	p       *topics.MemTopics
	spec    *specModel
	ops     []Op
	rel     flagset // flags triggered by the ops so far
	vms     [1 << nFlags]*machine
	known   func(string) bool
	hits    map[string]int
	sb      []interface{}
	qb      []byte
	mb      []*message.PublishMessage
	want    []vent
	wantR   []vmsg
	got     obsv
}

func newEngine(known func(string) bool) *engine {
	return &engine{p: topics.NewMemProvider(), spec: newSpec(), known: known}
}

func (e *engine) machine(fl flagset) *machine {
	if m := e.vms[fl]; m != nil {
		return m
	}
	m := newMachine(fl)
	for _, o := range e.ops {
		m.apply(o)
	}
	e.vms[fl] = m
	return m
}

// judge classifies the observation e.got, which failed the spec oracle.
// nil = it is explained completely by known findings.
func (e *engine) judge(p probe, want func() string) *failure {
	got := &e.got
	mask := maskC
	switch p.kind {
	case 'S':
		mask = maskS
	case 'R':
		mask = maskR
	}
	rel := e.rel
	if strings.Contains(p.arg, "/$") {
		rel |= fDollar
	}
	mask &= rel
	explains := func(fl flagset) bool {
		m := e.machine(fl)
		switch p.kind {
		case 'S':
			ok, v := m.subscribersV(p.arg, p.pq)
			return ok != got.err && (got.err || sameVents(v, got.subs))
		case 'R':
			ok, v := m.retainedV(p.arg)
			return ok != got.err && (got.err || sameMsgs(v, got.msgs))
		}
		return m.last == got.ret
	}
	// A set of flags is known when it is listed itself or each of its
	// interacting defects is listed.
	knownParts := func(fl flagset) []string {
		if e.known == nil {
			return nil
		}
		sig := fl.String()
		if e.known(sig) {
			return []string{sig}
		}
		parts := strings.Split(sig, "+")
		for _, s := range parts {
			if !e.known(s) {
				return nil
			}
		}
		return parts
	}
	sig := "-"
	if got.bad == "" {
		// first the explanations made of listed findings only (smallest first):
		// an observation that a listed finding explains completely is excluded
		// even if an unlisted (e.g. repaired) variant would predict it too
		for _, fl := range variants {
			if fl&^mask != 0 {
				continue
			}
			if parts := knownParts(fl); parts != nil && explains(fl) {
				if e.hits == nil {
					e.hits = map[string]int{}
				}
				for _, s := range parts {
					e.hits[s]++
				}
				return nil
			}
		}
		// otherwise name the smallest variant that explains it (diagnostic only)
		for _, fl := range variants {
			if fl&^mask != 0 {
				continue
			}
			if explains(fl) {
				sig = fl.String()
				break
			}
		}
	}
	f := &failure{Sig: sig, Op: len(e.ops) - 1, Probe: p.String(), Library: got.text(p.kind), Spec: want()}
	if f.Op >= 0 {
		f.OpText = e.ops[f.Op].String()
	}
	return f
}

// apply runs one in-domain op on the library, the model and the machines.
func (e *engine) apply(o Op) *failure {
	e.ops = append(e.ops, o)
	e.rel |= triggers(o)
	for _, m := range e.vms {
		if m != nil {
			m.apply(o)
		}
	}
	want := e.spec.apply(o)
	switch o.K {
	case "sub":
		got := errAnswer
		fb := []byte(o.F)
		if q, err := e.p.Subscribe(fb, o.Q, idents[o.S]); err == nil {
			got = "ok:" + strconv.Itoa(int(q))
		}
		scribble(fb) // the caller's bytes are the caller's (a connection's buffer is reused): the store must have copied what it keeps
		if got != want {
			e.got = obsv{ret: got}
			return e.judge(probe{kind: 'C'}, func() string { return want })
		}
	case "unsub":
		// "error expected or tolerated": only the state afterwards is judged
		fb := []byte(o.F)
		e.p.Unsubscribe(fb, idents[o.S])
		scribble(fb)
	case "unsuball":
		fb := []byte(o.F)
		e.p.Unsubscribe(fb, nil)
		scribble(fb)
	case "ret":
		m := message.NewPublishMessage()
		tb, pb := []byte(o.F), append([]byte(nil), o.P...)
		defer func() { scribble(tb); scribble(pb) }()
		m.SetTopic(tb)
		m.SetPayload(pb)
		m.SetQoS(o.Q)
		m.SetRetain(true)
		if o.Q > 0 {
			m.SetPacketID(1)
		}
		// the statement is about what Retained returns afterwards
		e.p.Retain(m)
	}
	return nil
}

// scribble overwrites bytes the harness handed to the store.
func scribble(b []byte) {
	for i := range b {
		b[i] = 'Z'
	}
}

// sameSubs compares the library's last answer with want as multisets.
func (e *engine) sameSubs(want []vent) bool {
	if len(e.sb) != len(want) || len(e.qb) != len(want) {
		return false
	}
	var cnt [maxSubs * 3]int8
	for _, w := range want {
		cnt[w.s*3+int(w.q)]++
	}
	for i, s := range e.sb {
		p, ok := s.(*subscriber)
		if !ok || p == nil || p.id < 0 || p.id >= maxSubs || idents[p.id] != p || e.qb[i] > 2 {
			return false
		}
		k := p.id*3 + int(e.qb[i])
		if cnt[k]--; cnt[k] < 0 {
			return false
		}
	}
	return true
}

// checkSubs judges the library's Subscribers(name, pq) against want.
func (e *engine) checkSubs(name string, nameB []byte, pq byte, want []vent) *failure {
	ok := e.p.Subscribers(nameB, pq, &e.sb, &e.qb) == nil
	if ok && e.sameSubs(want) {
		return nil
	}
	g := obsv{err: !ok, subs: e.got.subs[:0]}
	if ok && len(e.sb) != len(e.qb) {
		g.bad = fmt.Sprintf("%d subscribers but %d QoS values", len(e.sb), len(e.qb))
	} else if ok {
		for i, s := range e.sb {
			p, isSub := s.(*subscriber)
			if !isSub || p == nil || p.id < 0 || p.id >= maxSubs || idents[p.id] != p || e.qb[i] > 2 {
				g.bad = fmt.Sprintf("foreign entry (%v, qos %d)", s, e.qb[i])
				break
			}
			g.subs = append(g.subs, vent{p.id, e.qb[i]})
		}
	}
	e.got = g
	return e.judge(probe{'S', name, pq}, func() string { return subsAnswer(want) })
}

func (e *engine) probeSubs(name string, pq byte) *failure {
	e.want = e.spec.subscribers(name, pq, e.want[:0])
	// the caller's buffer is the caller's: one buffer, rewritten in place for every look-up
	// (a publisher that reuses its topic buffer; the broker's own decoded topics live in a
	// ring that is overwritten, too)
	e.nameBuf = append(e.nameBuf[:0], name...)
	return e.checkSubs(name, e.nameBuf, pq, e.want)
}

func (e *engine) probeRet(filter string, filterB []byte) *failure {
	e.wantR = e.spec.retained(filter, e.wantR[:0])
	e.mb = e.mb[:0]
	ok := e.p.Retained(filterB, &e.mb) == nil
	if ok && len(e.mb) == len(e.wantR) && len(e.mb) <= 64 {
		// exactly the expected topics, each once, byte-identical payload, same QoS
		same := true
		var used uint64
		for _, m := range e.mb {
			hit := false
			if m != nil {
				for j, w := range e.wantR {
					if used&(1<<uint(j)) == 0 && string(m.Topic()) == w.topic {
						hit = bytes.Equal(m.Payload(), w.payload) && m.QoS() == w.q
						used |= 1 << uint(j)
						break
					}
				}
			}
			if !hit {
				same = false
				break
			}
		}
		if same {
			return nil
		}
	}
	g := obsv{err: !ok, msgs: e.got.msgs[:0]}
	if ok {
		for _, m := range e.mb {
			if m == nil {
				g.bad = "a nil message"
				break
			}
			g.msgs = append(g.msgs, vmsg{string(m.Topic()), m.Payload(), m.QoS()})
		}
	}
	e.got = g
	return e.judge(probe{kind: 'R', arg: filter}, func() string { return retAnswer(e.wantR) })
}

// ---- the history interpreter ----------------------------------------------------------

type outcome struct {
	Failure    string
	Sig        string
	Detail     *failure
	NonTrivial bool
	Classes    []string
	Known      map[string]int // known findings reproduced (observations per signature)
}

const maxProbeNames = 200

// probeNames: all names of <= 3 levels over the vocabulary and the empty
// level; a level starting with '$' never comes first.
func probeNames(vocab []string) []string {
	seen := map[string]bool{"": true}
	later := []string{""}
	for _, v := range vocab {
		if !seen[v] && !strings.Contains(v, "/") && match.ValidName(v) {
			seen[v] = true
			later = append(later, v)
		}
	}
	var out []string
	cur := []string{}
	for _, l := range later {
		if !strings.HasPrefix(l, "$") {
			cur = append(cur, l)
		}
	}
	for depth := 1; depth <= 3; depth++ {
		var next []string
		for _, p := range cur {
			if p != "" && len(out) < maxProbeNames {
				out = append(out, p)
			}
			if depth < 3 {
				for _, l := range later {
					next = append(next, p+"/"+l)
				}
			}
		}
		cur = next
	}
	return out
}

func hasEmptyLevel(s string) bool {
	return s == "" || strings.HasPrefix(s, "/") || strings.HasSuffix(s, "/") || strings.Contains(s, "//")
}

// run executes a case on a fresh provider. known tells which signatures are
// listed known findings (nil: none).
func run(c Case, known func(string) bool) (out outcome) {
	nsubs := c.Subs
	if nsubs < 1 {
		nsubs = 1
	}
	if nsubs > maxSubs {
		nsubs = maxSubs
	}
	pq2 := c.PQ % 3
	e := newEngine(known)
	classes := map[string]bool{}
	defer func() {
		for k := range classes {
			out.Classes = append(out.Classes, k)
		}
		sort.Strings(out.Classes)
		out.Known = e.hits
	}()

	names := probeNames(c.Vocab)
	nameB := make([][]byte, len(names))
	for i, n := range names {
		nameB[i] = []byte(n)
	}
	// probe filters for Retained: every well-formed filter or name of the case
	// plus fixed wildcard shapes
	var rfilters []string
	seenF := map[string]bool{}
	addF := func(f string) {
		if !seenF[f] && len(rfilters) < 48 && match.ValidFilter(f) && !strings.HasPrefix(f, "$") {
			seenF[f] = true
			rfilters = append(rfilters, f)
		}
	}
	for _, f := range []string{"#", "+", "+/+", "+/#", "/#", "/+", "+/", "+/+/+"} {
		addF(f)
	}
	for _, v := range c.Vocab {
		if match.ValidName(v) && !strings.Contains(v, "/") {
			addF(v + "/#")
			addF(v + "/+")
		}
	}
	for _, o := range c.Ops {
		if o.K != "q" {
			addF(o.F)
		}
	}
	rfilterB := make([][]byte, len(rfilters))
	for i, f := range rfilters {
		rfilterB[i] = []byte(f)
	}

	matchList := map[string][]int{} // filter -> indexes of the probe names it matches
	listOf := func(f string) []int {
		l, ok := matchList[f]
		if !ok {
			l = []int{}
			for i, n := range names {
				if match.Matches(f, n) {
					l = append(l, i)
				}
			}
			matchList[f] = l
		}
		return l
	}
	exp := make([][]vent, len(names))
	tmp := make([]vent, 0, 16)

	fail := func(f *failure) outcome {
		out.Failure, out.Sig, out.Detail = f.text(), f.Sig, f
		return out
	}

	if len(c.Ops) >= 40 {
		classes["ops>=40"] = true
	}
	if nsubs >= 17 {
		classes["crowd>=17-subscribers"] = true
	}
	for _, o := range c.Ops {
		o.S = ((o.S % nsubs) + nsubs) % nsubs
		if !inDomain(o) {
			classes["skipped-out-of-domain-op"] = true
			continue
		}
		if hasEmptyLevel(o.F) && o.F != "" {
			classes["empty-level"] = true
		}
		if strings.Contains(o.F, "/$") {
			classes["dollar-level"] = true
		}
		switch o.K {
		case "sub":
			if !match.ValidFilter(o.F) {
				classes["invalid-filter"] = true
				break
			}
			if strings.HasSuffix(o.F, "#") {
				classes["multi-level-wildcard"] = true
			}
			if strings.Contains(o.F, "+") {
				classes["single-level-wildcard"] = true
			}
			if old, ok := e.spec.subs[subKey{o.S, o.F}]; ok {
				if old != o.Q {
					classes["qos-replaced"] = true
					if len(listOf(o.F)) > 0 {
						out.NonTrivial = true // the probes below see the replaced entry
					}
				} else {
					classes["resubscribe-same-qos"] = true
				}
			}
			for k := range e.spec.subs {
				if k.f == o.F && k.s != o.S {
					classes["shared-filter"] = true
				}
			}
		case "unsuball":
			n := 0
			for k := range e.spec.subs {
				if k.f == o.F {
					n++
				}
			}
			if n > 0 {
				classes["unsubscribe-all-of-a-filter"] = true
				if len(listOf(o.F)) > 0 {
					out.NonTrivial = true
				}
			}
		case "unsub":
			if _, ok := e.spec.subs[subKey{o.S, o.F}]; ok {
				classes["unsubscribe"] = true
				if len(listOf(o.F)) > 0 {
					out.NonTrivial = true // the probes below would have seen the removed entry
				}
			} else {
				classes["unsubscribe-absent"] = true
			}
		case "ret":
			_, had := e.spec.ret[o.F]
			switch {
			case len(o.P) == 0 && had:
				classes["retain-clear"] = true
			case len(o.P) == 0:
				classes["retain-clear-absent"] = true
			case had:
				classes["retain-overwrite"] = true
			default:
				classes["retain-set"] = true
			}
		}

		if f := e.apply(o); f != nil {
			return fail(f)
		}
		switch o.K {
		case "q":
			if f := e.probeSubs(o.F, o.Q); f != nil {
				return fail(f)
			}
		case "qr":
			if f := e.probeRet(o.F, []byte(o.F)); f != nil {
				return fail(f)
			}
		}

		// after every op: the whole probe set
		for i := range exp {
			exp[i] = exp[i][:0]
		}
		for k, q := range e.spec.subs {
			for _, i := range listOf(k.f) {
				exp[i] = append(exp[i], vent{k.s, q})
			}
		}
		for i, n := range names {
			if len(exp[i]) >= 3 {
				classes["overlap>=3"] = true
			}
			if f := e.checkSubs(n, nameB[i], 2, exp[i]); f != nil {
				return fail(f)
			}
			if len(exp[i]) == 0 && len(e.sb) == 0 {
				// nobody expected and nobody reported at publish QoS 2: the
				// second publish QoS has no entry whose QoS it could change
				continue
			}
			tmp = tmp[:0]
			for _, w := range exp[i] {
				tmp = append(tmp, vent{w.s, minq(pq2, w.q)})
			}
			if f := e.checkSubs(n, nameB[i], pq2, tmp); f != nil {
				return fail(f)
			}
		}
		for i, f := range rfilters {
			if fl := e.probeRet(f, rfilterB[i]); fl != nil {
				return fail(fl)
			}
		}
	}
	return out
}

// ---- exhaustive enumeration -------------------------------------------------------------

// Scenario is the replay form of one member of the enumeration.
type Scenario struct {
	Kind string `json:"kind"`         // single | pair
	F    string `json:"f"`            // filter subscribed by s0
	SQ   byte   `json:"sq"`           // its QoS
	N    string `json:"n,omitempty"`  // single: probed topic name
	PQ   byte   `json:"pq,omitempty"` // single: publish QoS
	F2   string `json:"f2,omitempty"` // pair: filter subscribed by s1
	Q2   byte   `json:"q2,omitempty"` // pair: s1's first QoS
	Q3   byte   `json:"q3,omitempty"` // pair: s1's QoS after re-subscribing
}

func enum(alpha []string, maxLevels int) []string {
	var out []string
	cur := []string{""}
	for l := 1; l <= maxLevels; l++ {
		var next []string
		for _, p := range cur {
			for _, a := range alpha {
				s := a
				if l > 1 {
					s = p + "/" + a
				}
				next = append(next, s)
			}
		}
		out = append(out, next...)
		cur = next
	}
	return out
}

var (
	filterAlpha = []string{"a", "b", "", "+", "#"}
	nameAlpha   = []string{"a", "b", ""}
)

func validNames(maxLevels int) (names []string, b [][]byte) {
	for _, n := range enum(nameAlpha, maxLevels) {
		if match.ValidName(n) { // drops the zero-length string
			names = append(names, n)
			b = append(b, []byte(n))
		}
	}
	return
}

var names3, names3B = validNames(3)

// runScenario executes one scenario on a fresh provider.
func runScenario(s Scenario, known func(string) bool) (*failure, map[string]int) {
	e := newEngine(known)
	switch s.Kind {
	case "single":
		// an invalid filter must be rejected and leave the probe answer empty;
		// a valid one must be granted SQ and be reported iff it matches
		if f := e.apply(Op{K: "sub", S: 0, F: s.F, Q: s.SQ}); f != nil {
			return f, e.hits
		}
		return e.probeSubs(s.N, s.PQ), e.hits
	case "pair":
		all := func() *failure {
			for i, n := range names3 {
				e.want = e.spec.subscribers(n, 2, e.want[:0])
				if f := e.checkSubs(n, names3B[i], 2, e.want); f != nil {
					return f
				}
			}
			return nil
		}
		for _, o := range []Op{
			{K: "sub", S: 0, F: s.F, Q: s.SQ},
			{K: "sub", S: 1, F: s.F2, Q: s.Q2},
			{K: "unsub", S: 0, F: s.F},         // must not disturb s1
			{K: "sub", S: 1, F: s.F2, Q: s.Q3}, // must replace, not add
		} {
			if !inDomain(o) {
				return &failure{Sig: "-", Probe: "scenario", Library: "out-of-domain op " + o.String()}, nil
			}
			if f := e.apply(o); f != nil {
				return f, e.hits
			}
			if f := all(); f != nil {
				return f, e.hits
			}
		}
		return nil, e.hits
	}
	return &failure{Sig: "-", Probe: "scenario", Library: "unknown kind " + s.Kind}, nil
}

type unknownSig struct {
	Count    int64    `json:"count"`
	Scenario Scenario `json:"first_scenario"`
	Failure  string   `json:"failure"`
	f        *failure
}

func TestExhaustive(t *testing.T) {
	rec := ev.New("C06", "exhaustive")
	defer rec.Flush()
	env := ev.GetEnv()
	if rp := ev.LoadReplay(t, "exhaustive"); rp != nil {
		var s Scenario
		json.Unmarshal(rp.Case, &s)
		f, hits := runScenario(s, rec.IsKnown)
		for sig := range hits {
			rec.HitKnown(sig, s)
		}
		if f != nil {
			p := rec.Violation(f.Sig, "history", f.text(), s, f)
			rec.Flush()
			t.Fatalf("VIOLATION %s replay=%s", f.text(), p)
		}
		return
	} else if ev.Replaying() {
		t.Skip()
	}

	unknown := map[string]*unknownSig{}
	var order []string
	do := func(s Scenario) {
		f, hits := runScenario(s, rec.IsKnown)
		for sig := range hits {
			rec.HitKnown(sig, s)
		}
		if f != nil {
			u := unknown[f.Sig]
			if u == nil {
				u = &unknownSig{Scenario: s, Failure: f.text(), f: f}
				unknown[f.Sig] = u
				order = append(order, f.Sig)
			}
			u.Count++
		}
	}
	nontrivialFilter := func(f string) bool { return strings.ContainsAny(f, "+#") || hasEmptyLevel(f) }

	// part 1: every filter x every name x publish QoS x subscription QoS
	filters4 := enum(filterAlpha, 4)
	names4, _ := validNames(4)
	var n, nt, nInvalid int64
	idx := 0
	for _, f := range filters4 {
		for _, name := range names4 {
			idx++
			if idx%env.Shards != env.Shard {
				continue
			}
			for sq := byte(0); sq <= 2; sq++ {
				for pq := byte(0); pq <= 2; pq++ {
					do(Scenario{Kind: "single", F: f, SQ: sq, N: name, PQ: pq})
				}
			}
			n += 9
			if nontrivialFilter(f) {
				nt += 9
				if nt%90000 == 9 {
					rec.Sample(Scenario{Kind: "single", F: f, SQ: 1, N: name, PQ: 2})
				}
			}
			if !match.ValidFilter(f) {
				nInvalid += 9
			}
		}
	}
	rec.Count(n, nt, "single-subscription")
	rec.Class("invalid-filter", nInvalid)

	// part 2: ordered pairs of valid filters of <= 3 levels, two subscribers
	// with different QoS; s0 leaves; s1 re-subscribes with the third QoS
	filters3 := enum(filterAlpha, 3)
	var pn, pnt, skipped int64
	idx = 0
	for _, fa := range filters3 {
		for _, fb := range filters3 {
			idx++
			if idx%env.Shards != env.Shard {
				continue
			}
			if !match.ValidFilter(fa) || !match.ValidFilter(fb) {
				skipped++
				continue
			}
			for qa := byte(0); qa <= 2; qa++ {
				for qb := byte(0); qb <= 2; qb++ {
					if qa == qb {
						continue
					}
					s := Scenario{Kind: "pair", F: fa, SQ: qa, F2: fb, Q2: qb, Q3: 3 - qa - qb}
					do(s)
					pn++
					if nontrivialFilter(fa) || nontrivialFilter(fb) {
						pnt++
						if pnt%20000 == 1 {
							rec.Sample(s)
						}
					}
				}
			}
		}
	}
	rec.Count(pn, pnt, "pair-removal")
	rec.Class("pair-with-invalid-filter-not-run", skipped)
	rec.Exhaustive(true)
	rec.Set("exhaustive_space", fmt.Sprintf("(1) all %d filter strings of 1-4 levels over the level alphabet {a, b, empty, +, #} (valid and invalid, the zero-length string included) x all %d topic names of 1-4 levels over {a, b, empty} (zero-length string excluded) x publish QoS {0,1,2} x subscription QoS {0,1,2}, each on a fresh provider: Subscribe then Subscribers; (2) all %d ordered pairs of filters of <= 3 levels of which the pairs of two valid filters are run x the 6 ordered pairs of different QoS: subscribe s0 and s1, unsubscribe s0, re-subscribe s1 with the third QoS, Subscribers for all %d names of <= 3 levels at publish QoS 2 after every step; partitioned over shards by index", len(filters4), len(names4), len(filters3)*len(filters3), len(names3)))

	if len(order) > 0 {
		for _, sig := range order {
			u := unknown[sig]
			t.Logf("unlisted signature %q: %d scenarios, first: %s", sig, u.Count, u.Failure)
		}
		u := unknown[order[0]]
		p := rec.Violation(u.f.Sig, "history", u.Failure, u.Scenario, map[string]interface{}{"first": u.f, "all_unlisted_signatures": unknown})
		rec.Flush()
		t.Fatalf("VIOLATION %s replay=%s", u.Failure, p)
	}
}

// ---- random histories --------------------------------------------------------------------

var literalPool = []string{"a", "b", "c", "dd"}

func genCase(t *rapid.T) Case {
	c := Case{
		Subs: rapid.IntRange(3, 6).Draw(t, "subs"),
		PQ:   byte(rapid.IntRange(0, 1).Draw(t, "pq")),
	}
	nlit := rapid.SampledFrom([]int{2, 3, 3, 4, 4, 4}).Draw(t, "nlit")
	lits := literalPool[:nlit]
	c.Vocab = append(c.Vocab, lits...)
	dollar := rapid.IntRange(0, 5).Draw(t, "dollar") == 0
	if dollar {
		c.Vocab = append(c.Vocab, "$x")
	}
	lit := func() string { return rapid.SampledFrom(lits).Draw(t, "lit") }
	// one level of a name; first = it is the first level
	nameLevel := func(first bool) string {
		r := rapid.IntRange(0, 19).Draw(t, "nl")
		switch {
		case r < 4:
			return ""
		case r == 4 && dollar && !first:
			return "$x"
		}
		return lit()
	}
	name := func(maxLevels int) string {
		n := rapid.IntRange(1, maxLevels).Draw(t, "nlev")
		lv := make([]string, n)
		for i := range lv {
			lv[i] = nameLevel(i == 0)
		}
		s := strings.Join(lv, "/")
		if s == "" {
			s = lit()
		}
		return s
	}
	filter := func() string {
		n := rapid.IntRange(1, 4).Draw(t, "flev")
		lv := make([]string, n)
		for i := range lv {
			r := rapid.IntRange(0, 19).Draw(t, "fl")
			switch {
			case r < 3:
				lv[i] = ""
			case r < 7:
				lv[i] = "+"
			case r == 7 && dollar && i > 0:
				lv[i] = "$x"
			default:
				lv[i] = lit()
			}
		}
		if rapid.IntRange(0, 3).Draw(t, "hash") == 0 {
			lv[n-1] = "#"
		}
		s := strings.Join(lv, "/")
		if s == "" {
			s = "+"
		}
		return s
	}
	invalid := func() string {
		switch rapid.IntRange(0, 9).Draw(t, "inv") {
		case 0:
			return ""
		case 1:
			return name(2) + "/#/" + lit()
		case 2:
			return "#/" + name(2)
		case 3:
			return lit() + "#"
		case 4:
			return name(2) + "/" + lit() + "+"
		case 5:
			return "+" + lit() + "/" + name(2)
		case 6:
			return name(2) + "/#" + lit()
		case 7:
			return name(2) + "/#/"
		case 8:
			return name(2) + "/+#"
		}
		return name(2) + "/++/" + lit()
	}
	qos := func() byte { return byte(rapid.IntRange(0, 2).Draw(t, "qos")) }
	sub := func() int { return rapid.IntRange(0, c.Subs-1).Draw(t, "sub") }
	payload := func() []byte {
		return rapid.SliceOfN(rapid.Byte(), 1, 6).Draw(t, "payload")
	}

	type liveSub struct {
		s int
		f string
		q byte
	}
	var live []liveSub
	var retained []string
	nops := rapid.IntRange(10, 80).Draw(t, "nops")
	if rapid.IntRange(0, 7).Draw(t, "crowd") == 0 {
		// crowd: 17-64 subscribers gather on one or two filters (subscriber lists that grow well
		// beyond their first allocation), then most of them leave in a generated order, with
		// re-subscriptions and look-ups in between; the ordinary history follows
		c.Subs = rapid.IntRange(17, maxSubs).Draw(t, "crowdsubs")
		fs := []string{filter()}
		if rapid.IntRange(0, 1).Draw(t, "two") == 1 {
			fs = append(fs, filter())
		}
		order := rapid.Permutation(func() (a []int) {
			for i := 0; i < c.Subs; i++ {
				a = append(a, i)
			}
			return
		}()).Draw(t, "arrive")
		for _, s := range order {
			l := liveSub{s, fs[rapid.IntRange(0, len(fs)-1).Draw(t, "cf")], qos()}
			c.Ops = append(c.Ops, Op{K: "sub", S: l.s, F: l.f, Q: l.q})
			live = append(live, l)
		}
		leave := rapid.IntRange(c.Subs/2, c.Subs).Draw(t, "leave")
		for k := 0; k < leave && len(live) > 0; k++ {
			i := rapid.IntRange(0, len(live)-1).Draw(t, "leavei")
			l := live[i]
			c.Ops = append(c.Ops, Op{K: "unsub", S: l.s, F: l.f})
			live = append(live[:i:i], live[i+1:]...)
			if rapid.IntRange(0, 5).Draw(t, "back") == 0 {
				l.q = qos()
				c.Ops = append(c.Ops, Op{K: "sub", S: l.s, F: l.f, Q: l.q})
				live = append(live, l)
			}
		}
		nops += len(c.Ops)
	}
	for len(c.Ops) < nops {
		r := rapid.IntRange(0, 99).Draw(t, "op")
		switch {
		case r < 30 || (r < 60 && len(live) == 0): // new subscription (may hit an existing one)
			l := liveSub{sub(), filter(), qos()}
			if len(live) > 0 && rapid.IntRange(0, 3).Draw(t, "share") == 0 {
				l.f = live[rapid.IntRange(0, len(live)-1).Draw(t, "sharei")].f // several subscribers on one filter
			}
			c.Ops = append(c.Ops, Op{K: "sub", S: l.s, F: l.f, Q: l.q})
			live = append(live, l)
		case r < 42: // re-subscribe the same (subscriber, filter) with another QoS
			i := rapid.IntRange(0, len(live)-1).Draw(t, "resub")
			q := (live[i].q + byte(rapid.IntRange(1, 2).Draw(t, "dq"))) % 3
			for j := range live {
				if live[j].s == live[i].s && live[j].f == live[i].f {
					live[j].q = q
				}
			}
			c.Ops = append(c.Ops, Op{K: "sub", S: live[i].s, F: live[i].f, Q: q})
		case r < 60: // unsubscribe a live entry
			i := rapid.IntRange(0, len(live)-1).Draw(t, "unsub")
			l := live[i]
			c.Ops = append(c.Ops, Op{K: "unsub", S: l.s, F: l.f})
			var rest []liveSub
			for _, x := range live {
				if x.s != l.s || x.f != l.f {
					rest = append(rest, x)
				}
			}
			live = rest
		case r < 66 && rapid.IntRange(0, 2).Draw(t, "all") == 0 && len(live) > 0: // remove every subscriber of a live filter
			o := Op{K: "unsuball", F: live[rapid.IntRange(0, len(live)-1).Draw(t, "alli")].f}
			c.Ops = append(c.Ops, o)
			var rest []liveSub
			for _, x := range live {
				if x.f != o.F {
					rest = append(rest, x)
				}
			}
			live = rest
		case r < 66: // unsubscribe something that is (most likely) not subscribed
			o := Op{K: "unsub", S: sub(), F: filter()}
			if len(live) > 0 && rapid.IntRange(0, 1).Draw(t, "other") == 0 {
				o.F = live[rapid.IntRange(0, len(live)-1).Draw(t, "otheri")].f // a live filter, any subscriber
			}
			c.Ops = append(c.Ops, o)
			var rest []liveSub
			for _, x := range live {
				if x.s != o.S || x.f != o.F {
					rest = append(rest, x)
				}
			}
			live = rest
		case r < 72:
			c.Ops = append(c.Ops, Op{K: "sub", S: sub(), F: invalid(), Q: qos()})
		case r < 84 || (r < 92 && len(retained) == 0):
			o := Op{K: "ret", F: name(3), Q: qos(), P: payload()}
			if rapid.IntRange(0, 7).Draw(t, "deep") == 0 {
				o.F = name(4)
			}
			if len(retained) > 0 && rapid.IntRange(0, 3).Draw(t, "again") == 0 {
				o.F = retained[rapid.IntRange(0, len(retained)-1).Draw(t, "againi")]
			}
			if len(retained) > 0 && rapid.IntRange(0, 3).Draw(t, "child") == 0 {
				// a retained message below a topic that holds one itself
				if p := retained[rapid.IntRange(0, len(retained)-1).Draw(t, "childi")]; strings.Count(p, "/") < 3 {
					o.F = p + "/" + nameLevel(false)
				}
			}
			c.Ops = append(c.Ops, o)
			retained = append(retained, o.F)
		case r < 92: // clear
			o := Op{K: "ret", F: name(3)}
			if rapid.IntRange(0, 3).Draw(t, "hit") > 0 {
				o.F = retained[rapid.IntRange(0, len(retained)-1).Draw(t, "hiti")]
			}
			c.Ops = append(c.Ops, o)
		case r < 97:
			c.Ops = append(c.Ops, Op{K: "q", F: name(4), Q: qos()})
		default:
			c.Ops = append(c.Ops, Op{K: "qr", F: filter()})
		}
	}
	return c
}

func TestHistories(t *testing.T) {
	rec := ev.New("C06", "histories")
	defer rec.Flush()
	if rp := ev.LoadReplay(t, "histories"); rp != nil {
		var c Case
		json.Unmarshal(rp.Case, &c)
		o := run(c, rec.IsKnown)
		for sig := range o.Known {
			rec.HitKnown(sig, c)
		}
		if o.Failure != "" {
			p := rec.Violation(o.Sig, "history", o.Failure, c, o.Detail)
			rec.Flush()
			t.Fatalf("VIOLATION %s replay=%s", o.Failure, p)
		}
		return
	} else if ev.Replaying() {
		t.Skip()
	}
	// The generator never makes fewer than 10 ops, so the smallest failing
	// case rapid reached is minimised once more by dropping ops (same
	// signature) and the replay file is rewritten with the result.
	var best *Case
	var bestOut outcome
	defer func() {
		if best != nil {
			c, o := shrinkCase(*best, bestOut, rec.IsKnown)
			p := rec.Violation(o.Sig, "history", o.Failure, c, o.Detail)
			t.Logf("VIOLATION (minimised to %d ops) %s replay=%s", len(c.Ops), o.Failure, p)
		}
	}()
	rapid.Check(t, func(t *rapid.T) {
		c := genCase(t)
		o := run(c, rec.IsKnown)
		rec.Case(c, o.NonTrivial, o.Classes...)
		for sig := range o.Known {
			rec.HitKnown(sig, c)
		}
		if o.Failure != "" {
			if best == nil || len(c.Ops) <= len(best.Ops) {
				cc := c
				best, bestOut = &cc, o
			}
			p := rec.Violation(o.Sig, "history", o.Failure, c, o.Detail)
			t.Fatalf("VIOLATION %s replay=%s", o.Failure, p)
		}
	})
}

// shrinkCase greedily drops ops while the case keeps failing with the same
// signature.
func shrinkCase(c Case, o outcome, known func(string) bool) (Case, outcome) {
	for changed := true; changed; {
		changed = false
		for i := len(c.Ops) - 1; i >= 0; i-- {
			d := c
			d.Ops = append(append([]Op(nil), c.Ops[:i]...), c.Ops[i+1:]...)
			if od := run(d, known); od.Failure != "" && od.Sig == o.Sig {
				c, o, changed = d, od, true
			}
		}
	}
	return c, o
}

// ---- self-check of the oracles (no library involved) ---------------------------------------

// The variant machine with no flag set must be the specification model: same
// answers on the whole exhaustive space and on random histories. This guards
// the signature classifier, not the library.
func TestOracleSelf(t *testing.T) {
	names4, _ := validNames(4)
	for _, f := range enum(filterAlpha, 4) {
		m, sp := newMachine(0), newSpec()
		o := Op{K: "sub", F: f, Q: 1}
		m.apply(o)
		if want := sp.apply(o); m.last != want {
			t.Fatalf("Subscribe(%q): machine %s, model %s", f, m.last, want)
		}
		for _, n := range names4 {
			if got, want := m.subscribers(n, 2), subsAnswer(sp.subscribers(n, 2, nil)); got != want {
				t.Fatalf("filter %q name %q: machine %s, model %s", f, n, got, want)
			}
		}
	}
	rng := rand.New(rand.NewSource(6))
	alpha := []string{"a", "b", "", "+", "#", "$x"}
	word := func(al []string, max int) string {
		n := 1 + rng.Intn(max)
		lv := make([]string, n)
		for i := range lv {
			lv[i] = al[rng.Intn(len(al))]
			if i == 0 && lv[i] == "$x" {
				lv[i] = "a"
			}
		}
		return strings.Join(lv, "/")
	}
	for it := 0; it < 600; it++ {
		m, sp := newMachine(0), newSpec()
		for k := 0; k < 30; k++ {
			var o Op
			switch rng.Intn(4) {
			case 0, 1:
				o = Op{K: "sub", S: rng.Intn(3), F: word(alpha, 3), Q: byte(rng.Intn(3))}
			case 2:
				o = Op{K: "unsub", S: rng.Intn(3), F: word(alpha, 3)}
			default:
				o = Op{K: "ret", F: word(alpha[:3], 3), Q: byte(rng.Intn(3))}
				if rng.Intn(3) > 0 {
					o.P = []byte{byte(k), byte(it)}
				}
			}
			if !inDomain(o) {
				continue
			}
			m.apply(o)
			if want := sp.apply(o); o.K == "sub" && m.last != want {
				t.Fatalf("%s: machine %s, model %s", o, m.last, want)
			}
			for _, n := range names3 {
				if got, want := m.subscribers(n, 1), subsAnswer(sp.subscribers(n, 1, nil)); got != want {
					t.Fatalf("after %s: Subscribers(%q): machine %s, model %s", o, n, got, want)
				}
			}
			for _, f := range []string{"#", "+", "+/+", "a/#", "/#", "a/+", "+/b/#", word(alpha[:5], 3)} {
				if !match.ValidFilter(f) {
					continue
				}
				if got, want := m.retained(f), retAnswer(sp.retained(f, nil)); got != want {
					t.Fatalf("after %s: Retained(%q): machine %s, model %s", o, f, got, want)
				}
			}
		}
	}
}
