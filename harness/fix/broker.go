// Package fix is the broker fixture: a real service.Server with fresh,
// uniquely named providers, dialled in-process over net.Pipe through the
// verif hook, with teardown events, escaped-panic capture and log capture.
package fix

import (
	"bytes"
	"fmt"
	"io"
	"net"
	"sync"
	"sync/atomic"
	"syscall"
	"time"

	logging "github.com/mdzio/go-logging"
	"github.com/mdzio/go-mqtt/auth"
	"github.com/mdzio/go-mqtt/service"
	"github.com/mdzio/go-mqtt/sessions"
	"github.com/mdzio/go-mqtt/topics"
	"verifharness/wire"
)

// regMu serialises every access of the harness to the library's
// process-global provider registries (they are unsynchronised maps).
var regMu sync.Mutex

var seq int64

// ---- log capture ----------------------------------------------------------

type logRing struct {
	mu  sync.Mutex
	buf bytes.Buffer
}

func (l *logRing) Write(p []byte) (int, error) {
	l.mu.Lock()
	defer l.mu.Unlock()
	if l.buf.Len() > 64*1024 {
		b := l.buf.Bytes()
		keep := append([]byte(nil), b[len(b)-16*1024:]...)
		l.buf.Reset()
		l.buf.Write(keep)
	}
	return l.buf.Write(p)
}

// Tail returns the last captured log bytes.
func (l *logRing) Tail(n int) string {
	l.mu.Lock()
	defer l.mu.Unlock()
	b := l.buf.Bytes()
	if len(b) > n {
		b = b[len(b)-n:]
	}
	return string(b)
}

// Log is the captured library log.
var Log = &logRing{}

// ---- process-wide hook handler ------------------------------------------------

var (
	evMu       sync.Mutex
	evCond     = sync.NewCond(&evMu)
	tornDown   = map[uint64]bool{}
	handled    = map[uint64][]int{} // packet-handled events per service (only when enabled)
	recHandled atomic.Bool
	yieldFn    atomic.Value // func(point string, obj interface{})
)

func init() {
	logging.SetWriter(Log)
	logging.SetLevel(logging.WarningLevel)
	InstallHandler()
}

// InstallHandler (re)installs the fixture's hook handler.
func InstallHandler() {
	service.VerifSetHandler(&service.VerifHandler{
		Event: func(point string, id uint64, arg int) {
			switch point {
			case "teardown-done":
				evMu.Lock()
				tornDown[id] = true
				evCond.Broadcast()
				evMu.Unlock()
			case "packet-handled":
				if recHandled.Load() {
					evMu.Lock()
					handled[id] = append(handled[id], arg)
					evCond.Broadcast()
					evMu.Unlock()
				}
			}
		},
		Yield: func(point string, obj interface{}) {
			if f, _ := yieldFn.Load().(func(string, interface{})); f != nil {
				f(point, obj)
			}
		},
	})
}

// SetYield installs a yield function (nil removes it).
func SetYield(f func(point string, obj interface{})) {
	if f == nil {
		f = func(string, interface{}) {}
	}
	yieldFn.Store(f)
}

// RecordHandled switches the recording of packet-handled events on or off.
func RecordHandled(on bool) { recHandled.Store(on) }

// WaitHandled waits until service id has handled at least n packets of the given type.
func WaitHandled(id uint64, mtype int, n int, d time.Duration) bool {
	deadline := time.Now().Add(d)
	t := time.AfterFunc(d, func() { evMu.Lock(); evCond.Broadcast(); evMu.Unlock() })
	defer t.Stop()
	evMu.Lock()
	defer evMu.Unlock()
	for {
		c := 0
		for _, m := range handled[id] {
			if m == mtype {
				c++
			}
		}
		if c >= n {
			return true
		}
		if !time.Now().Before(deadline) {
			return false
		}
		evCond.Wait()
	}
}

// WaitTeardown waits for the teardown-done event of service id.
func WaitTeardown(id uint64, d time.Duration) bool {
	deadline := time.Now().Add(d)
	t := time.AfterFunc(d, func() { evMu.Lock(); evCond.Broadcast(); evMu.Unlock() })
	defer t.Stop()
	evMu.Lock()
	defer evMu.Unlock()
	for !tornDown[id] {
		if !time.Now().Before(deadline) {
			return false
		}
		evCond.Wait()
	}
	return true
}

// TornDown reports whether the teardown-done event of service id was seen.
func TornDown(id uint64) bool {
	evMu.Lock()
	defer evMu.Unlock()
	return tornDown[id]
}

// ---- broker ---------------------------------------------------------------------

// Conn is one dialled connection: the raw client plus what the server side did.
type Conn struct {
	*wire.Client
	B *Broker

	mu       sync.Mutex
	served   chan struct{} // closed when VerifServe returned
	SvcID    uint64
	ServeErr error
	Escaped  interface{} // panic that escaped handleConnection (process death in production)
	eof      *eofConn    // transport wrapper of DialOpt(eofWithData), if any
}

// HalfClose ends the client's sending direction only (as shutdown(SHUT_WR) on a
// TCP socket does): the broker reads the bytes written so far and then the end
// of the stream - from the same Read call if they arrive together - while what
// it writes still reaches the client. Only for connections dialled with
// DialOpt(name, true); reports whether it was done.
func (c *Conn) HalfClose() bool {
	if c.eof == nil {
		return false
	}
	c.eof.halfClose(c.Client.Written())
	return true
}

// Served waits until the server side finished its connect handling.
func (c *Conn) Served(d time.Duration) bool {
	select {
	case <-c.served:
		return true
	case <-time.After(d):
		return false
	}
}

// ID returns the service id (0 if refused or not yet served).
func (c *Conn) ID() uint64 {
	c.mu.Lock()
	id := c.SvcID
	c.mu.Unlock()
	if id != 0 {
		return id
	}
	// the CONNACK reaches the client before the server side has returned from its
	// connect handling and recorded the id: wait for that (bounded)
	c.Served(2 * time.Second)
	c.mu.Lock()
	defer c.mu.Unlock()
	return c.SvcID
}

// WaitTeardown waits until the connection's teardown on the broker finished.
// A refused connection (no service) counts as torn down.
func (c *Conn) WaitTeardown(d time.Duration) bool {
	if !c.Served(d) {
		return false
	}
	id := c.ID()
	if id == 0 {
		return true
	}
	return WaitTeardown(id, d)
}

// Broker is one in-process broker instance.
type Broker struct {
	sess *sessions.MemProvider
	Srv  *service.Server
	Name string
	gate *gateProvider

	// Seg, when not empty, makes the server side of every connection dialled
	// from now on read its bytes in pieces: the i-th Read returns at most
	// Seg[i mod len(Seg)] bytes (TCP segmentation; net.Pipe alone hands over a
	// whole write per Read). Reset makes those connections report the end of
	// the stream as a connection reset (a net.OpError) instead of io.EOF.
	Seg   []int
	Reset bool

	mu      sync.Mutex
	conns   []*Conn
	escaped []string
	closed  bool
}

// segConn delivers the inbound bytes in pieces of generated sizes and may turn
// the end of the stream into a connection-reset error.
type segConn struct {
	net.Conn
	seg   []int
	i     int
	small int // reads shortened so far (bounded, so that huge payloads stay affordable)
	reset bool
}

// segBudget bounds the number of shortened reads per connection.
const segBudget = 4000

func (s *segConn) Read(p []byte) (int, error) {
	if len(s.seg) > 0 && s.small < segBudget {
		k := s.seg[s.i%len(s.seg)]
		s.i++
		if k >= 1 && k < len(p) {
			p = p[:k]
			s.small++
		}
	}
	n, err := s.Conn.Read(p)
	if err == io.EOF && s.reset {
		err = &net.OpError{Op: "read", Net: "pipe", Err: syscall.ECONNRESET}
	}
	return n, err
}

// Authenticator kinds registered by the fixture.
type userPass struct{ user, pass string }

func (u userPass) Authenticate(id string, cred interface{}) error {
	if id == u.user {
		if p, ok := cred.(string); ok && p == u.pass {
			return nil
		}
	}
	return auth.ErrAuthFailure
}

// gateAuth accepts every user whose password is "pass" and calls the installed
// hook first (the harness may hold the calling connection handler inside it).
type gateAuth struct{}

var authGateHook atomic.Value // func(user string)

func (gateAuth) Authenticate(id string, cred interface{}) error {
	if h, _ := authGateHook.Load().(func(string)); h != nil {
		h(id)
	}
	if p, ok := cred.(string); ok && p == "pass" {
		return nil
	}
	return auth.ErrAuthFailure
}

// AuthGate is the name of the authenticator that accepts every user with the
// password "pass" and calls the hook set by SetAuthHook first.
const AuthGate = "verifGateAuth"

// SetAuthHook installs (nil: removes) the function the AuthGate authenticator
// calls with the user name before it decides.
func SetAuthHook(f func(user string)) {
	if f == nil {
		f = func(string) {}
	}
	authGateHook.Store(f)
}

var authOnce sync.Once

// AuthUserPass is the name of the authenticator accepting only ("user","pass").
const AuthUserPass = "verifUserPass"

// New creates a broker with fresh providers. authName: "" (accept all),
// "mockFailure" (reject all) or AuthUserPass.
func New(bufSize int64, authName string) (*Broker, error) {
	regMu.Lock()
	defer regMu.Unlock()
	authOnce.Do(func() {
		auth.Register(AuthUserPass, userPass{"user", "pass"})
		auth.Register(AuthGate, gateAuth{})
	})
	name := fmt.Sprintf("verif-%d", atomic.AddInt64(&seq, 1))
	gate := &gateProvider{Provider: topics.NewMemProvider()}
	topics.Register(name, gate)
	sp := sessions.NewMemProvider()
	sessions.Register(name, sp)
	b := &Broker{gate: gate, sess: sp, Name: name, Srv: &service.Server{BufferSize: bufSize, ConnectTimeout: 1, TopicsProvider: name, SessionsProvider: name, Authenticator: authName}}
	if err := b.Srv.VerifInit(); err != nil {
		return nil, err
	}
	return b, nil
}

// SessionCount asks the broker's session store (the provider object registered for it) how
// many sessions it holds; -1 for a broker on the process-wide default providers.
func (b *Broker) SessionCount() int {
	if b.sess == nil {
		return -1
	}
	return b.sess.Count()
}

// NewDefault creates a broker from the zero-value Server: every setting is the
// library's default, including the process-wide "mem" session and topic
// providers and the accept-all authenticator. The default providers are shared
// by every default broker of the process, so a test uses one such broker and
// client identifiers / topics of its own per case.
func NewDefault() (*Broker, error) {
	regMu.Lock()
	defer regMu.Unlock()
	b := &Broker{gate: &gateProvider{}, Name: "verif-unregistered", Srv: &service.Server{}}
	if err := b.Srv.VerifInit(); err != nil {
		return nil, err
	}
	return b, nil
}

// Dial opens a new in-process connection to the broker.
func (b *Broker) Dial(name string) *Conn { return b.DialOpt(name, false) }

// eofConn is a transport whose Read returns the final bytes together with
// the end-of-stream error in one call when they arrive together (as
// crypto/tls does for TLS <= 1.2); io.Reader allows that.
type eofConn struct {
	net.Conn
	ch   chan eofChunk
	cur  []byte
	err  error
	next *eofChunk

	half     chan struct{}
	halfOnce sync.Once
	pumped   atomic.Int64 // bytes queued for the broker so far
}

type eofChunk struct {
	b   []byte
	err error
}

func newEOFConn(c net.Conn) *eofConn {
	e := &eofConn{Conn: c, ch: make(chan eofChunk, 4), half: make(chan struct{})}
	go func() {
		for {
			buf := make([]byte, 8192)
			n, err := c.Read(buf)
			select {
			case e.ch <- eofChunk{buf[:n], err}:
				e.pumped.Add(int64(n))
			case <-e.half:
				return // the stream was ended by halfClose; nothing is delivered after it
			}
			if err != nil {
				close(e.ch)
				return
			}
		}
	}()
	return e
}

// halfClose queues the end of the stream behind the tx bytes the client has
// written so far: a pipe Write returns when the pump goroutine has taken the
// bytes, but the pump queues them afterwards, so the end of the stream waits
// until the pump has queued them all.
func (e *eofConn) halfClose(tx int64) {
	e.halfOnce.Do(func() {
		for i := 0; i < 40000 && e.pumped.Load() < tx; i++ {
			time.Sleep(250 * time.Microsecond)
		}
		select {
		case e.ch <- eofChunk{nil, io.EOF}:
		case <-time.After(10 * time.Second):
		}
		close(e.half)
	})
}

// SetReadDeadline forwards the deadline to the pipe but never fails: net.Pipe
// refuses deadline changes once the REMOTE end is closed (a TCP socket does
// not), and the broker's reader treats a failed SetReadDeadline as a read
// error - the bytes this wrapper still holds (sent before the client closed)
// would never be handed over. Found as a rare false alarm of C09 under load.
func (e *eofConn) SetReadDeadline(t time.Time) error {
	e.Conn.SetReadDeadline(t)
	return nil
}

// SetDeadline: see SetReadDeadline.
func (e *eofConn) SetDeadline(t time.Time) error {
	e.Conn.SetDeadline(t)
	return nil
}

func (e *eofConn) Read(p []byte) (int, error) {
	if len(e.cur) == 0 && e.err == nil {
		var ck eofChunk
		if e.next != nil {
			ck, e.next = *e.next, nil
		} else {
			var ok bool
			if ck, ok = <-e.ch; !ok {
				return 0, net.ErrClosed
			}
		}
		e.cur, e.err = ck.b, ck.err
		if len(e.cur) > 0 && e.err == nil {
			// does the end of the stream follow at once? then deliver it with the data
			select {
			case nx, ok := <-e.ch:
				if ok {
					if len(nx.b) == 0 && nx.err != nil {
						e.err = nx.err
					} else {
						e.next = &nx
					}
				}
			case <-time.After(300 * time.Microsecond):
			}
		}
	}
	n := copy(p, e.cur)
	e.cur = e.cur[n:]
	if len(e.cur) == 0 && e.err != nil {
		err := e.err
		return n, err
	}
	return n, nil
}

// DialOpt is Dial with a choice of transport: with eofWithData the server
// side reads through a transport that may return the last bytes and the
// end-of-stream error from the same Read call.
func (b *Broker) DialOpt(name string, eofWithData bool) *Conn {
	return b.dial(name, eofWithData, false)
}

// DialStalled is Dial for a client that does not read from the start: the
// broker's first write to it (the CONNACK) blocks until the client reads or
// closes.
func (b *Broker) DialStalled(name string) *Conn { return b.dial(name, false, true) }

func (b *Broker) dial(name string, eofWithData, stalled bool) *Conn {
	cli, srvPipe := net.Pipe()
	var srv net.Conn = srvPipe
	var eof *eofConn
	if eofWithData {
		eof = newEOFConn(srvPipe)
		srv = eof
	}
	if len(b.Seg) > 0 || b.Reset {
		srv = &segConn{Conn: srv, seg: append([]int(nil), b.Seg...), reset: b.Reset}
	}
	var wc *wire.Client
	if stalled {
		wc = wire.NewStalled(name, cli)
	} else {
		wc = wire.New(name, cli)
	}
	c := &Conn{Client: wc, B: b, served: make(chan struct{}), eof: eof}
	b.mu.Lock()
	b.conns = append(b.conns, c)
	b.mu.Unlock()
	go func() {
		defer close(c.served)
		defer func() {
			if r := recover(); r != nil {
				c.mu.Lock()
				c.Escaped = r
				c.mu.Unlock()
				b.mu.Lock()
				b.escaped = append(b.escaped, fmt.Sprintf("connection %q: panic escaped the connection handler: %v", name, r))
				b.mu.Unlock()
				srv.Close()
			}
		}()
		id, err := b.Srv.VerifServe(srv)
		c.mu.Lock()
		c.SvcID, c.ServeErr = id, err
		c.mu.Unlock()
	}()
	return c
}

// Escaped returns the panics that escaped connection handlers so far.
func (b *Broker) Escaped() []string {
	b.mu.Lock()
	defer b.mu.Unlock()
	return append([]string(nil), b.escaped...)
}

// Conns returns all connections dialled so far.
func (b *Broker) Conns() []*Conn {
	b.mu.Lock()
	defer b.mu.Unlock()
	return append([]*Conn(nil), b.conns...)
}

// Shutdown closes all client ends, waits for the teardowns (bounded), closes
// the server in the background and unregisters the providers. It never blocks
// for long: a hanging Server.Close is left behind.
func (b *Broker) Shutdown() {
	b.mu.Lock()
	if b.closed {
		b.mu.Unlock()
		return
	}
	b.closed = true
	conns := append([]*Conn(nil), b.conns...)
	b.mu.Unlock()
	for _, c := range conns {
		c.Close()
	}
	for _, c := range conns {
		c.WaitTeardown(2 * time.Second)
	}
	done := make(chan struct{})
	go func() {
		defer func() { recover(); close(done) }()
		b.Srv.Close()
	}()
	select {
	case <-done:
	case <-time.After(2 * time.Second):
	}
	regMu.Lock()
	topics.Unregister(b.Name)
	sessions.Unregister(b.Name)
	regMu.Unlock()
}

// CloseServer calls Server.Close and reports whether it returned within d.
func (b *Broker) CloseServer(d time.Duration) (returned bool, panicked interface{}) {
	done := make(chan interface{}, 1)
	go func() {
		defer func() { done <- recover() }()
		b.Srv.Close()
	}()
	select {
	case p := <-done:
		b.mu.Lock()
		b.closed = true
		b.mu.Unlock()
		regMu.Lock()
		topics.Unregister(b.Name)
		sessions.Unregister(b.Name)
		regMu.Unlock()
		return true, p
	case <-time.After(d):
		return false, nil
	}
}
