package fix

import (
	"sync/atomic"

	"github.com/mdzio/go-mqtt/message"
	"github.com/mdzio/go-mqtt/topics"
)

// GateFn is called in the calling goroutine around every call the broker
// makes into its topics provider: phase "before" (the call has not touched
// the provider yet) and "after" (it has returned). Blocking in it holds up
// exactly that goroutine, outside every lock of the provider.
type GateFn func(method, phase, topic string)

// gateProvider forwards to the real in-memory provider; it adds nothing
// but the call-outs.
type gateProvider struct {
	topics.Provider
	fn atomic.Value // GateFn
}

func (g *gateProvider) call(method, phase string, topic []byte) {
	if f, _ := g.fn.Load().(GateFn); f != nil {
		f(method, phase, string(topic))
	}
}

func (g *gateProvider) Subscribe(topic []byte, qos byte, subscriber interface{}) (byte, error) {
	g.call("Subscribe", "before", topic)
	defer g.call("Subscribe", "after", topic)
	return g.Provider.Subscribe(topic, qos, subscriber)
}

func (g *gateProvider) Unsubscribe(topic []byte, subscriber interface{}) error {
	g.call("Unsubscribe", "before", topic)
	defer g.call("Unsubscribe", "after", topic)
	return g.Provider.Unsubscribe(topic, subscriber)
}

func (g *gateProvider) Retained(topic []byte, msgs *[]*message.PublishMessage) error {
	g.call("Retained", "before", topic)
	defer g.call("Retained", "after", topic)
	return g.Provider.Retained(topic, msgs)
}

func (g *gateProvider) Retain(msg *message.PublishMessage) error {
	g.call("Retain", "before", msg.Topic())
	defer g.call("Retain", "after", msg.Topic())
	return g.Provider.Retain(msg)
}

// SetGate installs (nil: removes) the provider call-out of this broker.
func (b *Broker) SetGate(f GateFn) {
	if f == nil {
		f = func(string, string, string) {}
	}
	b.gate.fn.Store(f)
}

// SubscribersOf asks the broker's topic store directly (no call-outs) how many
// subscribers it would hand a message on the given topic to.
func (b *Broker) SubscribersOf(topic string) (int, error) {
	var subs []interface{}
	var qoss []byte
	if b.gate == nil || b.gate.Provider == nil {
		return 0, nil
	}
	err := b.gate.Provider.Subscribers([]byte(topic), 2, &subs, &qoss)
	return len(subs), err
}
