package codec

import (
	"bytes"
	"testing"
)

// Examples taken from the MQTT 3.1.1 specification and from the byte arrays of
// the repository's own message tests (sanity check of the reference side).
func TestExamples(t *testing.T) {
	connect := []byte{0x10, 60, 0, 4, 'M', 'Q', 'T', 'T', 4, 206, 0, 10,
		0, 7, 's', 'u', 'r', 'g', 'e', 'm', 'q',
		0, 4, 'w', 'i', 'l', 'l',
		0, 12, 's', 'e', 'n', 'd', ' ', 'm', 'e', ' ', 'h', 'o', 'm', 'e',
		0, 7, 's', 'u', 'r', 'g', 'e', 'm', 'q',
		0, 10, 'v', 'e', 'r', 'y', 's', 'e', 'c', 'r', 'e', 't'}
	p, n, err := Decode(connect)
	if err != nil || n != len(connect) {
		t.Fatalf("connect: %v %d", err, n)
	}
	if string(p.ClientID) != "surgemq" || string(p.WillTopic) != "will" || string(p.Password) != "verysecret" || p.WillQoS() != 1 || !p.CleanSession() || p.KeepAlive != 10 {
		t.Fatalf("connect fields %+v", p)
	}
	if !bytes.Equal(Encode(p), connect) {
		t.Fatal("connect re-encode")
	}
	pub := []byte{0x3d, 23, 0, 7, 's', 'u', 'r', 'g', 'e', 'm', 'q', 0, 7, 's', 'e', 'n', 'd', ' ', 'm', 'e', ' ', 'h', 'o', 'm', 'e'}
	p, n, err = Decode(pub)
	if err != nil || n != len(pub) || p.QoS != 2 || !p.Dup || !p.Retain || p.PacketID != 7 || string(p.Payload) != "send me home" {
		t.Fatalf("publish %v %+v", err, p)
	}
	if !bytes.Equal(Encode(p), pub) {
		t.Fatal("publish re-encode")
	}
	sub := []byte{0x82, 36, 0, 7, 0, 7, 's', 'u', 'r', 'g', 'e', 'm', 'q', 0, 0, 8, '/', 'a', '/', 'b', '/', '#', '/', 'c', 1, 0, 10, '/', 'a', '/', 'b', '/', '#', '/', 'c', 'd', 'd', 2}
	p, _, err = Decode(sub)
	if err != nil || len(p.Topics) != 3 || p.QoSs[2] != 2 {
		t.Fatalf("subscribe %v %+v", err, p)
	}
	if !bytes.Equal(Encode(p), sub) {
		t.Fatal("subscribe re-encode")
	}
	for _, bad := range [][]byte{
		{0x10, 0}, {0x30, 2, 0, 0}, {0x32, 5, 0, 1, 'a', 0, 0}, {0x36, 3, 0, 1, 'a'}, {0x40, 3, 0, 1, 0}, {0x62 ^ 2, 2, 0, 1},
		{0x20, 2, 2, 0}, {0x20, 2, 1, 1}, {0x90, 2, 0, 1}, {0x82, 2, 0, 1}, {0xc0, 0x80, 0x00}, {0xc0, 1, 0},
	} {
		if _, _, err := Decode(bad); err == nil {
			t.Fatalf("accepted malformed %x", bad)
		}
	}
	var ps Parser
	stream := append(append(append([]byte{}, pub...), 0xc0, 0), sub...)
	got := 0
	for i := 0; i < len(stream); i += 5 {
		j := i + 5
		if j > len(stream) {
			j = len(stream)
		}
		got += len(ps.Feed(stream[i:j]))
	}
	if got != 3 || ps.Err != nil || len(ps.Pending()) != 0 {
		t.Fatalf("parser: %d %v", got, ps.Err)
	}
}
