// Package codec is an independent MQTT 3.1.1 reference codec written from
// sections 2 and 3 of the specification. It imports nothing from the library
// under test. It provides a canonical encoder, a strict decoder, an
// incremental stream parser and the input classification used by the checks.
package codec

import (
	"errors"
	"fmt"
)

// Packet types.
const (
	CONNECT     = 1
	CONNACK     = 2
	PUBLISH     = 3
	PUBACK      = 4
	PUBREC      = 5
	PUBREL      = 6
	PUBCOMP     = 7
	SUBSCRIBE   = 8
	SUBACK      = 9
	UNSUBSCRIBE = 10
	UNSUBACK    = 11
	PINGREQ     = 12
	PINGRESP    = 13
	DISCONNECT  = 14
)

var typeNames = []string{"RESERVED", "CONNECT", "CONNACK", "PUBLISH", "PUBACK", "PUBREC", "PUBREL", "PUBCOMP",
	"SUBSCRIBE", "SUBACK", "UNSUBSCRIBE", "UNSUBACK", "PINGREQ", "PINGRESP", "DISCONNECT", "RESERVED15"}

// TypeName names a packet type.
func TypeName(t byte) string { return typeNames[t&15] }

// MaxRemaining is the largest remaining length.
const MaxRemaining = 268435455

// Packet holds the fields of any packet type (only those of Type are used).
type Packet struct {
	Type byte `json:"type"`

	// CONNECT
	ProtoName    string `json:"proto,omitempty"`
	Level        byte   `json:"level,omitempty"`
	ConnectFlags byte   `json:"cflags,omitempty"` // bit7 user, 6 password, 5 will retain, 4-3 will qos, 2 will, 1 clean, 0 reserved
	KeepAlive    uint16 `json:"keepalive,omitempty"`
	ClientID     []byte `json:"clientid,omitempty"`
	WillTopic    []byte `json:"willtopic,omitempty"`
	WillMessage  []byte `json:"willmsg,omitempty"`
	Username     []byte `json:"user,omitempty"`
	Password     []byte `json:"pass,omitempty"`

	// CONNACK
	SessionPresent bool `json:"sp,omitempty"`
	ReturnCode     byte `json:"code,omitempty"`

	// PUBLISH
	Dup     bool   `json:"dup,omitempty"`
	QoS     byte   `json:"qos,omitempty"`
	Retain  bool   `json:"retain,omitempty"`
	Topic   []byte `json:"topic,omitempty"`
	Payload []byte `json:"payload,omitempty"`

	// PUBLISH (QoS>0), acks, SUBSCRIBE, SUBACK, UNSUBSCRIBE, UNSUBACK
	PacketID uint16 `json:"pid,omitempty"`

	// SUBSCRIBE / UNSUBSCRIBE
	Topics [][]byte `json:"topics,omitempty"`
	QoSs   []byte   `json:"qoss,omitempty"` // SUBSCRIBE requested QoS

	// SUBACK
	ReturnCodes []byte `json:"codes,omitempty"`
}

// Connect-flag helpers.
func (p *Packet) CleanSession() bool { return p.ConnectFlags&2 != 0 }
func (p *Packet) WillFlag() bool     { return p.ConnectFlags&4 != 0 }
func (p *Packet) WillQoS() byte      { return (p.ConnectFlags >> 3) & 3 }
func (p *Packet) WillRetain() bool   { return p.ConnectFlags&32 != 0 }
func (p *Packet) UserFlag() bool     { return p.ConnectFlags&128 != 0 }
func (p *Packet) PassFlag() bool     { return p.ConnectFlags&64 != 0 }

// Varint encodes a remaining length.
func Varint(n int) []byte {
	var b []byte
	for {
		d := byte(n % 128)
		n /= 128
		if n > 0 {
			d |= 0x80
		}
		b = append(b, d)
		if n == 0 {
			return b
		}
	}
}

// LP is a length-prefixed string.
func LP(s []byte) []byte {
	return append([]byte{byte(len(s) >> 8), byte(len(s))}, s...)
}

func u16(v uint16) []byte { return []byte{byte(v >> 8), byte(v)} }

// FirstByte returns type<<4|flags as the specification fixes them.
func (p *Packet) FirstByte() byte {
	switch p.Type {
	case PUBLISH:
		b := byte(PUBLISH<<4) | p.QoS<<1
		if p.Dup {
			b |= 8
		}
		if p.Retain {
			b |= 1
		}
		return b
	case PUBREL, SUBSCRIBE, UNSUBSCRIBE:
		return p.Type<<4 | 2
	}
	return p.Type << 4
}

// Body returns the variable header + payload.
func (p *Packet) Body() []byte {
	var b []byte
	switch p.Type {
	case CONNECT:
		b = append(b, LP([]byte(p.ProtoName))...)
		b = append(b, p.Level, p.ConnectFlags)
		b = append(b, u16(p.KeepAlive)...)
		b = append(b, LP(p.ClientID)...)
		if p.WillFlag() {
			b = append(b, LP(p.WillTopic)...)
			b = append(b, LP(p.WillMessage)...)
		}
		if p.UserFlag() {
			b = append(b, LP(p.Username)...)
		}
		if p.PassFlag() {
			b = append(b, LP(p.Password)...)
		}
	case CONNACK:
		sp := byte(0)
		if p.SessionPresent {
			sp = 1
		}
		b = []byte{sp, p.ReturnCode}
	case PUBLISH:
		b = append(b, LP(p.Topic)...)
		if p.QoS > 0 {
			b = append(b, u16(p.PacketID)...)
		}
		b = append(b, p.Payload...)
	case PUBACK, PUBREC, PUBREL, PUBCOMP, UNSUBACK:
		b = u16(p.PacketID)
	case SUBSCRIBE:
		b = u16(p.PacketID)
		for i, t := range p.Topics {
			b = append(b, LP(t)...)
			b = append(b, p.QoSs[i])
		}
	case SUBACK:
		b = append(u16(p.PacketID), p.ReturnCodes...)
	case UNSUBSCRIBE:
		b = u16(p.PacketID)
		for _, t := range p.Topics {
			b = append(b, LP(t)...)
		}
	}
	return b
}

// Encode returns the canonical wire encoding of p.
func Encode(p *Packet) []byte {
	body := p.Body()
	out := make([]byte, 0, len(body)+5)
	out = append(out, p.FirstByte())
	out = append(out, Varint(len(body))...)
	return append(out, body...)
}

// Raw assembles a packet from a first byte and a body (for hostile inputs).
func Raw(first byte, body []byte) []byte {
	return append(append([]byte{first}, Varint(len(body))...), body...)
}

// ErrShort means the input ends before the packet does.
var ErrShort = errors.New("codec: input shorter than the packet")

// Header parses the fixed header: first byte, remaining length, header size.
// Strict: the remaining length must be minimal and at most 4 bytes.
func Header(b []byte) (first byte, remlen int, hdr int, err error) {
	if len(b) < 2 {
		return 0, 0, 0, ErrShort
	}
	first = b[0]
	mult := 1
	for i := 1; ; i++ {
		if i > 4 {
			return 0, 0, 0, errors.New("codec: remaining length longer than 4 bytes")
		}
		if i >= len(b) {
			return 0, 0, 0, ErrShort
		}
		d := b[i]
		remlen += int(d&127) * mult
		mult *= 128
		if d&128 == 0 {
			if i > 1 && d == 0 {
				return 0, 0, 0, errors.New("codec: remaining length not minimal")
			}
			return first, remlen, i + 1, nil
		}
	}
}

type reader struct {
	b   []byte
	off int
	err error
}

func (r *reader) need(n int) bool {
	if r.err != nil {
		return false
	}
	if len(r.b)-r.off < n {
		r.err = errors.New("codec: field runs past the remaining length")
		return false
	}
	return true
}
func (r *reader) u8() byte {
	if !r.need(1) {
		return 0
	}
	v := r.b[r.off]
	r.off++
	return v
}
func (r *reader) u16() uint16 {
	if !r.need(2) {
		return 0
	}
	v := uint16(r.b[r.off])<<8 | uint16(r.b[r.off+1])
	r.off += 2
	return v
}
func (r *reader) lp() []byte {
	n := int(r.u16())
	if !r.need(n) {
		return nil
	}
	v := r.b[r.off : r.off+n : r.off+n]
	r.off += n
	return v
}
func (r *reader) rest() []byte {
	v := r.b[r.off:]
	r.off = len(r.b)
	return v
}

func hasWildcard(t []byte) bool {
	for _, c := range t {
		if c == '+' || c == '#' {
			return true
		}
	}
	return false
}

// Decode strictly decodes the packet at the start of b. n is the packet's
// total length. Any deviation from the letter of MQTT 3.1.1 is an error.
func Decode(b []byte) (p *Packet, n int, err error) {
	first, remlen, hdr, err := Header(b)
	if err != nil {
		return nil, 0, err
	}
	if len(b) < hdr+remlen {
		return nil, 0, ErrShort
	}
	n = hdr + remlen
	body := b[hdr:n:n]
	t, flags := first>>4, first&15
	p = &Packet{Type: t}
	r := &reader{b: body}
	fail := func(f string, a ...interface{}) (*Packet, int, error) {
		return nil, n, fmt.Errorf("codec: %s: "+f, append([]interface{}{TypeName(t)}, a...)...)
	}
	switch t {
	case 0, 15:
		return fail("reserved packet type")
	case PUBLISH:
		p.Dup, p.QoS, p.Retain = flags&8 != 0, (flags>>1)&3, flags&1 != 0
		if p.QoS == 3 {
			return fail("QoS 3")
		}
		if p.QoS == 0 && p.Dup {
			return fail("DUP set with QoS 0")
		}
	case PUBREL, SUBSCRIBE, UNSUBSCRIBE:
		if flags != 2 {
			return fail("flags %d, must be 2", flags)
		}
	default:
		if flags != 0 {
			return fail("flags %d, must be 0", flags)
		}
	}
	switch t {
	case CONNECT:
		p.ProtoName = string(r.lp())
		p.Level = r.u8()
		p.ConnectFlags = r.u8()
		p.KeepAlive = r.u16()
		p.ClientID = r.lp()
		if r.err == nil {
			if p.ConnectFlags&1 != 0 {
				return fail("reserved connect flag set")
			}
			if p.WillQoS() == 3 {
				return fail("will QoS 3")
			}
			if !p.WillFlag() && (p.WillQoS() != 0 || p.WillRetain()) {
				return fail("will QoS/retain without will flag")
			}
			if p.PassFlag() && !p.UserFlag() {
				return fail("password flag without user name flag")
			}
		}
		if p.WillFlag() {
			p.WillTopic = r.lp()
			p.WillMessage = r.lp()
			if r.err == nil && (len(p.WillTopic) == 0 || hasWildcard(p.WillTopic)) {
				return fail("invalid will topic")
			}
		}
		if p.UserFlag() {
			p.Username = r.lp()
		}
		if p.PassFlag() {
			p.Password = r.lp()
		}
	case CONNACK:
		f := r.u8()
		p.ReturnCode = r.u8()
		if r.err == nil {
			if f&^1 != 0 {
				return fail("acknowledge flags %#x", f)
			}
			p.SessionPresent = f == 1
			if p.ReturnCode > 5 {
				return fail("return code %d", p.ReturnCode)
			}
			if p.SessionPresent && p.ReturnCode != 0 {
				return fail("session present with non-zero return code")
			}
		}
	case PUBLISH:
		p.Topic = r.lp()
		if r.err == nil && (len(p.Topic) == 0 || hasWildcard(p.Topic)) {
			return fail("invalid topic name")
		}
		if p.QoS > 0 {
			p.PacketID = r.u16()
			if r.err == nil && p.PacketID == 0 {
				return fail("packet identifier 0")
			}
		}
		if r.err == nil {
			p.Payload = r.rest()
		}
	case PUBACK, PUBREC, PUBREL, PUBCOMP, UNSUBACK:
		p.PacketID = r.u16()
		if r.err == nil && p.PacketID == 0 {
			return fail("packet identifier 0")
		}
	case SUBSCRIBE:
		p.PacketID = r.u16()
		if r.err == nil && p.PacketID == 0 {
			return fail("packet identifier 0")
		}
		for r.err == nil && r.off < len(body) {
			tp := r.lp()
			q := r.u8()
			if r.err == nil {
				if len(tp) == 0 {
					return fail("empty topic filter")
				}
				if q > 2 {
					return fail("requested QoS %d", q)
				}
				p.Topics = append(p.Topics, tp)
				p.QoSs = append(p.QoSs, q)
			}
		}
		if r.err == nil && len(p.Topics) == 0 {
			return fail("no topic filter")
		}
	case SUBACK:
		p.PacketID = r.u16()
		if r.err == nil && p.PacketID == 0 {
			return fail("packet identifier 0")
		}
		if r.err == nil {
			p.ReturnCodes = r.rest()
			if len(p.ReturnCodes) == 0 {
				return fail("no return code")
			}
			for _, c := range p.ReturnCodes {
				if c != 0 && c != 1 && c != 2 && c != 0x80 {
					return fail("return code %#x", c)
				}
			}
		}
	case UNSUBSCRIBE:
		p.PacketID = r.u16()
		if r.err == nil && p.PacketID == 0 {
			return fail("packet identifier 0")
		}
		for r.err == nil && r.off < len(body) {
			tp := r.lp()
			if r.err == nil {
				if len(tp) == 0 {
					return fail("empty topic filter")
				}
				p.Topics = append(p.Topics, tp)
			}
		}
		if r.err == nil && len(p.Topics) == 0 {
			return fail("no topic filter")
		}
	case PINGREQ, PINGRESP, DISCONNECT:
	}
	if r.err != nil {
		return nil, n, fmt.Errorf("codec: %s: %v", TypeName(t), r.err)
	}
	if r.off != len(body) {
		return fail("%d bytes left inside the remaining length", len(body)-r.off)
	}
	return p, n, nil
}

// printable reports printable ASCII (0x20..0x7e), the server's documented id policy.
func printable(b []byte) bool {
	for _, c := range b {
		if c < 0x20 || c > 0x7e {
			return false
		}
	}
	return true
}

// Policy classifies a strict-valid CONNECT under the server's documented
// policy: 0 = acceptable, 1 = unsupported protocol (name, level), 2 = client
// identifier not acceptable.
func Policy(p *Packet) byte {
	if !((p.ProtoName == "MQTT" && p.Level == 4) || (p.ProtoName == "MQIsdp" && p.Level == 3)) {
		return 1
	}
	if len(p.ClientID) == 0 && !p.CleanSession() {
		return 2
	}
	if len(p.ClientID) > 32 || !printable(p.ClientID) {
		return 2
	}
	return 0
}

// Parser is an incremental strict stream parser.
type Parser struct {
	buf []byte
	Err error
	// Consumed counts the bytes of completely parsed packets.
	Consumed int64
}

// Feed appends bytes and returns the packets completed by them. After an
// error the parser stops (Err stays set).
func (ps *Parser) Feed(b []byte) []*Packet {
	if ps.Err != nil {
		return nil
	}
	ps.buf = append(ps.buf, b...)
	var out []*Packet
	for len(ps.buf) > 0 {
		p, n, err := Decode(ps.buf)
		if err == ErrShort {
			break
		}
		if err != nil {
			ps.Err = err
			break
		}
		// detach from the parser's buffer
		cp := Clone(p)
		out = append(out, cp)
		ps.buf = ps.buf[n:]
		ps.Consumed += int64(n)
	}
	if len(ps.buf) == 0 {
		ps.buf = nil
	}
	return out
}

// Pending returns the bytes of an incomplete packet at the end of the stream.
func (ps *Parser) Pending() []byte { return ps.buf }

func cp(b []byte) []byte {
	if b == nil {
		return nil
	}
	return append([]byte{}, b...)
}

// Clone deep-copies a packet.
func Clone(p *Packet) *Packet {
	q := *p
	q.ClientID, q.WillTopic, q.WillMessage = cp(p.ClientID), cp(p.WillTopic), cp(p.WillMessage)
	q.Username, q.Password, q.Topic, q.Payload = cp(p.Username), cp(p.Password), cp(p.Topic), cp(p.Payload)
	q.QoSs, q.ReturnCodes = cp(p.QoSs), cp(p.ReturnCodes)
	if p.Topics != nil {
		q.Topics = make([][]byte, len(p.Topics))
		for i, t := range p.Topics {
			q.Topics[i] = cp(t)
		}
	}
	return &q
}

// String renders a packet compactly for failure messages.
func (p *Packet) String() string {
	switch p.Type {
	case PUBLISH:
		pl := fmt.Sprintf("%q", p.Payload)
		if len(p.Payload) > 24 {
			pl = fmt.Sprintf("%q…(%d bytes)", p.Payload[:24], len(p.Payload))
		}
		return fmt.Sprintf("PUBLISH{topic=%q qos=%d dup=%v retain=%v pid=%d payload=%s}", p.Topic, p.QoS, p.Dup, p.Retain, p.PacketID, pl)
	case SUBSCRIBE:
		return fmt.Sprintf("SUBSCRIBE{pid=%d topics=%q qos=%v}", p.PacketID, p.Topics, p.QoSs)
	case UNSUBSCRIBE:
		return fmt.Sprintf("UNSUBSCRIBE{pid=%d topics=%q}", p.PacketID, p.Topics)
	case SUBACK:
		return fmt.Sprintf("SUBACK{pid=%d codes=%v}", p.PacketID, p.ReturnCodes)
	case CONNACK:
		return fmt.Sprintf("CONNACK{sp=%v code=%d}", p.SessionPresent, p.ReturnCode)
	case CONNECT:
		return fmt.Sprintf("CONNECT{%s/%d flags=%08b ka=%d id=%q}", p.ProtoName, p.Level, p.ConnectFlags, p.KeepAlive, p.ClientID)
	case PINGREQ, PINGRESP, DISCONNECT:
		return TypeName(p.Type)
	}
	return fmt.Sprintf("%s{pid=%d}", TypeName(p.Type), p.PacketID)
}
