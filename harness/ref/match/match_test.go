package match

import (
	"strings"
	"testing"
)

// Examples of MQTT 3.1.1 section 4.7 (the non-normative examples of 4.7.1.2,
// 4.7.1.3, 4.7.2 and 4.7.3).
func TestSpecExamples(t *testing.T) {
	type ex struct {
		filter, name string
		want         bool
	}
	for _, e := range []ex{
		// 4.7.1.2 multi-level wildcard
		{"sport/tennis/player1/#", "sport/tennis/player1", true},
		{"sport/tennis/player1/#", "sport/tennis/player1/ranking", true},
		{"sport/tennis/player1/#", "sport/tennis/player1/score/wimbledon", true},
		{"sport/tennis/player1/#", "sport/tennis/player2", false},
		{"sport/#", "sport", true},
		{"sport/#", "sport/", true},
		{"sport/#", "sport/a/b", true},
		{"sport/#", "sports", false},
		{"#", "sport", true},
		{"#", "/", true},
		{"#", "/finance", true},
		{"#", "a//b/", true},
		{"sport/tennis/#", "sport/tennis", true},
		// 4.7.1.3 single-level wildcard
		{"sport/tennis/+", "sport/tennis/player1", true},
		{"sport/tennis/+", "sport/tennis/player2", true},
		{"sport/tennis/+", "sport/tennis/player1/ranking", false},
		{"sport/+", "sport", false},
		{"sport/+", "sport/", true},
		{"+", "finance", true},
		{"+", "/finance", false},
		{"+/+", "/finance", true},
		{"/+", "/finance", true},
		{"+/tennis/#", "sport/tennis", true},
		{"+/tennis/#", "sport/tennis/x/y", true},
		{"sport/+/player1", "sport/tennis/player1", true},
		{"sport/+/player1", "sport//player1", true},
		{"sport/+/player1", "sport/player1", false},
		// 4.7.3: a leading or trailing '/' creates a distinct name/filter
		{"/finance", "/finance", true},
		{"/finance", "finance", false},
		{"finance", "/finance", false},
		{"finance/", "finance", false},
		{"finance", "finance/", false},
		{"finance/", "finance/", true},
		{"/", "/", true},
		{"/", "//", false},
		{"a//b", "a//b", true},
		{"a//b", "a/x/b", false},
		{"a/+/b", "a//b", true},
		{"/#", "/", true},
		{"/#", "/a", true},
		{"/#", "a", false},
		// case sensitive
		{"ACCOUNTS", "Accounts", false},
		// 4.7.2 topics beginning with $
		{"#", "$SYS/x", false},
		{"+/monitor/Clients", "$SYS/monitor/Clients", false},
		{"$SYS/#", "$SYS/x", true},
		{"$SYS/monitor/+", "$SYS/monitor/Clients", true},
		{"a/#", "a/$x", true},
		{"a/+", "a/$x", true},
	} {
		if got := Matches(e.filter, e.name); got != e.want {
			t.Errorf("Matches(%q, %q) = %v, want %v", e.filter, e.name, got, e.want)
		}
	}
}

func TestValidity(t *testing.T) {
	for _, f := range []string{"#", "+", "a", "/", "//", "a/", "/a", "a/#", "+/#", "+/+", "/#", "a/+/b", "a//#", "sport/tennis/#", "+/tennis/#", "a/$x"} {
		if !ValidFilter(f) {
			t.Errorf("ValidFilter(%q) = false", f)
		}
	}
	for _, f := range []string{"", "a#", "#a", "a/#/b", "#/", "#/a", "a+", "+a", "a/+b", "a/b+/c", "++", "+#", "#+", "##", "sport/tennis#", "sport/tennis/#/ranking", "sport+", "a\x00b"} {
		if ValidFilter(f) {
			t.Errorf("ValidFilter(%q) = true", f)
		}
	}
	for _, n := range []string{"a", "/", "a/", "/a", "a//b", "a/$x", " "} {
		if !ValidName(n) {
			t.Errorf("ValidName(%q) = false", n)
		}
	}
	for _, n := range []string{"", "+", "#", "a/+", "a/#", "a+b", "a\x00"} {
		if ValidName(n) {
			t.Errorf("ValidName(%q) = true", n)
		}
	}
}

// naive is a second, allocation-happy formulation of the same section: split
// both strings and recurse over levels.
func naive(f, n []string) bool {
	if len(f) == 0 {
		return len(n) == 0
	}
	if f[0] == "#" {
		return len(f) == 1 // parent (len(n)==0) and any number of further levels
	}
	if len(n) == 0 {
		return false
	}
	if f[0] != "+" && f[0] != n[0] {
		return false
	}
	return naive(f[1:], n[1:])
}

func enum(alpha []string, maxLevels int) []string {
	var out []string
	cur := []string{""}
	for l := 1; l <= maxLevels; l++ {
		var next []string
		for _, p := range cur {
			for _, a := range alpha {
				s := a
				if l > 1 {
					s = p + "/" + a
				}
				next = append(next, s)
			}
		}
		out = append(out, next...)
		cur = next
	}
	return out
}

func TestAgainstNaive(t *testing.T) {
	filters := enum([]string{"a", "b", "", "+", "#"}, 4)
	names := enum([]string{"a", "b", ""}, 4)
	if len(filters) != 780 || len(names) != 120 {
		t.Fatalf("enumeration sizes %d %d", len(filters), len(names))
	}
	nm := 0
	for _, f := range filters {
		fl := strings.Split(f, "/")
		valid := f != ""
		for i, l := range fl {
			if l == "#" && i != len(fl)-1 {
				valid = false
			}
		}
		if ValidFilter(f) != valid {
			t.Fatalf("ValidFilter(%q) = %v, want %v", f, !valid, valid)
		}
		for _, n := range names {
			want := valid && n != "" && naive(fl, strings.Split(n, "/"))
			if got := Matches(f, n); got != want {
				t.Fatalf("Matches(%q, %q) = %v, naive formulation says %v", f, n, got, want)
			}
			if want {
				nm++
			}
		}
	}
	if nm == 0 {
		t.Fatal("no matching pair")
	}
}
