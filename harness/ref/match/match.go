// Package match is the reference topic matcher, written from MQTT 3.1.1
// section 4.7 only (it imports nothing from the library under test).
//
// A topic name or filter is split into levels at every '/'. Every '/' separates
// two levels, so "/a" has the levels "" and "a", "a/" has "a" and "", "a//b"
// has "a", "" and "b"; empty levels are ordinary levels (4.7.1.1, 4.7.3).
//
//   - '+' (4.7.1.3) occupies a whole level and matches exactly one level, an
//     empty one included.
//   - '#' (4.7.1.2) occupies a whole level, must be the last level, and matches
//     the parent level and any number of further levels: "sport/#" matches
//     "sport", "sport/" and "sport/a/b".
//   - every other level is compared literally, byte by byte.
//   - 4.7.2: a filter starting with a wildcard does not match a name starting
//     with '$'.
package match

// maxLen is the largest UTF-8 encoded string MQTT can carry (1.5.3, 4.7.3).
const maxLen = 65535

// ValidFilter reports whether f is a well-formed topic filter: at least one
// character, no U+0000, '#' only as a complete last level, '+' only as a
// complete level.
func ValidFilter(f string) bool {
	if len(f) == 0 || len(f) > maxLen {
		return false
	}
	start := 0
	for i := 0; i <= len(f); i++ {
		if i < len(f) && f[i] != '/' {
			if f[i] == 0 {
				return false
			}
			continue
		}
		// f[start:i] is one level; it is the last one iff i == len(f)
		for j := start; j < i; j++ {
			switch f[j] {
			case '#':
				if i-start != 1 || i != len(f) {
					return false
				}
			case '+':
				if i-start != 1 {
					return false
				}
			}
		}
		start = i + 1
	}
	return true
}

// ValidName reports whether n is a well-formed topic name: at least one
// character, no wildcard characters, no U+0000.
func ValidName(n string) bool {
	if len(n) == 0 || len(n) > maxLen {
		return false
	}
	for i := 0; i < len(n); i++ {
		if n[i] == '+' || n[i] == '#' || n[i] == 0 {
			return false
		}
	}
	return true
}

// level returns the end of the level of s that starts at offset i (the index
// of the next '/' or len(s)).
func level(s string, i int) int {
	for i < len(s) && s[i] != '/' {
		i++
	}
	return i
}

// Matches reports whether the topic filter matches the topic name. It is
// false when either argument is not well-formed.
func Matches(filter, name string) bool {
	if !ValidFilter(filter) || !ValidName(name) {
		return false
	}
	if name[0] == '$' && (filter[0] == '+' || filter[0] == '#') {
		return false // 4.7.2
	}
	fi, ni := 0, 0
	nameDone := false // all levels of the name have been consumed
	for {
		fe := level(filter, fi)
		f := filter[fi:fe]
		if f == "#" {
			// last level of a valid filter: matches the parent (name consumed)
			// and any number of further levels
			return true
		}
		if nameDone {
			return false // the filter has one more level than the name
		}
		ne := level(name, ni)
		if f != "+" && f != name[ni:ne] {
			return false
		}
		if fe == len(filter) {
			return ne == len(name) // filter consumed: the name must be, too
		}
		fi = fe + 1
		if ne == len(name) {
			nameDone = true
		} else {
			ni = ne + 1
		}
	}
}
