package p_client

import (
	"encoding/binary"
	"encoding/json"
	"fmt"
	"sync"
	"testing"
	"time"

	"github.com/mdzio/go-mqtt/message"
	"github.com/mdzio/go-mqtt/service"
	"pgregory.net/rapid"
	"verifharness/ev"
	"verifharness/ref/codec"
)

// C17 client role, unit "client-inbound-order": the library as subscriber. The
// server delivers a burst of numbered messages on one topic at one QoS (many
// in one write); the application's callback is slow now and then. The callback
// sees the messages in the order they were sent, each once.

type C17ICase struct {
	N      int   `json:"n"`
	QoS    byte  `json:"qos"`
	Chunk  int   `json:"chunk"`   // messages per server write
	SlowUs []int `json:"slow_us"` // the callback sleeps SlowUs[i mod len] microseconds
	Size   int   `json:"size"`
}

func runC17Inbound(c C17ICase) (fail string, classes []string) {
	s, err := connect(nil)
	if err != nil {
		return "", []string{"inconclusive: " + err.Error()}
	}
	defer s.close()
	var mu sync.Mutex
	var seen []int
	sm := message.NewSubscribeMessage()
	sm.AddTopic([]byte("ord/t"), c.QoS)
	done := make(chan struct{}, 1)
	if err := s.cl.Subscribe(sm, func(msg, ack message.Message, err error) error { done <- struct{}{}; return nil }, func(m *message.PublishMessage) error {
		p := m.Payload()
		n := -1
		if len(p) >= 4 {
			n = int(binary.BigEndian.Uint32(p))
		}
		mu.Lock()
		i := len(seen)
		seen = append(seen, n)
		mu.Unlock()
		if d := c.SlowUs[i%len(c.SlowUs)]; d > 0 {
			time.Sleep(time.Duration(d) * time.Microsecond)
		}
		return nil
	}); err != nil {
		return "", []string{"inconclusive: subscribe: " + err.Error()}
	}
	req, err := s.srv.Take(func(p *codec.Packet) bool { return p.Type == codec.SUBSCRIBE }, 5*time.Second)
	if err != nil {
		return "", []string{"inconclusive: no SUBSCRIBE"}
	}
	s.srv.Send(&codec.Packet{Type: codec.SUBACK, PacketID: req.PacketID, ReturnCodes: []byte{c.QoS}})
	select {
	case <-done:
	case <-time.After(5 * time.Second):
		return "", []string{"inconclusive: subscribe did not complete"}
	}
	s.srv.OnPacket = func(p *codec.Packet, off int64) bool { return p.Type == codec.PUBACK }
	var out []byte
	for i := 0; i < c.N; i++ {
		pl := make([]byte, c.Size)
		binary.BigEndian.PutUint32(pl, uint32(i))
		p := &codec.Packet{Type: codec.PUBLISH, QoS: c.QoS, Topic: []byte("ord/t"), Payload: pl}
		if c.QoS > 0 {
			p.PacketID = uint16(i%60000 + 1)
		}
		out = append(out, codec.Encode(p)...)
		if (i+1)%c.Chunk == 0 || i == c.N-1 {
			s.srv.SendRaw(out)
			out = nil
		}
	}
	// flush: the client answers a PINGREQ after it has handled everything before it
	s.srv.SendRaw([]byte{0xC0, 0})
	if _, err := s.srv.Take(func(p *codec.Packet) bool { return p.Type == codec.PINGRESP }, 20*time.Second); err != nil {
		return "", []string{"inconclusive: flush round trip failed: " + err.Error()}
	}
	for i := 0; i < 2000; i++ {
		mu.Lock()
		n := len(seen)
		mu.Unlock()
		if n >= c.N {
			break
		}
		time.Sleep(time.Millisecond)
	}
	mu.Lock()
	defer mu.Unlock()
	for i, n := range seen {
		if n != i {
			hi := i + 6
			if hi > len(seen) {
				hi = len(seen)
			}
			return fmt.Sprintf("the server sent %d messages on one topic at QoS %d, numbered in order; the application's callback saw number %d as its %d-th message (deliveries %d..%d: %v)", c.N, c.QoS, n, i+1, i, hi-1, seen[i:hi]), classes
		}
	}
	if len(seen) != c.N {
		return fmt.Sprintf("the server sent %d messages; the callback was invoked %d times", c.N, len(seen)), classes
	}
	return "", append(classes, "burst-delivered-to-a-slow-callback")
}

func TestC17ClientInbound(t *testing.T) {
	rec := ev.New("C17", "client-inbound-order")
	defer rec.Flush()
	if rp := ev.LoadReplay(t, "client-inbound-order"); rp != nil {
		var c C17ICase
		json.Unmarshal(rp.Case, &c)
		if f, _ := runC17Inbound(c); f != "" {
			p := rec.Violation("-", "script", f, c, nil)
			rec.Flush()
			t.Fatalf("VIOLATION %s replay=%s", f, p)
		}
		return
	} else if ev.Replaying() {
		t.Skip()
	}
	rapid.Check(t, func(t *rapid.T) {
		c := C17ICase{N: rapid.IntRange(80, 400).Draw(t, "n"), QoS: byte(rapid.IntRange(0, 1).Draw(t, "qos")), Chunk: rapid.SampledFrom([]int{1, 7, 50, 1000}).Draw(t, "chunk"),
			SlowUs: rapid.SliceOfN(rapid.SampledFrom([]int{0, 0, 0, 100, 1000}), 1, 4).Draw(t, "slow"), Size: rapid.SampledFrom([]int{4, 16, 200}).Draw(t, "size")}
		f, cls := runC17Inbound(c)
		for _, x := range cls {
			if len(x) > 12 && x[:12] == "inconclusive" {
				rec.Inconclusive()
			}
		}
		rec.Case(c, c.N > 64, cls...)
		if f != "" {
			p := rec.Violation("-", "script", f, c, nil)
			t.Fatalf("VIOLATION %s replay=%s", f, p)
		}
	})
}

// Unit "client-reconnect-stream": a Client with a persistent session
// (CleanSession=0) loses its connection while output is pending - the server has
// stopped reading, the client goes on publishing until its buffers and the
// socket are full, the server closes. The application connects the same Client
// object again and publishes: the byte stream of the NEW connection is a
// CONNECT followed by whole packets, nothing of the old connection's output.

type C17RCase struct {
	Size  int  `json:"size"`
	Count int  `json:"count"`
	SP    bool `json:"sp"`
	Buf   int  `json:"buf"`
	// Partial: before it closes the first connection the server writes the first Partial
	// bytes of a 100-byte PUBLISH (inbound bytes the client has not consumed when the
	// connection is lost). On the new connection a Ping must complete.
	Partial int `json:"partial,omitempty"`
}

func runC17Reconnect(c C17RCase) (fail string, classes []string) {
	fsOpt := true
	_ = fsOpt
	clientBufSize, clientClean = int64(c.Buf), false
	s, err := connectOpt(nil, true) // small socket buffers on the server side; persistent session from the first connection on
	clientBufSize, clientClean = 16384, true
	if err != nil {
		return "", []string{"inconclusive: " + err.Error()}
	}
	defer s.close()
	s.srv.Stall()
	pubDone := make(chan struct{})
	go func() {
		defer close(pubDone)
		for i := 0; i < c.Count; i++ {
			m := message.NewPublishMessage()
			m.SetTopic([]byte("rc/t"))
			m.SetPayload(make([]byte, c.Size))
			if s.cl.Publish(m, nil) != nil {
				return
			}
		}
	}()
	time.Sleep(60 * time.Millisecond) // the client's buffers and the socket fill up
	s.srv.Close()                     // the connection is lost with output pending
	select {
	case <-pubDone:
	case <-time.After(10 * time.Second):
		return "", []string{"inconclusive: the publishing goroutine is still blocked 10 s after the connection was lost"}
	}
	// the application connects the same Client object again
	s.cl.Disconnect()
	cm := message.NewConnectMessage()
	cm.SetVersion(4)
	cm.SetCleanSession(false)
	cm.SetClientID([]byte(s.id))
	cm.SetKeepAlive(120)
	res := make(chan error, 1)
	go func() { res <- s.cl.Connect(s.fs.URI(), cm) }()
	srv, err := s.fs.Accept(5 * time.Second)
	if err != nil {
		return "", []string{"inconclusive: accept: " + err.Error()}
	}
	s.srv = srv
	first, err := srv.Take(func(p *codec.Packet) bool { return true }, 5*time.Second)
	if err != nil || first.Type != codec.CONNECT {
		return fmt.Sprintf("the same Client object (CleanSession=0) connected again after it had lost a connection with output pending: the new connection's stream does not begin with a CONNECT (first packet %v, error %v, stream error %v)", first, err, srv.StreamErr()), classes
	}
	connack := []byte{0x20, 2, 0, 0}
	if c.SP {
		connack[2] = 1
	}
	srv.SendRaw(connack)
	select {
	case err := <-res:
		if err != nil {
			return "", []string{"inconclusive: Connect: " + err.Error()}
		}
	case <-time.After(5 * time.Second):
		return "", []string{"inconclusive: Connect did not return"}
	}
	m := message.NewPublishMessage()
	m.SetTopic([]byte("rc/after"))
	m.SetPayload([]byte("hello again"))
	if err := s.cl.Publish(m, nil); err != nil {
		return "", []string{"inconclusive: publish on the new connection: " + err.Error()}
	}
	p, err := srv.Take(func(p *codec.Packet) bool { return true }, 5*time.Second)
	if err != nil || p.Type != codec.PUBLISH || string(p.Topic) != "rc/after" || string(p.Payload) != "hello again" {
		return fmt.Sprintf("after the reconnect the application published one small message; the server received %v (error %v, stream error %v) - output of the lost connection was carried over", p, err, srv.StreamErr()), classes
	}
	if se := srv.StreamErr(); se != nil {
		return fmt.Sprintf("the new connection's stream is malformed: %v", se), classes
	}
	// the new connection works in the other direction too
	pinged := make(chan struct{}, 1)
	if err := s.cl.Ping(func(msg, ack message.Message, err error) error { pinged <- struct{}{}; return nil }); err != nil {
		return "", []string{"inconclusive: ping on the new connection: " + err.Error()}
	}
	if _, err := srv.Take(func(p *codec.Packet) bool { return p.Type == codec.PINGREQ }, 5*time.Second); err != nil {
		return fmt.Sprintf("on the new connection the client's PINGREQ did not arrive: %v", err), classes
	}
	srv.SendRaw([]byte{0xD0, 0})
	select {
	case <-pinged:
	case <-time.After(5 * time.Second):
		return fmt.Sprintf("the same Client object connected again after it had lost a connection (%d bytes of an inbound packet had arrived before the loss); on the new connection the server answered the client's PINGREQ, but the Ping never completed: what the client reads is not what the new connection delivers", c.Partial), classes
	}
	var _ = service.Client{}
	return "", append(classes, "reconnect-after-connection-lost-with-output-pending")
}

func TestC17ClientReconnect(t *testing.T) { testClientReconnect(t, "C17", "client-reconnect-stream") }

// C14 (the rings of a Client across connections): same unit.
func TestC14ClientReconnect(t *testing.T) { testClientReconnect(t, "C14", "client-reconnect-rings") }

func testClientReconnect(t *testing.T, prop, unit string) {
	rec := ev.New(prop, unit)
	defer rec.Flush()
	if rp := ev.LoadReplay(t, unit); rp != nil {
		var c C17RCase
		json.Unmarshal(rp.Case, &c)
		if f, _ := runC17Reconnect(c); f != "" {
			p := rec.Violation("-", "script", f, c, nil)
			rec.Flush()
			t.Fatalf("VIOLATION %s replay=%s", f, p)
		}
		return
	} else if ev.Replaying() {
		t.Skip()
	}
	rapid.Check(t, func(t *rapid.T) {
		c := C17RCase{Size: rapid.SampledFrom([]int{3000, 9000, 20000}).Draw(t, "size"), Count: rapid.IntRange(20, 60).Draw(t, "count"), SP: rapid.Bool().Draw(t, "sp"), Buf: rapid.SampledFrom([]int{32768, 65536}).Draw(t, "buf"), Partial: rapid.SampledFrom([]int{0, 1, 2, 14, 50}).Draw(t, "partial")}
		f, cls := runC17Reconnect(c)
		for _, x := range cls {
			if len(x) > 12 && x[:12] == "inconclusive" {
				rec.Inconclusive()
				rec.Class(x, 1)
			}
		}
		rec.Case(c, true, cls...)
		if f != "" {
			p := rec.Violation("-", "script", f, c, nil)
			t.Fatalf("VIOLATION %s replay=%s", f, p)
		}
	})
}
