package p_client

import (
	"bytes"
	"encoding/binary"
	"encoding/json"
	"fmt"
	"sync"
	"sync/atomic"
	"testing"
	"time"

	"github.com/mdzio/go-mqtt/message"
	"pgregory.net/rapid"
	"verifharness/ev"
	"verifharness/ref/codec"
)

// C17 client role: several goroutines publish through one library Client and
// the client then disconnects; everything the fake server receives up to the
// end of the connection must be whole well-formed packets (a truncated tail
// that is a prefix of a packet the client was sending is tolerated), each
// goroutine's messages in order.

type C17CCase struct {
	Goroutines int    `json:"goroutines"`
	N          int    `json:"n"`
	Sizes      []int  `json:"sizes"`
	QoS        []byte `json:"qos"`
	DiscAfter  int    `json:"disc_after_us"` // microseconds between the last Publish returning and Disconnect
	// Stall: Disconnect is called in the middle of the publishers' traffic (while the
	// client's sender is busy), not after the last Publish has returned.
	Stall bool `json:"during_traffic,omitempty"`
}

func c17cPayload(g, seq, size int) []byte {
	if size < 12 {
		size = 12
	}
	b := make([]byte, size)
	binary.BigEndian.PutUint32(b, 0xC17CC17C)
	binary.BigEndian.PutUint16(b[4:], uint16(g))
	binary.BigEndian.PutUint16(b[6:], uint16(seq))
	binary.BigEndian.PutUint32(b[8:], uint32(size))
	for i := 12; i < size; i++ {
		b[i] = byte(g*11 + seq*7 + i)
	}
	return b
}

func runC17Client(c C17CCase) (fail string, classes []string) {
	s, err := connect(nil)
	if err != nil {
		return "", []string{"inconclusive: " + err.Error()}
	}
	defer s.close()
	s.srv.AutoAck = false
	if c.Stall {
		classes = append(classes, "disconnect-while-sender-is-busy")
	}
	var progress atomic.Int64
	var mu sync.Mutex
	last := map[int]int{}
	got := 0
	s.srv.OnPacket = func(p *codec.Packet, off int64) bool {
		if p.Type != codec.PUBLISH {
			return p.Type == codec.DISCONNECT
		}
		mu.Lock()
		defer mu.Unlock()
		b := p.Payload
		if len(b) < 12 || binary.BigEndian.Uint32(b) != 0xC17CC17C {
			if fail == "" {
				fail = fmt.Sprintf("the server received a PUBLISH whose payload (%d bytes) is not one the client sent", len(b))
			}
			return true
		}
		g, seq, size := int(binary.BigEndian.Uint16(b[4:])), int(binary.BigEndian.Uint16(b[6:])), int(binary.BigEndian.Uint32(b[8:]))
		if size != len(b) || !bytes.Equal(b, c17cPayload(g, seq, size)) {
			if fail == "" {
				fail = fmt.Sprintf("message (goroutine %d, seq %d) arrived corrupted (%d bytes, header says %d)", g, seq, len(b), size)
			}
			return true
		}
		if seq <= last[g] && fail == "" {
			fail = fmt.Sprintf("goroutine %d: message %d arrived after message %d", g, seq, last[g])
		}
		last[g] = seq
		got++
		// acknowledge so that the client's queues drain (not required for the property)
		return true
	}
	var wg sync.WaitGroup
	for g := 1; g <= c.Goroutines; g++ {
		wg.Add(1)
		go func(g int) {
			defer wg.Done()
			for seq := 1; seq <= c.N; seq++ {
				m := message.NewPublishMessage()
				m.SetTopic([]byte(fmt.Sprintf("c17/%d", g)))
				m.SetPayload(c17cPayload(g, seq, c.Sizes[(g+seq)%len(c.Sizes)]))
				m.SetQoS(c.QoS[g%len(c.QoS)])
				if err := s.cl.Publish(m, nil); err != nil {
					return
				}
				progress.Add(1)
			}
		}(g)
	}
	if c.Stall {
		// Disconnect is called in the middle of the publishers' traffic, while the client's
		// sender is busy writing: the goroutines that are still publishing get errors and stop
		for progress.Load() < int64(c.Goroutines*c.N/2) {
			time.Sleep(20 * time.Microsecond)
		}
		s.cl.Disconnect()
		wg.Wait()
	} else {
		wg.Wait()
		if c.DiscAfter > 0 {
			time.Sleep(time.Duration(c.DiscAfter) * time.Microsecond)
		}
		s.cl.Disconnect()
	}
	if !s.srv.WaitClosed(5 * time.Second) {
		return "", []string{"inconclusive: the client did not close the connection"}
	}
	mu.Lock()
	defer mu.Unlock()
	if fail != "" {
		return fail, classes
	}
	if se := s.srv.StreamErr(); se != nil {
		return fmt.Sprintf("the byte stream the client wrote is not a sequence of well-formed packets: %v (after %d whole PUBLISH packets of %d queued; Disconnect %d us after the last Publish returned)", se, got, c.Goroutines*c.N, c.DiscAfter), classes
	}
	if tail := s.srv.Pending(); len(tail) > 0 {
		classes = append(classes, "truncated-tail")
		// must be the beginning of a PUBLISH the client was sending, byte for byte
		if why := tailIsPrefix(tail); why != "" {
			return fmt.Sprintf("the stream ends with %d bytes that are not the beginning of a packet the client was sending: %s", len(tail), why), classes
		}
	}
	if got < c.Goroutines*c.N {
		classes = append(classes, "disconnect-overtook-queued-publishes")
	}
	if c.Goroutines >= 2 {
		classes = append(classes, "concurrent-publishers")
	}
	return "", classes
}

func genC17Client(t *rapid.T) C17CCase {
	c := C17CCase{Goroutines: rapid.IntRange(2, 4).Draw(t, "g"), N: rapid.IntRange(5, 60).Draw(t, "n"), DiscAfter: rapid.SampledFrom([]int{0, 0, 0, 50, 500, 5000}).Draw(t, "discafter")}
	for i, n := 0, rapid.IntRange(1, 4).Draw(t, "nsizes"); i < n; i++ {
		c.Sizes = append(c.Sizes, rapid.SampledFrom([]int{12, 100, 1000, 4000, 8100}).Draw(t, "size"))
	}
	for i := 0; i < c.Goroutines; i++ {
		c.QoS = append(c.QoS, byte(rapid.IntRange(0, 1).Draw(t, "q")))
	}
	if rapid.IntRange(0, 3).Draw(t, "stall") == 0 {
		c.Stall = true
		c.N = rapid.IntRange(40, 200).Draw(t, "nstall")
		c.Sizes = []int{rapid.SampledFrom([]int{4000, 8100, 3000}).Draw(t, "stallsize")}
	}
	return c
}

func TestC17Client(t *testing.T) {
	rec := ev.New("C17", "client-role")
	defer rec.Flush()
	if rp := ev.LoadReplay(t, "client-role"); rp != nil {
		var c C17CCase
		json.Unmarshal(rp.Case, &c)
		for i := 0; i < 30; i++ {
			if f, _ := runC17Client(c); f != "" {
				p := rec.Violation("-", "schedule", f, c, nil)
				rec.Flush()
				t.Fatalf("VIOLATION %s replay=%s", f, p)
			}
		}
		return
	} else if ev.Replaying() {
		t.Skip()
	}
	rapid.Check(t, func(t *rapid.T) {
		c := genC17Client(t)
		f, cls := runC17Client(c)
		nt := false
		for _, x := range cls {
			if x == "concurrent-publishers" {
				nt = true
			}
			if len(x) > 12 && x[:12] == "inconclusive" {
				rec.Inconclusive()
			}
		}
		rec.Case(c, nt, cls...)
		if f != "" {
			p := rec.Violation("-", "schedule", f, c, nil)
			t.Fatalf("VIOLATION %s replay=%s", f, p)
		}
	})
}

// tailIsPrefix checks that an incomplete packet at the end of the stream is a
// byte-exact prefix of one of the PUBLISH packets the test's goroutines send.
func tailIsPrefix(tail []byte) string {
	if tail[0]>>4 != codec.PUBLISH {
		return fmt.Sprintf("first byte %#x is not a PUBLISH header", tail[0])
	}
	_, remlen, hdr, err := codec.Header(tail)
	if err != nil {
		if err == codec.ErrShort {
			return ""
		}
		return err.Error()
	}
	body := tail[hdr:]
	if len(body) < 2 {
		return ""
	}
	tl := int(body[0])<<8 | int(body[1])
	if tl < 5 || tl > 6 {
		return fmt.Sprintf("topic length %d", tl)
	}
	if len(body) < 2+tl {
		return ""
	}
	topic := string(body[2 : 2+tl])
	var g int
	if _, err := fmt.Sscanf(topic, "c17/%d", &g); err != nil {
		return fmt.Sprintf("topic %q", topic)
	}
	o := 2 + tl
	if (tail[0]>>1)&3 != 0 {
		o += 2
	}
	if len(body) < o+12 {
		return ""
	}
	pl := body[o:]
	if binary.BigEndian.Uint32(pl) != 0xC17CC17C {
		return "payload does not start with a message header"
	}
	pg, seq, size := int(binary.BigEndian.Uint16(pl[4:])), int(binary.BigEndian.Uint16(pl[6:])), int(binary.BigEndian.Uint32(pl[8:]))
	if pg != g || size != remlen-o {
		return fmt.Sprintf("header (goroutine %d, size %d) disagrees with topic %q / remaining length %d", pg, size, topic, remlen)
	}
	want := c17cPayload(g, seq, size)
	if !bytes.Equal(pl, want[:len(pl)]) {
		i := 0
		for i < len(pl) && pl[i] == want[i] {
			i++
		}
		return fmt.Sprintf("message (goroutine %d, seq %d): byte %d of the payload is %#x, the client was sending %#x (foreign bytes inside a packet)", g, seq, i, pl[i], want[i])
	}
	return ""
}
