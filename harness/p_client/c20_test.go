package p_client

import (
	"bytes"
	"encoding/json"
	"fmt"
	"sync"
	"testing"
	"time"

	"github.com/mdzio/go-mqtt/message"
	"github.com/mdzio/go-mqtt/service"
	"pgregory.net/rapid"
	"verifharness/census"
	"verifharness/ev"
	"verifharness/ref/codec"
	"verifharness/ref/match"
	"verifharness/wire"
)

// ---- C20 connect part -----------------------------------------------------------------

type ConnCase struct {
	Answer []byte `json:"answer"` // bytes the server answers the CONNECT with (nil: none)
	Then   string `json:"then"`   // "" | close | silence
	Desc   string `json:"desc"`
	Split  int    `json:"split,omitempty"` // the answer is sent in two TCP writes, split after this many bytes, 60 ms apart
}

func libGoroutinesGone(d time.Duration) []census.G {
	deadline := time.Now().Add(d)
	var left []census.G
	for {
		if left = census.Lib(); len(left) == 0 || time.Now().After(deadline) {
			return left
		}
		time.Sleep(2 * time.Millisecond)
	}
}

func runConn(c ConnCase) (fail string, classes []string) {
	if left := libGoroutinesGone(500 * time.Millisecond); len(left) > 0 {
		return "", []string{"inconclusive: library goroutines left over from an earlier case"}
	}
	fs, err := wire.NewFakeServer()
	if err != nil {
		return "", []string{"inconclusive: " + err.Error()}
	}
	defer fs.Close()
	cl := &service.Client{BufferSize: 16384, ConnectTimeout: 1}
	cm := message.NewConnectMessage()
	cm.SetVersion(4)
	cm.SetCleanSession(true)
	id := fmt.Sprintf("cc%d-%d", time.Now().UnixNano()%100000, clientSeq.Add(1))
	cm.SetClientID([]byte(id))
	cm.SetKeepAlive(120)
	res := make(chan error, 1)
	go func() { res <- cl.Connect(fs.URI(), cm) }()
	srv, err := fs.Accept(5 * time.Second)
	if err != nil {
		return "", []string{"inconclusive: accept: " + err.Error()}
	}
	defer srv.Close()
	if _, err := srv.Take(func(p *codec.Packet) bool { return p.Type == codec.CONNECT }, 5*time.Second); err != nil {
		return fmt.Sprintf("the client did not send a well-formed CONNECT first: %v (stream error %v)", err, srv.StreamErr()), nil
	}
	if len(c.Answer) > 0 {
		if c.Split > 0 && c.Split < len(c.Answer) {
			srv.SendRaw(c.Answer[:c.Split])
			time.Sleep(60 * time.Millisecond)
			srv.SendRaw(c.Answer[c.Split:])
		} else {
			srv.SendRaw(c.Answer)
		}
	}
	if c.Then == "close" {
		srv.Close()
	}
	var cerr error
	select {
	case cerr = <-res:
	case <-time.After(6 * time.Second):
		return fmt.Sprintf("Client.Connect did not return within 6 s (%s; ConnectTimeout is 1 s)", c.Desc), nil
	}
	// what must Connect have returned?
	p, n, perr := codec.Decode(c.Answer)
	wellFormed := perr == nil && n == len(c.Answer) && p.Type == codec.CONNACK
	lenient := !wellFormed && len(c.Answer) == 4 && c.Answer[0] == 0x20 && c.Answer[1] == 2 && c.Answer[2]&^1 == 0 && c.Answer[3] <= 5
	switch {
	case wellFormed && p.ReturnCode == 0:
		classes = append(classes, "accepted")
		if cerr != nil {
			return fmt.Sprintf("the server answered CONNACK code 0 (%s) but Client.Connect returned %v", c.Desc, cerr), classes
		}
		cl.Disconnect()
	case wellFormed || lenient:
		code := c.Answer[3]
		classes = append(classes, fmt.Sprintf("refused-code-%d", code))
		if code == 0 {
			// session present with code 0 handled above; lenient with code 0 = reserved bits: either
			if cerr == nil {
				cl.Disconnect()
			}
			break
		}
		if cerr == nil {
			cl.Disconnect()
			return fmt.Sprintf("the server refused the connection with CONNACK code %d (%s) but Client.Connect returned nil", code, c.Desc), classes
		}
		if cc, ok := cerr.(message.ConnackCode); !ok || byte(cc) != code {
			return fmt.Sprintf("the server refused the connection with CONNACK code %d (%s); Client.Connect returned %T %v instead of that code", code, c.Desc, cerr, cerr), classes
		}
	default:
		classes = append(classes, "no-valid-connack")
		if cerr == nil {
			cl.Disconnect()
			return fmt.Sprintf("the server never sent a valid CONNACK (%s) but Client.Connect returned nil", c.Desc), classes
		}
	}
	// a failed (and a finished) connection leaves nothing behind
	if cerr != nil {
		if c.Then != "close" && !srv.WaitClosed(3*time.Second) {
			return fmt.Sprintf("after Client.Connect failed with %v (%s) the client left the socket open", cerr, c.Desc), classes
		}
	}
	if left := libGoroutinesGone(3 * time.Second); len(left) > 0 {
		return fmt.Sprintf("after Client.Connect returned %v (%s) %d goroutine(s) of the library remain: %v", cerr, c.Desc, len(left), census.Summary(left)), classes
	}
	return "", classes
}

func connCases() []ConnCase {
	var cs []ConnCase
	for code := byte(0); code <= 5; code++ {
		for sp := byte(0); sp <= 1; sp++ {
			cs = append(cs, ConnCase{Answer: []byte{0x20, 2, sp, code}, Desc: fmt.Sprintf("CONNACK sp=%d code=%d", sp, code)})
		}
	}
	for code := byte(0); code <= 5; code++ {
		for split := 1; split <= 3; split++ {
			cs = append(cs, ConnCase{Answer: []byte{0x20, 2, 0, code}, Split: split, Desc: fmt.Sprintf("CONNACK code=%d arriving in two segments (split after byte %d)", code, split)})
		}
	}
	cs = append(cs,
		ConnCase{Answer: []byte{0x20, 2, 0, 6}, Desc: "CONNACK with return code 6"},
		ConnCase{Answer: []byte{0x20, 2, 2, 0}, Desc: "CONNACK with reserved acknowledge flags"},
		ConnCase{Answer: []byte{0x21, 2, 0, 0}, Desc: "CONNACK with non-zero fixed-header flags"},
		ConnCase{Answer: []byte{0x20, 1, 0}, Then: "close", Desc: "CONNACK with remaining length 1, then close"},
		ConnCase{Answer: []byte{0x20, 2, 0}, Then: "close", Desc: "truncated CONNACK, then close"},
		ConnCase{Answer: []byte{0x20}, Then: "close", Desc: "one byte, then close"},
		ConnCase{Answer: []byte{0x90, 3, 0, 1, 0}, Desc: "SUBACK instead of CONNACK"},
		ConnCase{Answer: []byte{0x30, 5, 0, 1, 'a', 'x', 'y'}, Desc: "PUBLISH instead of CONNACK"},
		ConnCase{Answer: []byte{0xD0, 0}, Desc: "PINGRESP instead of CONNACK"},
		ConnCase{Then: "close", Desc: "close without answer"},
		ConnCase{Then: "silence", Desc: "no answer until the connect timeout"},
		ConnCase{Answer: []byte{0x20, 2, 0}, Then: "silence", Desc: "truncated CONNACK, then silence"},
	)
	return cs
}

func TestC20Connect(t *testing.T) {
	rec := ev.New("C20", "connect")
	defer rec.Flush()
	if rp := ev.LoadReplay(t, "connect"); rp != nil {
		var c ConnCase
		json.Unmarshal(rp.Case, &c)
		if f, _ := runConn(c); f != "" {
			p := rec.Violation("-", "script", f, c, nil)
			rec.Flush()
			t.Fatalf("VIOLATION %s replay=%s", f, p)
		}
		return
	} else if ev.Replaying() {
		t.Skip()
	}
	e := ev.GetEnv()
	for i, c := range connCases() {
		if i%e.Shards != e.Shard {
			continue
		}
		f, cls := runConn(c)
		nt := len(c.Answer) == 0 || c.Answer[len(c.Answer)-1] != 0 || c.Then != ""
		for _, x := range cls {
			if len(x) > 12 && x[:12] == "inconclusive" {
				rec.Inconclusive()
			}
		}
		rec.Case(c, nt, cls...)
		if f != "" {
			p := rec.Violation("-", "script", f, c, nil)
			rec.Flush()
			t.Fatalf("VIOLATION %s replay=%s", f, p)
		}
	}
	rec.Exhaustive(true)
	rec.Set("exhaustive_space_connect", "CONNACK code 0-5 x SessionPresent 0/1, code 0-5 x fragmentation at every split point, six malformed CONNACK variants, three other packet types instead of CONNACK, close without answer, silence until the connect timeout")
}

// ---- C20 dispatch part ------------------------------------------------------------------

type DStep struct {
	K       string   `json:"k"` // sub unsub pub pubrel filler
	Filters []string `json:"filters,omitempty"`
	Codes   []byte   `json:"codes,omitempty"` // SUBACK codes the server answers
	Topic   string   `json:"topic,omitempty"`
	QoS     byte     `json:"qos,omitempty"`
	ID      uint16   `json:"id,omitempty"`
	Size    int      `json:"size,omitempty"`
	Bytes   int      `json:"bytes,omitempty"`
	RemLen  int      `json:"remlen,omitempty"` // pub: the payload size is chosen so that the packet's remaining length is exactly this
	Dup     bool     `json:"dup,omitempty"` // pub QoS 2: the first copy already carries DUP=1
	Retain  bool     `json:"retain,omitempty"` // pub: the delivered PUBLISH carries the retain flag
	Empty   bool     `json:"empty,omitempty"`  // pub: zero-length payload
	Clean   bool     `json:"clean,omitempty"` // reconnect: CleanSession of the second CONNECT
}

type DCase struct {
	Steps []DStep `json:"steps"`
	// BufSize: the Client's BufferSize (0: 16 KiB). With larger buffers some delivered
	// messages have remaining lengths at the 2/3-byte and 3/4-byte boundaries of the
	// length encoding and at the largest packet the buffer takes in (BufSize-8192).
	BufSize int `json:"bufsize,omitempty"`
	// Coalesce: the server writes its CONNACK and a first QoS 1 PUBLISH (a message that was
	// waiting for the client; no subscription of the script matches its topic) in one piece.
	Coalesce bool `json:"coalesce,omitempty"`
}

type invocation struct {
	req     int
	topic   string
	payload []byte
}

type dreq struct {
	filters map[string]bool // granted and not unsubscribed
	// stale: the request was made on an earlier connection of the same Client object;
	// the server has no session for it any more (SessionPresent=0). Whether its
	// callback still sees matching messages is left open; it never sees others.
	stale bool
}

type dresult struct {
	Fail    string
	Incon   string
	Classes []string
}

func dpayload(n, size int) []byte {
	b := make([]byte, size)
	for i := range b {
		b[i] = byte(n*17 + i*3)
	}
	copy(b, fmt.Sprintf("m%04d:", n))
	return b
}

func runDispatch(c DCase) (res dresult) {
	cls := map[string]bool{}
	defer func() {
		for k := range cls {
			res.Classes = append(res.Classes, k)
		}
	}()
	var connack []byte
	if c.Coalesce {
		connack = append([]byte{0x20, 2, 0, 0}, codec.Encode(&codec.Packet{Type: codec.PUBLISH, QoS: 1, PacketID: 4242, Topic: []byte("zz/early"), Payload: []byte("early")})...)
	}
	s, err := connectBuf(connack, c.BufSize)
	if err != nil {
		return dresult{Incon: err.Error()}
	}
	defer s.close()
	if c.Coalesce {
		cls["publish-in-one-piece-with-the-connack"] = true
		a, err := s.srv.Take(func(p *codec.Packet) bool { return p.Type == codec.PUBACK }, 3*time.Second)
		if err != nil || a.PacketID != 4242 {
			return dresult{Fail: fmt.Sprintf("the server wrote its CONNACK (code 0) and a QoS 1 PUBLISH with identifier 4242 in one piece; Client.Connect succeeded, the PUBLISH was answered by %v (%v; stream error %v), expected PUBACK with that identifier", a, err, s.srv.StreamErr())}
		}
	}
	if c.BufSize > 16384 {
		cls[fmt.Sprintf("client-buffers-%dKiB", c.BufSize/1024)] = true
	}
	var mu sync.Mutex
	var invs []invocation
	var reqs []*dreq
	flush := func() string {
		s.srv.SendRaw([]byte{0xC0, 0})
		if _, err := s.srv.Take(func(p *codec.Packet) bool { return p.Type == codec.PINGRESP }, 5*time.Second); err != nil {
			if se := s.srv.StreamErr(); se != nil {
				return "the client sent a malformed stream: " + se.Error()
			}
			return "the client no longer answers (flush round trip): " + err.Error()
		}
		return ""
	}
	take := func() []invocation {
		mu.Lock()
		defer mu.Unlock()
		g := invs
		invs = nil
		return g
	}
	type open2 struct {
		topic   string
		payload []byte
		retain  bool
	}
	q2 := map[uint16]*open2{}
	var q2order []uint16 // open exchanges in PUBLISH (= PUBREC) order
	msgno := 0
	// judge compares the invocations since the last cut with the model for ONE delivered message (or none)
	judge := func(where string, topic string, payload []byte, delivered bool) string {
		got := take()
		per := map[int]int{}
		for _, in := range got {
			if !delivered {
				return fmt.Sprintf("%s: the message callback of subscribe request %d was invoked (topic %q) although no application message was delivered", where, in.req, in.topic)
			}
			if in.topic != topic || !bytes.Equal(in.payload, payload) {
				return fmt.Sprintf("%s: callback of request %d received topic %q with %d bytes instead of the delivered %q with %d bytes", where, in.req, in.topic, len(in.payload), topic, len(payload))
			}
			per[in.req]++
		}
		if !delivered {
			return ""
		}
		for ri, r := range reqs {
			k := 0
			for f := range r.filters {
				if match.Matches(f, topic) {
					k++
				}
			}
			g := per[ri]
			if r.stale && g <= k {
				continue
			}
			switch {
			case k == 0 && g != 0:
				return fmt.Sprintf("%s: callback of request %d was invoked %d time(s) for topic %q, which none of its subscribed filters %v matches", where, ri, g, topic, keysOf(r.filters))
			case k == 1 && g != 1:
				return fmt.Sprintf("%s: callback of request %d was invoked %d times for topic %q; exactly one of its filters %v matches, so exactly once is expected", where, ri, g, topic, keysOf(r.filters))
			case k > 1 && (g < 1 || g > k):
				return fmt.Sprintf("%s: callback of request %d was invoked %d times for topic %q; %d of its filters match (1..%d expected)", where, ri, g, topic, k, k)
			}
			if k > 0 {
				cls["callback-invoked"] = true
			} else if len(r.filters) > 0 {
				cls["other-request-not-invoked"] = true
			}
		}
		return ""
	}
	for i, st := range c.Steps {
		where := fmt.Sprintf("step %d (%s)", i, st.K)
		switch st.K {
		case "sub":
			ri := len(reqs)
			r := &dreq{filters: map[string]bool{}}
			reqs = append(reqs, r)
			m := message.NewSubscribeMessage()
			for _, f := range st.Filters {
				m.AddTopic([]byte(f), 1)
			}
			done := make(chan error, 1)
			err := s.cl.Subscribe(m, func(msg, ack message.Message, err error) error { done <- err; return nil }, func(pm *message.PublishMessage) error {
				mu.Lock()
				invs = append(invs, invocation{ri, string(pm.Topic()), append([]byte(nil), pm.Payload()...)})
				mu.Unlock()
				return nil
			})
			if err != nil {
				return dresult{Fail: fmt.Sprintf("%s: Subscribe returned %v", where, err)}
			}
			sp, err := s.srv.Take(func(p *codec.Packet) bool { return p.Type == codec.SUBSCRIBE }, 5*time.Second)
			if err != nil {
				return dresult{Fail: fmt.Sprintf("%s: no SUBSCRIBE arrived: %v", where, err)}
			}
			codes := make([]byte, len(sp.Topics))
			for j := range codes {
				codes[j] = st.Codes[j%len(st.Codes)]
			}
			s.srv.Send(&codec.Packet{Type: codec.SUBACK, PacketID: sp.PacketID, ReturnCodes: codes})
			select {
			case <-done:
			case <-time.After(5 * time.Second):
				return dresult{Fail: fmt.Sprintf("%s: the completion callback of Subscribe did not fire after the SUBACK", where)}
			}
			for j, f := range sp.Topics {
				if codes[j] != 0x80 {
					r.filters[string(f)] = true
				} else {
					cls["filter-refused-0x80"] = true
				}
			}
			if len(reqs) >= 2 {
				cls[">=2-subscribe-requests"] = true
			}
		case "unsub":
			m := message.NewUnsubscribeMessage()
			for _, f := range st.Filters {
				m.AddTopic([]byte(f))
			}
			done := make(chan error, 1)
			if err := s.cl.Unsubscribe(m, func(msg, ack message.Message, err error) error { done <- err; return nil }); err != nil {
				return dresult{Fail: fmt.Sprintf("%s: Unsubscribe returned %v", where, err)}
			}
			up, err := s.srv.Take(func(p *codec.Packet) bool { return p.Type == codec.UNSUBSCRIBE }, 5*time.Second)
			if err != nil {
				return dresult{Fail: fmt.Sprintf("%s: no UNSUBSCRIBE arrived: %v", where, err)}
			}
			s.srv.Send(&codec.Packet{Type: codec.UNSUBACK, PacketID: up.PacketID})
			select {
			case <-done:
			case <-time.After(5 * time.Second):
				return dresult{Fail: fmt.Sprintf("%s: the completion callback of Unsubscribe did not fire after the UNSUBACK", where)}
			}
			for _, f := range up.Topics {
				for _, r := range reqs {
					if r.filters[string(f)] {
						delete(r.filters, string(f))
						cls["unsubscribed-held-filter"] = true
					}
				}
			}
		case "pub":
			msgno++
			size := st.Size
			if st.RemLen > 0 {
				size = st.RemLen - 2 - len(st.Topic)
				if st.QoS > 0 {
					size -= 2
				}
				switch {
				case st.RemLen >= 2097152:
					cls["delivered-message-with-4-byte-remaining-length"] = true
				case st.RemLen >= 16384:
					cls["delivered-message-with-3-byte-remaining-length"] = true
				}
			}
			pl := dpayload(msgno, size)
			if st.Empty {
				pl = []byte{}
				cls["delivered-message-with-empty-payload"] = true
			}
			if st.Retain {
				cls["delivered-message-with-retain-flag"] = true
				if st.Empty {
					cls["delivered-message-with-retain-flag-and-empty-payload"] = true
				}
			}
			switch st.QoS {
			case 0:
				s.srv.Send(&codec.Packet{Type: codec.PUBLISH, Retain: st.Retain, Topic: []byte(st.Topic), Payload: pl})
				if f := flush(); f != "" {
					return dresult{Fail: where + ": " + f}
				}
				if f := judge(where, st.Topic, pl, true); f != "" {
					return dresult{Fail: f}
				}
			case 1:
				s.srv.Send(&codec.Packet{Type: codec.PUBLISH, QoS: 1, Retain: st.Retain, PacketID: st.ID, Topic: []byte(st.Topic), Payload: pl})
				if f := flush(); f != "" {
					return dresult{Fail: where + ": " + f}
				}
				a, err := s.srv.Take(func(p *codec.Packet) bool { return p.Type == codec.PUBACK }, time.Second)
				if err != nil || a.PacketID != st.ID {
					return dresult{Fail: fmt.Sprintf("%s: QoS 1 PUBLISH id %d was answered by %v (%v), expected PUBACK with that id", where, st.ID, a, err)}
				}
				if f := judge(where, st.Topic, pl, true); f != "" {
					return dresult{Fail: f}
				}
			case 2:
				o := q2[st.ID]
				dup := o != nil || st.Dup
				if o == nil && st.Dup {
					cls["first-copy-carries-dup"] = true
				}
				if o == nil {
					o = &open2{st.Topic, pl, st.Retain}
					q2[st.ID] = o
					q2order = append(q2order, st.ID)
				} else {
					cls["dup-publish-before-pubrel"] = true
				}
				s.srv.Send(&codec.Packet{Type: codec.PUBLISH, QoS: 2, Dup: dup, Retain: o.retain, PacketID: st.ID, Topic: []byte(o.topic), Payload: o.payload})
				if f := flush(); f != "" {
					return dresult{Fail: where + ": " + f}
				}
				a, err := s.srv.Take(func(p *codec.Packet) bool { return p.Type == codec.PUBREC }, time.Second)
				if err != nil || a.PacketID != st.ID {
					return dresult{Fail: fmt.Sprintf("%s: QoS 2 PUBLISH id %d was answered by %v (%v), expected PUBREC with that id", where, st.ID, a, err)}
				}
				if f := judge(where+" before PUBREL", "", nil, false); f != "" {
					return dresult{Fail: f}
				}
			}
		case "pubrel":
			// releases the oldest open exchange, or repeats a PUBREL for an id that is not open
			var id uint16
			var o *open2
			if len(q2order) > 0 {
				// PUBRELs are sent in PUBREC order (MQTT-4.6.0-4)
				id, q2order = q2order[0], q2order[1:]
				o = q2[id]
				delete(q2, id)
			} else {
				id = st.ID
				cls["duplicate-pubrel"] = true
			}
			s.srv.Send(&codec.Packet{Type: codec.PUBREL, PacketID: id})
			if f := flush(); f != "" {
				return dresult{Fail: where + ": " + f}
			}
			a, err := s.srv.Take(func(p *codec.Packet) bool { return p.Type == codec.PUBCOMP }, time.Second)
			if err != nil || a.PacketID != id {
				return dresult{Fail: fmt.Sprintf("%s: PUBREL id %d was answered by %v (%v), expected PUBCOMP with that id", where, id, a, err)}
			}
			if o != nil {
				if f := judge(where, o.topic, o.payload, true); f != "" {
					return dresult{Fail: f}
				}
			} else if f := judge(where, "", nil, false); f != "" {
				return dresult{Fail: f}
			}
		case "reconnect":
			// Disconnect, then Connect on the same Client object; the server starts from
			// nothing (SessionPresent=0): exchanges that were open are forgotten, packet
			// identifiers start again
			if len(q2) > 0 {
				cls["reconnect-with-an-open-qos2-exchange"] = true
			}
			if err := s.redial(st.Clean); err != nil {
				return dresult{Incon: where + ": " + err.Error()}
			}
			cls["same-client-object-connected-again"] = true
			for _, r := range reqs {
				r.stale = true
			}
			q2, q2order = map[uint16]*open2{}, nil
			if f := judge(where, "", nil, false); f != "" {
				return dresult{Fail: f}
			}
		case "filler":
			// unrelated inbound traffic (PINGRESPs nobody waits for would be dropped; use QoS 0 publishes on a topic nobody subscribed)
			if len(q2) > 0 && st.Bytes >= 16384 {
				cls["ring-of-traffic-between-publish-and-pubrel"] = true
			}
			fill := bytes.Repeat([]byte{0xEE}, 3000)
			for sent := 0; sent < st.Bytes; sent += 3000 {
				s.srv.Send(&codec.Packet{Type: codec.PUBLISH, Topic: []byte("zz/filler/none"), Payload: fill})
				if f := flush(); f != "" {
					return dresult{Fail: where + ": " + f}
				}
				if f := judge(where, "zz/filler/none", fill, true); f != "" {
					return dresult{Fail: f}
				}
			}
		}
		if extra := s.srv.Drain(); len(extra) > 0 {
			return dresult{Fail: fmt.Sprintf("%s: the client sent an unexpected %v", where, extra[0].P)}
		}
	}
	s.cl.Disconnect()
	return res
}

func keysOf(m map[string]bool) []string {
	var out []string
	for k := range m {
		out = append(out, k)
	}
	return out
}

var dFilters = []string{"a", "b", "a/b", "a/#", "a/+", "+", "+/b", "#", "b/#", "cc/+/a"}
var dTopics = []string{"a", "b", "a/b", "a/b/cc", "b/b", "cc/x/a", "cc", "$SYS/x"} // the last one reaches no callback, but is acknowledged like any other

func genDispatch(t *rapid.T, q2heavy bool) DCase {
	var c DCase
	ids := []uint16{1, 2, 3, 9}
	if rapid.IntRange(0, 7).Draw(t, "resume-scenario") == 0 {
		// an inbound QoS 2 exchange is left open, the application reconnects with the same
		// Client object, and the server (which starts from nothing) reuses the identifier
		id := rapid.SampledFrom(ids).Draw(t, "rs-id")
		c.Steps = append(c.Steps,
			DStep{K: "sub", Filters: []string{"a/#"}, Codes: []byte{2}},
			DStep{K: "pub", Topic: "a/b", QoS: 2, ID: id, Size: 20})
		if rapid.Bool().Draw(t, "rs-more") {
			c.Steps = append(c.Steps, DStep{K: "pub", Topic: "a", QoS: 2, ID: id + 1, Size: 6}, DStep{K: "pubrel"})
		}
		c.Steps = append(c.Steps,
			DStep{K: "reconnect", Clean: rapid.Bool().Draw(t, "rs-clean")},
			DStep{K: "sub", Filters: []string{rapid.SampledFrom([]string{"a/#", "a/b", "#"}).Draw(t, "rs-f")}, Codes: []byte{1}},
			DStep{K: "pub", Topic: "a/b", QoS: 2, ID: id, Size: 200},
			DStep{K: "pubrel"})
	}
	if rapid.IntRange(0, 7).Draw(t, "q2-burst") == 0 {
		// a server with an in-flight window of 17-40 messages: after one completed exchange that
		// many QoS 2 messages are open at once (the store of open exchanges grows while it is
		// not at its start), then they are released in order
		c.Steps = append(c.Steps,
			DStep{K: "sub", Filters: []string{"#"}, Codes: []byte{2}},
			DStep{K: "pub", Topic: "a/b", QoS: 2, ID: 50, Size: 6}, DStep{K: "pubrel"})
		n := rapid.IntRange(17, 40).Draw(t, "q2-burst-n")
		for i := 0; i < n; i++ {
			c.Steps = append(c.Steps, DStep{K: "pub", Topic: "a/b", QoS: 2, ID: uint16(100 + i), Size: 6})
		}
		for i := 0; i < n; i++ {
			c.Steps = append(c.Steps, DStep{K: "pubrel"})
		}
	}
	if q2heavy {
		// the receiver role needs subscriptions to hand messages on to: overlapping filters
		// granted different QoS levels (a message may arrive at the highest of them)
		st := DStep{K: "sub", Filters: []string{"a/#", "a/b", "#"}[:rapid.IntRange(1, 3).Draw(t, "q2-nf")]}
		for range st.Filters {
			st.Codes = append(st.Codes, rapid.SampledFrom([]byte{0, 1, 2}).Draw(t, "q2-code"))
		}
		c.Steps = append(c.Steps, st)
	}
	for i, n := 0, rapid.IntRange(4, 30).Draw(t, "nsteps"); i < n; i++ {
		k := rapid.IntRange(0, 19).Draw(t, "k")
		if q2heavy && k < 6 {
			k = 12 + k%3 // more publishes and releases
		}
		switch {
		case k < 4:
			st := DStep{K: "sub"}
			for j, m := 0, rapid.IntRange(1, 3).Draw(t, "nf"); j < m; j++ {
				f := rapid.SampledFrom(dFilters).Draw(t, "f")
				dup := false
				for _, x := range st.Filters {
					dup = dup || x == f
				}
				if !dup {
					st.Filters = append(st.Filters, f)
				}
			}
			for range st.Filters {
				st.Codes = append(st.Codes, rapid.SampledFrom([]byte{0, 1, 2, 1, 2, 0x80}).Draw(t, "code"))
			}
			c.Steps = append(c.Steps, st)
		case k < 6:
			// one to three filters per request; some of them are usually not subscribed
			st := DStep{K: "unsub"}
			for j, m := 0, rapid.SampledFrom([]int{1, 1, 2, 3}).Draw(t, "nuf"); j < m; j++ {
				st.Filters = append(st.Filters, rapid.SampledFrom(dFilters).Draw(t, "uf"))
			}
			c.Steps = append(c.Steps, st)
		case k < 15:
			q := byte(rapid.IntRange(0, 2).Draw(t, "q"))
			if q2heavy && rapid.IntRange(0, 2).Draw(t, "force-q2") == 0 {
				q = 2
			}
			c.Steps = append(c.Steps, DStep{K: "pub", Topic: rapid.SampledFrom(dTopics).Draw(t, "t"), QoS: q, ID: rapid.SampledFrom(ids).Draw(t, "id"), Size: rapid.SampledFrom([]int{6, 20, 200, 3000}).Draw(t, "size"), Dup: q == 2 && rapid.IntRange(0, 4).Draw(t, "firstdup") == 0,
				Retain: rapid.IntRange(0, 3).Draw(t, "retain") == 0, Empty: rapid.IntRange(0, 5).Draw(t, "empty") == 0})
		case k < 18:
			c.Steps = append(c.Steps, DStep{K: "pubrel", ID: rapid.SampledFrom(ids).Draw(t, "rid")})
		case k == 18 && rapid.IntRange(0, 2).Draw(t, "reconnect") == 0:
			c.Steps = append(c.Steps, DStep{K: "reconnect", Clean: rapid.Bool().Draw(t, "rclean")})
		default:
			c.Steps = append(c.Steps, DStep{K: "filler", Bytes: rapid.SampledFrom([]int{6000, 20000, 50000}).Draw(t, "fb")})
		}
	}
	// larger client buffers, and delivered messages at the boundaries they make reachable
	switch rapid.IntRange(0, 15).Draw(t, "bufclass") {
	case 0, 1:
		c.BufSize = 32768
	case 2:
		c.BufSize = 262144
	case 3:
		c.BufSize = 4 << 20
	}
	if c.BufSize > 0 {
		cands := map[int][]int{32768: {16383, 16384, 16385, 32768 - 8192 - 4}, 262144: {16384, 262144 - 8192 - 4, 100000}, 4 << 20: {2097151, 2097152, 2097153}}[c.BufSize]
		n := 0
		for i := range c.Steps {
			if st := &c.Steps[i]; st.K == "pub" && st.QoS < 2 && n < 3 && rapid.Bool().Draw(t, "atboundary") {
				st.RemLen = rapid.SampledFrom(cands).Draw(t, "remlen")
				n++
			}
		}
	}
	c.Coalesce = rapid.IntRange(0, 4).Draw(t, "coalesce") == 0
	return c
}

func dispatchSpec(t *testing.T, prop, unit string, q2heavy bool, ntRule func(cls []string) bool) {
	rec := ev.New(prop, unit)
	defer rec.Flush()
	if rp := ev.LoadReplay(t, unit); rp != nil {
		var c DCase
		json.Unmarshal(rp.Case, &c)
		if r := runDispatch(c); r.Fail != "" {
			p := rec.Violation("-", "script", r.Fail, c, nil)
			rec.Flush()
			t.Fatalf("VIOLATION %s replay=%s", r.Fail, p)
		}
		return
	} else if ev.Replaying() {
		t.Skip()
	}
	rapid.Check(t, func(t *rapid.T) {
		c := genDispatch(t, q2heavy)
		r := runDispatch(c)
		if r.Incon != "" {
			rec.Inconclusive()
			rec.Class("inconclusive: "+r.Incon[:minInt(len(r.Incon), 80)], 1)
		}
		rec.Case(c, ntRule(r.Classes), r.Classes...)
		if r.Fail != "" {
			p := rec.Violation("-", "script", r.Fail, c, nil)
			t.Fatalf("VIOLATION %s replay=%s", r.Fail, p)
		}
	})
}

func hasCls(cls []string, x string) bool {
	for _, c := range cls {
		if c == x {
			return true
		}
	}
	return false
}

func TestC20Dispatch(t *testing.T) {
	dispatchSpec(t, "C20", "dispatch", false, func(cls []string) bool {
		return (hasCls(cls, ">=2-subscribe-requests") && hasCls(cls, "callback-invoked") && hasCls(cls, "other-request-not-invoked")) || hasCls(cls, "unsubscribed-held-filter")
	})
}

// C02 client role: the same runner with QoS 2 heavy scripts.
func TestC02Client(t *testing.T) {
	dispatchSpec(t, "C02", "client-role", true, func(cls []string) bool {
		return hasCls(cls, "dup-publish-before-pubrel") || hasCls(cls, "duplicate-pubrel") || hasCls(cls, "ring-of-traffic-between-publish-and-pubrel")
	})
}
