// Package p_client holds the checks that drive the library's Client against a
// scripted fake server (C12 client role, C20, client-role variants of C02/C17).
package p_client

import (
	"bytes"
	"encoding/json"
	"fmt"
	"sync"
	"sync/atomic"
	"testing"
	"time"

	"github.com/mdzio/go-mqtt/message"
	"github.com/mdzio/go-mqtt/service"
	"pgregory.net/rapid"
	"verifharness/census"
	"verifharness/ev"
	"verifharness/fix"
	"verifharness/ref/codec"
	"verifharness/wire"
)

var clientSeq atomic.Int64

// session is one library client connected to a fake server.
type session struct {
	fs  *wire.FakeServer
	srv *wire.Client // server side of the connection
	cl  *service.Client
	id  string
}

func (s *session) close() {
	if s.srv != nil {
		s.srv.Close()
	}
	if s.fs != nil {
		s.fs.Close()
	}
}

// connect starts a fake server, connects a fresh library client and answers
// its CONNECT with the given CONNACK bytes (nil: standard code 0).
func connect(connack []byte) (*session, error) { return connectOpt(connack, false) }

// connectBuf is connect with a BufferSize for the Client (0: 16 KiB).
func connectBuf(connack []byte, bufSize int) (*session, error) {
	if bufSize == 0 {
		bufSize = 16384
	}
	clientBufSize = int64(bufSize)
	defer func() { clientBufSize = 16384 }()
	return connectOpt(connack, false)
}

var clientBufSize int64 = 16384

// clientClean is the CleanSession flag of the CONNECT connectOpt builds.
var clientClean = true

func connectOpt(connack []byte, smallBuffers bool) (*session, error) {
	fs, err := wire.NewFakeServer()
	if err != nil {
		return nil, err
	}
	fs.SmallBuffers = smallBuffers
	s := &session{fs: fs, id: fmt.Sprintf("cl%d-%d", time.Now().UnixNano()%100000, clientSeq.Add(1))}
	s.cl = &service.Client{BufferSize: clientBufSize, ConnectTimeout: 2}
	cm := message.NewConnectMessage()
	cm.SetVersion(4)
	cm.SetCleanSession(clientClean)
	cm.SetClientID([]byte(s.id))
	cm.SetKeepAlive(120)
	if err := s.dial(cm, connack); err != nil {
		s.close()
		return nil, err
	}
	return s, nil
}

// dial connects s.cl (a fresh Client, or the same object once more after a
// Disconnect) to the fake server and answers its CONNECT.
func (s *session) dial(cm *message.ConnectMessage, connack []byte) error {
	res := make(chan error, 1)
	go func() { res <- s.cl.Connect(s.fs.URI(), cm) }()
	srv, err := s.fs.Accept(5 * time.Second)
	if err != nil {
		return fmt.Errorf("accept: %v", err)
	}
	s.srv = srv
	if _, err := srv.Take(func(p *codec.Packet) bool { return p.Type == codec.CONNECT }, 5*time.Second); err != nil {
		return fmt.Errorf("no CONNECT from the client: %v", err)
	}
	if connack == nil {
		connack = []byte{0x20, 2, 0, 0}
	}
	srv.SendRaw(connack)
	select {
	case err := <-res:
		if err != nil {
			return fmt.Errorf("Client.Connect: %v", err)
		}
	case <-time.After(5 * time.Second):
		return fmt.Errorf("Client.Connect did not return")
	}
	return nil
}

// redial: the application disconnects and connects the same Client object again
// (same client identifier); the server answers SessionPresent=0.
func (s *session) redial(clean bool) error { return s.redialSP(clean, false) }

// redialSP is redial with the SessionPresent flag the server answers with.
func (s *session) redialSP(clean, sessionPresent bool) error {
	s.cl.Disconnect()
	s.srv.Close()
	cm := message.NewConnectMessage()
	cm.SetVersion(4)
	cm.SetCleanSession(clean)
	cm.SetClientID([]byte(s.id))
	cm.SetKeepAlive(120)
	connack := []byte{0x20, 2, 0, 0}
	if sessionPresent {
		connack[2] = 1
	}
	return s.dial(cm, connack)
}

// ---- C12 --------------------------------------------------------------------------

type Req struct {
	Kind   string `json:"kind"`             // pub0 pub1 pub2 sub unsub ping
	Forced bool   `json:"forced,omitempty"` // the ack is processed before the sending call registered the request
	DupRec bool   `json:"duprec,omitempty"` // pub2: PUBREC sent twice
	CbErr  bool   `json:"cberr,omitempty"`  // the application's completion callback returns an error (its own business: the other requests' completions are not affected)
	// Unsendable: the request is larger than the client's buffers, the sending call
	// returns an error and nothing is sent: no completion for it, and it must not
	// stand in the way of the requests behind it
	Unsendable bool `json:"unsendable,omitempty"`
	// NoCb: the request is issued without a completion callback (nothing to fire,
	// and nothing that may stand in the way of the others either)
	NoCb bool `json:"nocb,omitempty"`
	// sub: number of filters beyond the first (0-2) and which of them the server
	// refuses (SUBACK return code 0x80, bit k = filter k); a refusal is a terminal
	// acknowledgement like any other
	MoreFilters int `json:"more_filters,omitempty"`
	Refuse      int `json:"refuse,omitempty"`
	// ExplicitID: the application sets the packet identifier itself (pub1 pub2 sub unsub). The
	// generator gives an identifier to a later request only after the earlier request with it
	// has completed (forced requests complete before the next one is issued).
	ExplicitID uint16 `json:"explicit_id,omitempty"`
	// Unencodable: a PUBLISH with an explicit identifier and no topic: the sending call returns an
	// error and nothing is sent - no completion for it, nothing in the way of the others
	Unencodable bool `json:"unencodable,omitempty"`
}

type C12Case struct {
	Reqs     []Req `json:"reqs"`
	AckOrder []int `json:"ack_order"` // order in which the pending (non-forced) requests are acknowledged
	// Stale: requests (kinds pub1 pub2 sub unsub; "x" suffix: with the application-chosen
	// identifier 60001) issued on an EARLIER connection of the same Client object and never
	// acknowledged there; then the application disconnects and connects the same object again
	// (CleanSession=0; the server answers SessionPresent=StaleSP). The requests of the case
	// proper are made on the new connection: what was left over must not stand in their way.
	Stale   []string `json:"stale,omitempty"`
	StaleSP bool     `json:"stale_sp,omitempty"`
}

type c12result struct {
	Fail    string
	Incon   string
	Classes []string
}

func terminalOf(kind string) byte {
	switch kind {
	case "pub1":
		return codec.PUBACK
	case "pub2":
		return codec.PUBCOMP
	case "sub":
		return codec.SUBACK
	case "unsub":
		return codec.UNSUBACK
	case "ping":
		return codec.PINGRESP
	}
	return 0
}

func requestType(kind string) byte {
	switch kind {
	case "pub0", "pub1", "pub2":
		return codec.PUBLISH
	case "sub":
		return codec.SUBSCRIBE
	case "unsub":
		return codec.UNSUBSCRIBE
	}
	return codec.PINGREQ
}

var yieldMu sync.Mutex // one case at a time uses the process-wide yield hook

func runC12(c C12Case) (res c12result) {
	yieldMu.Lock()
	defer yieldMu.Unlock()
	defer fix.SetYield(nil)
	fix.RecordHandled(true)
	defer fix.RecordHandled(false)
	cls := map[string]bool{}
	defer func() {
		for k := range cls {
			res.Classes = append(res.Classes, k)
		}
	}()
	s, err := connect(nil)
	if err != nil {
		return c12result{Incon: err.Error()}
	}
	defer s.close()
	if len(c.Stale) > 0 {
		for si, k := range c.Stale {
			kind, explicit := k, false
			if len(k) > 0 && k[len(k)-1] == 'x' {
				kind, explicit = k[:len(k)-1], true
			}
			never := func(msg, ack message.Message, err error) error { return nil }
			switch kind {
			case "pub1", "pub2":
				m := message.NewPublishMessage()
				m.SetTopic([]byte(fmt.Sprintf("c12/stale/%d", si)))
				m.SetPayload([]byte("left over"))
				m.SetQoS(byte(kind[3] - '0'))
				if explicit {
					m.SetPacketID(60001)
				}
				s.cl.Publish(m, never)
			case "sub":
				m := message.NewSubscribeMessage()
				m.AddTopic([]byte(fmt.Sprintf("c12/stale/%d", si)), 1)
				if explicit {
					m.SetPacketID(60001)
				}
				s.cl.Subscribe(m, never, func(*message.PublishMessage) error { return nil })
			default:
				m := message.NewUnsubscribeMessage()
				m.AddTopic([]byte(fmt.Sprintf("c12/stale/%d", si)))
				if explicit {
					m.SetPacketID(60001)
				}
				s.cl.Unsubscribe(m, never)
			}
		}
		// the requests have reached the server (it never answers them)
		s.srv.SendRaw([]byte{0xC0, 0})
		s.srv.Take(func(p *codec.Packet) bool { return p.Type == codec.PINGRESP }, 5*time.Second)
		if err := s.redialSP(false, c.StaleSP); err != nil {
			return c12result{Incon: "reconnect of the same Client object: " + err.Error()}
		}
		cls["requests-left-over-from-an-earlier-connection-of-the-same-client-object"] = true
	}
	svcID := s.cl.VerifServiceID()
	n := len(c.Reqs)
	fired := make([]atomic.Int32, n)
	early := make([]atomic.Bool, n)
	termSent := make([]atomic.Bool, n)
	ids := make([]uint16, n)
	handled := map[int]int{} // packets of each type the client has handled so far (expected)
	waitHandled := func(t byte) bool {
		handled[int(t)]++
		return fix.WaitHandled(svcID, int(t), handled[int(t)], 5*time.Second)
	}
	// what the completion callbacks were handed: the request message must be the caller's own
	// request, and stay what it was (the application may keep it)
	var keptMu sync.Mutex
	kept := map[int]message.Message{}
	snap := map[int][]byte{}
	wrong := map[int]string{}
	encOf := func(m message.Message) []byte {
		b := make([]byte, m.Len())
		n, err := m.Encode(b)
		if err != nil {
			return []byte("encode error: " + err.Error())
		}
		return b[:n]
	}
	onComplete := func(i int) service.OnCompleteFunc {
		return func(msg, ack message.Message, err error) error {
			if !termSent[i].Load() && c.Reqs[i].Kind != "pub0" {
				early[i].Store(true)
			}
			if msg != nil && c.Reqs[i].Kind != "ping" {
				keptMu.Lock()
				mine := ""
				switch m := msg.(type) {
				case *message.PublishMessage:
					mine = string(m.Topic())
					if mine == fmt.Sprintf("c12/t/%d", i) {
						mine = ""
					}
				case *message.SubscribeMessage:
					if len(m.Topics()) == 0 || string(m.Topics()[0]) != fmt.Sprintf("c12/f/%d", i) {
						mine = fmt.Sprintf("%q", m.Topics())
					}
				case *message.UnsubscribeMessage:
					if len(m.Topics()) == 0 || string(m.Topics()[0]) != fmt.Sprintf("c12/f/%d", i) {
						mine = fmt.Sprintf("%q", m.Topics())
					}
				}
				if mine != "" && wrong[i] == "" {
					wrong[i] = mine
				}
				if _, dup := kept[i]; !dup {
					kept[i], snap[i] = msg, encOf(msg)
				}
				keptMu.Unlock()
			}
			fired[i].Add(1)
			if c.Reqs[i].CbErr {
				return fmt.Errorf("application error in the completion callback of request %d", i)
			}
			return nil
		}
	}
	cbOf := func(i int) service.OnCompleteFunc {
		if c.Reqs[i].NoCb {
			return nil
		}
		return onComplete(i)
	}
	issue := func(i int) error {
		r := c.Reqs[i]
		switch r.Kind {
		case "pub0", "pub1", "pub2":
			m := message.NewPublishMessage()
			m.SetTopic([]byte(fmt.Sprintf("c12/t/%d", i)))
			m.SetPayload([]byte(fmt.Sprintf("payload-%d", i)))
			if r.Unsendable {
				m.SetPayload(make([]byte, 20000)) // the client's buffers hold 16384 bytes
			}
			m.SetQoS(byte(r.Kind[3] - '0'))
			if r.Unencodable {
				m = message.NewPublishMessage()
				m.SetPayload([]byte("no topic"))
				m.SetQoS(byte(r.Kind[3] - '0'))
				m.SetPacketID(40000 + uint16(i))
			}
			if r.ExplicitID != 0 && r.Kind != "pub0" {
				m.SetPacketID(r.ExplicitID)
			}
			return s.cl.Publish(m, cbOf(i))
		case "sub":
			m := message.NewSubscribeMessage()
			m.AddTopic([]byte(fmt.Sprintf("c12/f/%d", i)), 1)
			for k := 0; k < r.MoreFilters; k++ {
				m.AddTopic([]byte(fmt.Sprintf("c12/f/%d/more/%d", i, k)), byte(k%3))
			}
			for k := 0; r.Unsendable && k < 400; k++ {
				m.AddTopic([]byte(fmt.Sprintf("c12/a-rather-long-filter-to-fill-the-packet/%d/%d/+/#", i, k)), 1)
			}
			if r.ExplicitID != 0 {
				m.SetPacketID(r.ExplicitID)
			}
			return s.cl.Subscribe(m, cbOf(i), func(*message.PublishMessage) error { return nil })
		case "unsub":
			m := message.NewUnsubscribeMessage()
			m.AddTopic([]byte(fmt.Sprintf("c12/f/%d", i)))
			for k := 0; r.Unsendable && k < 400; k++ {
				m.AddTopic([]byte(fmt.Sprintf("c12/a-rather-long-filter-to-fill-the-packet/%d/%d/+/#", i, k)))
			}
			if r.ExplicitID != 0 {
				m.SetPacketID(r.ExplicitID)
			}
			return s.cl.Unsubscribe(m, cbOf(i))
		default:
			return s.cl.Ping(cbOf(i))
		}
	}
	// takeRequest reads request i from the wire and learns its identifier.
	takeRequest := func(i int) string {
		t := requestType(c.Reqs[i].Kind)
		p, err := s.srv.Take(func(p *codec.Packet) bool { return p.Type == t }, 5*time.Second)
		if err != nil {
			return fmt.Sprintf("request %d (%s) did not arrive at the server: %v (stream error: %v)", i, c.Reqs[i].Kind, err, s.srv.StreamErr())
		}
		ids[i] = p.PacketID
		if x := c.Reqs[i].ExplicitID; x != 0 && t != codec.PINGREQ && !(t == codec.PUBLISH && p.QoS == 0) && p.PacketID != x {
			return fmt.Sprintf("request %d (%s) was given the packet identifier %d by the application and went out with %d", i, c.Reqs[i].Kind, x, p.PacketID)
		}
		if t != codec.PINGREQ && !(t == codec.PUBLISH && p.QoS == 0) && p.PacketID == 0 {
			return fmt.Sprintf("request %d (%s) carries packet identifier 0", i, c.Reqs[i].Kind)
		}
		return ""
	}
	pubrecs, pubrels := 0, 0
	// acknowledge sends the acks for request i; wait: wait until the client has handled each of them.
	acknowledge := func(i int, wait bool) string {
		r := c.Reqs[i]
		send := func(p *codec.Packet) { s.srv.Send(p) }
		switch r.Kind {
		case "pub1":
			termSent[i].Store(true)
			send(&codec.Packet{Type: codec.PUBACK, PacketID: ids[i]})
		case "pub2":
			nrec := 1
			if r.DupRec {
				nrec = 2
				cls["duplicate-pubrec"] = true
			}
			for k := 0; k < nrec; k++ {
				send(&codec.Packet{Type: codec.PUBREC, PacketID: ids[i]})
				pubrecs++
				rel, err := s.srv.Take(func(p *codec.Packet) bool { return p.Type == codec.PUBREL }, 5*time.Second)
				if err != nil {
					return fmt.Sprintf("request %d: PUBREC %d (id %d) was not answered by a PUBREL: %v", i, k+1, ids[i], err)
				}
				pubrels++
				if rel.PacketID != ids[i] {
					return fmt.Sprintf("request %d: PUBREC with id %d was answered by PUBREL with id %d", i, ids[i], rel.PacketID)
				}
				if wait && !waitHandled(codec.PUBREC) {
					return "inconclusive: client did not report handling PUBREC"
				}
			}
			termSent[i].Store(true)
			send(&codec.Packet{Type: codec.PUBCOMP, PacketID: ids[i]})
		case "sub":
			termSent[i].Store(true)
			codes := []byte{1}
			for k := 0; k < r.MoreFilters; k++ {
				codes = append(codes, byte(k%3))
			}
			for k := range codes {
				if r.Refuse>>k&1 == 1 {
					codes[k] = 0x80
					cls["suback-with-a-refused-filter"] = true
				}
			}
			send(&codec.Packet{Type: codec.SUBACK, PacketID: ids[i], ReturnCodes: codes})
		case "unsub":
			termSent[i].Store(true)
			send(&codec.Packet{Type: codec.UNSUBACK, PacketID: ids[i]})
		case "ping":
			termSent[i].Store(true)
			send(&codec.Packet{Type: codec.PINGRESP})
		}
		if wait && !waitHandled(terminalOf(r.Kind)) {
			return "inconclusive: client did not report handling the terminal ack"
		}
		return ""
	}
	var pending []int
	for i, r := range c.Reqs {
		if r.Unencodable {
			if err := issue(i); err == nil {
				return c12result{Incon: fmt.Sprintf("request %d (%s without a topic) cannot be encoded, yet the sending call reported success", i, r.Kind)}
			}
			cls["unencodable-request-among-the-others"] = true
			continue
		}
		if r.Unsendable {
			if err := issue(i); err == nil {
				return c12result{Incon: fmt.Sprintf("request %d (%s) is larger than the client's buffers, yet the sending call reported success", i, r.Kind)}
			}
			cls["unsendable-request-among-the-others"] = true
			continue
		}
		if r.Kind == "pub0" {
			if err := issue(i); err != nil {
				return c12result{Fail: fmt.Sprintf("request %d (pub0): %v", i, err)}
			}
			if fired[i].Load() != 1 && !r.NoCb {
				return c12result{Fail: fmt.Sprintf("request %d: a QoS 0 publish must complete as soon as it is queued, its completion callback fired %d times inside Publish", i, fired[i].Load())}
			}
			if f := takeRequest(i); f != "" {
				return c12result{Fail: f}
			}
			continue
		}
		if !r.Forced {
			if err := issue(i); err != nil {
				return c12result{Fail: fmt.Sprintf("request %d (%s): %v", i, r.Kind, err)}
			}
			if f := takeRequest(i); f != "" {
				return c12result{Fail: f}
			}
			// the library numbers requests from a process-wide counter; once in 65535 requests
			// that number is the one the application chose for an earlier request of this case,
			// which may still be in the queue (also a forced one that waits behind an
			// unacknowledged request): outside the domain (two requests, one identifier)
			for j := 0; j < i; j++ {
				if (c.Reqs[i].ExplicitID == 0 || c.Reqs[j].ExplicitID == 0) && ids[j] == ids[i] && ids[i] != 0 && requestType(c.Reqs[j].Kind) == requestType(c.Reqs[i].Kind) {
					return c12result{Incon: fmt.Sprintf("an automatic packet identifier (%d) coincides with one used earlier in the case", ids[i])}
				}
			}
			pending = append(pending, i)
			continue
		}
		// forced adverse interleaving: park the sending call between write and registration
		cls["ack-processed-before-registration"] = true
		parked := make(chan struct{}, 1)
		release := make(chan struct{})
		var once atomic.Bool
		point := map[string]string{"pub1": "publish", "pub2": "publish", "sub": "subscribe", "unsub": "unsubscribe", "ping": "ping"}[r.Kind] + ".after-write"
		fix.SetYield(func(p string, obj interface{}) {
			if p == point {
				if id, ok := obj.(uint64); ok && id == svcID && once.CompareAndSwap(false, true) {
					parked <- struct{}{}
					<-release
				}
			}
		})
		done := make(chan error, 1)
		go func(i int) { done <- issue(i) }(i)
		select {
		case <-parked:
		case <-time.After(5 * time.Second):
			close(release)
			return c12result{Incon: "sending call did not reach the after-write yield"}
		}
		if f := takeRequest(i); f != "" {
			close(release)
			return c12result{Fail: f}
		}
		for j := 0; j < i; j++ {
			if (c.Reqs[i].ExplicitID == 0 || c.Reqs[j].ExplicitID == 0) && ids[j] == ids[i] && ids[i] != 0 && requestType(c.Reqs[j].Kind) == requestType(c.Reqs[i].Kind) {
				close(release)
				return c12result{Incon: fmt.Sprintf("an automatic packet identifier (%d) coincides with one used earlier in the case", ids[i])}
			}
		}
		f := acknowledge(i, true)
		close(release)
		fix.SetYield(nil)
		select {
		case err := <-done:
			if err != nil {
				return c12result{Fail: fmt.Sprintf("request %d (%s): %v", i, r.Kind, err)}
			}
		case <-time.After(5 * time.Second):
			return c12result{Incon: "sending call did not return after release"}
		}
		if f != "" {
			if len(f) > 12 && f[:12] == "inconclusive" {
				return c12result{Incon: f}
			}
			return c12result{Fail: f}
		}
	}
	// the pending requests are acknowledged in the drawn order
	order := append([]int(nil), pending...)
	for k, o := range c.AckOrder {
		if k < len(order) && len(order) > 0 {
			j := o % len(order)
			order[k], order[j] = order[j], order[k]
		}
	}
	for k := 1; k < len(order); k++ {
		if order[k] < order[k-1] {
			cls["acks-out-of-request-order"] = true
		}
	}
	if len(order) > 16 {
		cls[">16-requests-in-flight"] = true
	}
	group := func(kind string) string {
		if kind == "pub1" || kind == "pub2" {
			return "pub"
		}
		return kind
	}
	// due reports the requests whose completion is due: their terminal acknowledgement
	// and those of all earlier requests of the same kind have been sent
	due := func() (out []int) {
		open := map[string]bool{}
		for j, r := range c.Reqs {
			if r.Unsendable || r.Unencodable || r.Kind == "pub0" {
				continue
			}
			if !termSent[j].Load() {
				open[group(r.Kind)] = true
			} else if !open[group(r.Kind)] && !r.NoCb {
				out = append(out, j)
			}
		}
		return out
	}
	for n, i := range order {
		if f := acknowledge(i, false); f != "" {
			return c12result{Fail: f}
		}
		if n == len(order)-1 {
			break // the final flush below judges the complete set
		}
		// the library answers the server's PINGREQ after it has processed the acknowledgement
		s.srv.SendRaw([]byte{0xC0, 0})
		if _, err := s.srv.Take(func(p *codec.Packet) bool { return p.Type == codec.PINGRESP }, 5*time.Second); err != nil {
			if se := s.srv.StreamErr(); se != nil {
				return c12result{Fail: "the client sent a malformed stream: " + se.Error()}
			}
			return c12result{Incon: "round trip after an acknowledgement failed: " + err.Error()}
		}
		for _, j := range due() {
			if fired[j].Load() == 0 {
				cls["completion-due-while-other-kinds-are-open"] = true
				return c12result{Fail: fmt.Sprintf("request %d (%s, id %d): its terminal acknowledgement and those of all earlier %s requests have arrived and been processed (the client has answered a later PINGREQ), yet its completion callback has not fired; still unacknowledged are only requests of other kinds or later ones", j, c.Reqs[j].Kind, ids[j], group(c.Reqs[j].Kind))}
			}
		}
	}
	// flush: the library answers a PINGREQ; its PINGRESP proves all earlier acks were processed
	s.srv.SendRaw([]byte{0xC0, 0})
	if _, err := s.srv.Take(func(p *codec.Packet) bool { return p.Type == codec.PINGRESP }, 5*time.Second); err != nil {
		if se := s.srv.StreamErr(); se != nil {
			return c12result{Fail: "the client sent a malformed stream: " + se.Error()}
		}
		return c12result{Incon: "flush round trip failed: " + err.Error()}
	}
	keptMu.Lock()
	for i := range c.Reqs {
		if w := wrong[i]; w != "" {
			keptMu.Unlock()
			return c12result{Fail: fmt.Sprintf("request %d (%s): its completion callback was handed another request's message (%s)", i, c.Reqs[i].Kind, w)}
		}
		if m, ok := kept[i]; ok {
			if now := encOf(m); !bytes.Equal(now, snap[i]) {
				keptMu.Unlock()
				return c12result{Fail: fmt.Sprintf("request %d (%s): the request message its completion callback was handed has changed since (%x, was %x): it refers to memory the library went on using for later requests", i, c.Reqs[i].Kind, clipBytes(now), clipBytes(snap[i]))}
			}
		}
	}
	keptMu.Unlock()
	for i, r := range c.Reqs {
		if early[i].Load() {
			return c12result{Fail: fmt.Sprintf("request %d (%s): the completion callback fired before the terminal acknowledgement was sent", i, r.Kind)}
		}
		if r.NoCb {
			continue
		}
		if r.Unsendable || r.Unencodable {
			if got := fired[i].Load(); got != 0 {
				return c12result{Fail: fmt.Sprintf("request %d (%s) could not be sent (the sending call returned an error, nothing was acknowledged), yet its completion callback fired %d time(s)", i, r.Kind, got)}
			}
			continue
		}
		if got := fired[i].Load(); got != 1 {
			how := "after all acknowledgements had been sent and processed"
			if r.Forced {
				how = "its acknowledgement was processed while the sending call had written the request but not yet registered it"
			}
			for j := 0; j < i; j++ {
				if c.Reqs[j].Unsendable && c.Reqs[j].Kind == r.Kind {
					how += fmt.Sprintf("; request %d of the same kind before it could not be sent and was never acknowledged", j)
					break
				}
			}
			return c12result{Fail: fmt.Sprintf("request %d (%s, id %d): the completion callback fired %d times (%s)", i, r.Kind, ids[i], got, how)}
		}
	}
	if pubrecs != pubrels {
		return c12result{Fail: fmt.Sprintf("%d PUBRECs were sent, %d PUBRELs came back", pubrecs, pubrels)}
	}
	if extra := s.srv.Drain(); len(extra) > 0 {
		return c12result{Fail: fmt.Sprintf("the client sent unexpected extra packets: %v", extra[0].P)}
	}
	s.cl.Disconnect()
	return res
}

func kindGroup(kind string) string {
	if kind == "pub1" || kind == "pub2" {
		return "pub"
	}
	return kind
}

func genC12(t *rapid.T) C12Case {
	var c C12Case
	ping := false
	if rapid.IntRange(0, 5).Draw(t, "bulk") == 0 {
		// more requests of one kind in flight than the ack queue's initial 16 slots, after some completed ones
		kind := rapid.SampledFrom([]string{"pub1", "pub2", "sub", "unsub"}).Draw(t, "bulkkind")
		for i, k := 0, rapid.IntRange(0, 5).Draw(t, "completed-before"); i < k; i++ {
			c.Reqs = append(c.Reqs, Req{Kind: kind, Forced: true})
		}
		for i, k := 0, rapid.IntRange(15, 30).Draw(t, "bulkn"); i < k; i++ {
			c.Reqs = append(c.Reqs, Req{Kind: kind})
		}
		c.AckOrder = rapid.SliceOfN(rapid.IntRange(0, 29), 0, 6).Draw(t, "bulkorder")
		return c
	}
	xInFlight := map[uint16]bool{}
	pendingKind := map[string]bool{}
	for i, n := 0, rapid.IntRange(1, 8).Draw(t, "nreqs"); i < n; i++ {
		k := rapid.SampledFrom([]string{"pub0", "pub1", "pub1", "pub2", "pub2", "sub", "unsub", "ping"}).Draw(t, "kind")
		if k == "ping" {
			if ping {
				k = "pub1"
			}
			ping = true
		}
		r := Req{Kind: k}
		if k != "pub0" {
			r.Forced = rapid.IntRange(0, 3).Draw(t, "forced") == 0
		}
		if k == "pub2" {
			r.DupRec = rapid.IntRange(0, 3).Draw(t, "duprec") == 0
		}
		if k != "pub0" {
			r.CbErr = rapid.IntRange(0, 4).Draw(t, "cberr") == 0
		}
		if k == "sub" && rapid.Bool().Draw(t, "subshape") {
			r.MoreFilters = rapid.IntRange(0, 2).Draw(t, "morefilters")
			r.Refuse = rapid.IntRange(0, 1<<(r.MoreFilters+1)-1).Draw(t, "refuse")
		}
		if k != "ping" && rapid.IntRange(0, 9).Draw(t, "unsendable") == 0 {
			r = Req{Kind: k, Unsendable: true}
		}
		if rapid.IntRange(0, 7).Draw(t, "nocb") == 0 {
			r.NoCb, r.CbErr = true, false
		}
		if (k == "pub1" || k == "pub2") && !r.Unsendable && rapid.IntRange(0, 11).Draw(t, "unencodable") == 0 {
			r = Req{Kind: k, Unencodable: true}
		}
		if k != "pub0" && k != "ping" && !r.Unsendable && !r.Unencodable && rapid.IntRange(0, 2).Draw(t, "explicit") == 0 {
			// an identifier of the application's own; a request still in flight keeps its identifier to itself
			// (a forced request completes at once unless an earlier request of its kind is
			// still waiting for its acknowledgement: completions are handed out in order)
			x := rapid.SampledFrom([]uint16{60001, 60002}).Draw(t, "xid")
			if !xInFlight[x] {
				r.ExplicitID = x
				xInFlight[x] = !r.Forced || pendingKind[kindGroup(k)]
			}
		}
		if !r.Forced && !r.Unsendable && !r.Unencodable && k != "pub0" {
			pendingKind[kindGroup(k)] = true
		}
		c.Reqs = append(c.Reqs, r)
	}
	c.AckOrder = rapid.SliceOfN(rapid.IntRange(0, 7), 0, 8).Draw(t, "ackorder")
	if rapid.IntRange(0, 3).Draw(t, "stale") == 0 {
		c.Stale = rapid.SliceOfN(rapid.SampledFrom([]string{"pub1", "pub2", "sub", "unsub", "pub1x", "pub2x", "subx"}), 1, 3).Draw(t, "stalekinds")
		nx := 0
		for i, k := range c.Stale {
			if k[len(k)-1] == 'x' {
				if nx++; nx > 1 {
					c.Stale[i] = k[:len(k)-1] // one request per application-chosen identifier at a time
				}
			}
		}
		c.StaleSP = rapid.Bool().Draw(t, "stalesp")
	}
	return c
}

func TestC12Client(t *testing.T) {
	rec := ev.New("C12", "client-role")
	defer rec.Flush()
	if rp := ev.LoadReplay(t, "client-role"); rp != nil {
		var c C12Case
		json.Unmarshal(rp.Case, &c)
		for i := 0; i < 5; i++ {
			if r := runC12(c); r.Fail != "" {
				p := rec.Violation("-", "schedule", r.Fail, c, nil)
				rec.Flush()
				t.Fatalf("VIOLATION %s replay=%s", r.Fail, p)
			}
		}
		return
	} else if ev.Replaying() {
		t.Skip()
	}
	rapid.Check(t, func(t *rapid.T) {
		c := genC12(t)
		r := runC12(c)
		if r.Incon != "" {
			rec.Inconclusive()
			rec.Class("inconclusive: "+r.Incon[:minInt(len(r.Incon), 80)], 1)
		}
		nt := false
		for _, cl := range r.Classes {
			if cl == "ack-processed-before-registration" || cl == "acks-out-of-request-order" {
				nt = true
			}
		}
		rec.Case(c, nt, r.Classes...)
		if r.Fail != "" {
			p := rec.Violation("-", "schedule", r.Fail, c, nil)
			t.Fatalf("VIOLATION %s replay=%s", r.Fail, p)
		}
	})
}

func minInt(a, b int) int {
	if a < b {
		return a
	}
	return b
}

var _ = census.GID

func clipBytes(b []byte) []byte {
	if len(b) > 32 {
		return b[:32]
	}
	return b
}
