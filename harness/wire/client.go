// Package wire is the raw MQTT wire client of the harness: it speaks bytes
// built by ref/codec over any net.Conn and parses EVERY received byte with the
// strict stream parser, so "only whole well-formed packets" is checked in
// every broker test. One reader goroutine fills the inbox, one writer
// goroutine owns all writes (the reader never writes, so automatic acks cannot
// deadlock against a synchronous pipe).
package wire

import (
	"errors"
	"fmt"
	"io"
	"net"
	"sync"
	"time"

	"verifharness/ref/codec"
)

// DefaultWait is the generous deadline of every blocking step. Expiry alone
// is never a verdict (the caller takes a goroutine census).
var DefaultWait = 10 * time.Second

// ErrTimeout is returned when a wait expires.
var ErrTimeout = errors.New("wire: timeout")

// ErrClosed is returned when the peer closed the connection.
var ErrClosed = errors.New("wire: connection closed by peer")

// Rx is one received packet with its arrival index.
type Rx struct {
	P   *codec.Packet
	Seq int
	At  time.Time
	// Off is the stream offset of the packet's first byte.
	Off int64
}

type wreq struct {
	b    []byte
	done chan error
}

// Client is one raw connection.
type Client struct {
	Name string
	conn net.Conn

	mu      sync.Mutex
	cond    *sync.Cond
	inbox   []Rx
	nrx     int
	rdErr   error // io.EOF, parse error, ...
	parseEr error
	stalled bool
	closed  bool

	wq    []wreq
	wcond *sync.Cond
	wmu   sync.Mutex
	wstop bool
	wdone chan struct{}
	rdone chan struct{}

	// AutoAck makes the client acknowledge received PUBLISH (QoS 1/2) and
	// PUBREL packets by itself.
	AutoAck bool
	// OnPacket, if set, is called by the reader for every packet (before it
	// is put into the inbox). It must not block. Returning true consumes the
	// packet (it is not stored in the inbox).
	OnPacket func(p *codec.Packet, off int64) bool
	// AutoRel makes the client answer every PUBREC with a PUBREL (sender side
	// of QoS 2 for publishers that do not wait for acks).
	AutoRel bool

	parser  codec.Parser
	RxBytes int64
	TxBytes int64
}

// New wraps a connection and starts the reader and writer goroutines.
func New(name string, conn net.Conn) *Client { return newClient(name, conn, true) }

// NewManual is New without automatic acknowledgements.
func NewManual(name string, conn net.Conn) *Client { return newClient(name, conn, false) }

// NewStalled is New for a client that does not read from the start (Unstall
// makes it read): whatever the peer writes first blocks on a synchronous pipe.
func NewStalled(name string, conn net.Conn) *Client { return newClientOpt(name, conn, true, true) }

func newClient(name string, conn net.Conn, autoAck bool) *Client {
	return newClientOpt(name, conn, autoAck, false)
}

func newClientOpt(name string, conn net.Conn, autoAck, stalled bool) *Client {
	c := &Client{Name: name, conn: conn, AutoAck: autoAck, stalled: stalled, wdone: make(chan struct{}), rdone: make(chan struct{})}
	c.cond = sync.NewCond(&c.mu)
	c.wcond = sync.NewCond(&c.wmu)
	go c.reader()
	go c.writer()
	return c
}

func (c *Client) reader() {
	defer close(c.rdone)
	buf := make([]byte, 64*1024)
	for {
		c.mu.Lock()
		for c.stalled && !c.closed {
			c.cond.Wait()
		}
		if c.closed {
			c.mu.Unlock()
			return
		}
		c.mu.Unlock()
		n, err := c.conn.Read(buf)
		if n > 0 {
			off := c.parser.Consumed
			pkts := c.parser.Feed(buf[:n])
			now := time.Now()
			c.mu.Lock()
			c.RxBytes += int64(n)
			for _, p := range pkts {
				consumed := false
				if c.OnPacket != nil {
					consumed = c.OnPacket(p, off)
				}
				if !consumed {
					c.inbox = append(c.inbox, Rx{P: p, Seq: c.nrx, At: now, Off: off})
				}
				off += int64(len(codec.Encode(p)))
				c.nrx++
				if c.AutoAck {
					c.autoAck(p)
				}
				if c.AutoRel && p.Type == codec.PUBREC {
					c.enqueue(codec.Encode(&codec.Packet{Type: codec.PUBREL, PacketID: p.PacketID}), nil)
				}
			}
			if c.parser.Err != nil && c.parseEr == nil {
				c.parseEr = c.parser.Err
			}
			c.cond.Broadcast()
			c.mu.Unlock()
		}
		if err != nil {
			c.mu.Lock()
			if c.rdErr == nil {
				c.rdErr = err
			}
			c.cond.Broadcast()
			c.mu.Unlock()
			return
		}
	}
}

func (c *Client) autoAck(p *codec.Packet) {
	var a *codec.Packet
	switch {
	case p.Type == codec.PUBLISH && p.QoS == 1:
		a = &codec.Packet{Type: codec.PUBACK, PacketID: p.PacketID}
	case p.Type == codec.PUBLISH && p.QoS == 2:
		a = &codec.Packet{Type: codec.PUBREC, PacketID: p.PacketID}
	case p.Type == codec.PUBREL:
		a = &codec.Packet{Type: codec.PUBCOMP, PacketID: p.PacketID}
	}
	if a != nil {
		c.enqueue(codec.Encode(a), nil)
	}
}

func (c *Client) enqueue(b []byte, done chan error) {
	c.wmu.Lock()
	c.wq = append(c.wq, wreq{b, done})
	c.wcond.Signal()
	c.wmu.Unlock()
}

func (c *Client) writer() {
	defer close(c.wdone)
	for {
		c.wmu.Lock()
		for len(c.wq) == 0 && !c.wstop {
			c.wcond.Wait()
		}
		if len(c.wq) == 0 && c.wstop {
			c.wmu.Unlock()
			return
		}
		r := c.wq[0]
		c.wq = c.wq[1:]
		c.wmu.Unlock()
		_, err := c.conn.Write(r.b)
		if err == nil {
			c.mu.Lock()
			c.TxBytes += int64(len(r.b))
			c.mu.Unlock()
		}
		if r.done != nil {
			r.done <- err
		}
	}
}

// SendRaw writes bytes and waits until the write completed (with net.Pipe:
// until the peer has read them).
func (c *Client) SendRaw(b []byte) error {
	return c.SendRawTimeout(b, DefaultWait)
}

// SendRawTimeout is SendRaw with an explicit deadline.
func (c *Client) SendRawTimeout(b []byte, d time.Duration) error {
	done := make(chan error, 1)
	c.enqueue(b, done)
	select {
	case err := <-done:
		return err
	case <-time.After(d):
		return ErrTimeout
	}
}

// Written returns the number of bytes written to the connection so far.
func (c *Client) Written() int64 {
	c.mu.Lock()
	defer c.mu.Unlock()
	return c.TxBytes
}

// SendAsync queues bytes without waiting.
func (c *Client) SendAsync(b []byte) { c.enqueue(b, nil) }

// Send encodes and writes a packet.
func (c *Client) Send(p *codec.Packet) error { return c.SendRaw(codec.Encode(p)) }

// StreamErr returns the strict parser's error for the received stream, if any.
func (c *Client) StreamErr() error {
	c.mu.Lock()
	defer c.mu.Unlock()
	return c.parseEr
}

// Pending returns the bytes of an incomplete packet at the end of the stream.
func (c *Client) Pending() []byte {
	c.mu.Lock()
	defer c.mu.Unlock()
	return append([]byte(nil), c.parser.Pending()...)
}

// PeerClosed reports whether the peer closed the connection (read error seen).
func (c *Client) PeerClosed() bool {
	c.mu.Lock()
	defer c.mu.Unlock()
	return c.rdErr != nil
}

// WaitFor blocks until pred matches a packet in the inbox (scanning from the
// start), the peer closes, or the deadline expires. On success it removes and
// returns all packets up to and including the match.
func (c *Client) WaitFor(pred func(p *codec.Packet) bool, d time.Duration) ([]Rx, error) {
	deadline := time.Now().Add(d)
	timer := time.AfterFunc(d, func() { c.mu.Lock(); c.cond.Broadcast(); c.mu.Unlock() })
	defer timer.Stop()
	c.mu.Lock()
	defer c.mu.Unlock()
	scanned := 0
	for {
		for ; scanned < len(c.inbox); scanned++ {
			if pred(c.inbox[scanned].P) {
				out := append([]Rx(nil), c.inbox[:scanned+1]...)
				c.inbox = append([]Rx(nil), c.inbox[scanned+1:]...)
				return out, nil
			}
		}
		if c.parseEr != nil {
			return nil, fmt.Errorf("wire: malformed stream from peer: %v", c.parseEr)
		}
		if c.rdErr != nil {
			return nil, ErrClosed
		}
		if !time.Now().Before(deadline) {
			return nil, ErrTimeout
		}
		c.cond.Wait()
	}
}

// Take blocks until pred matches a packet in the inbox and removes and returns
// only that packet; everything else stays in the inbox in order.
func (c *Client) Take(pred func(p *codec.Packet) bool, d time.Duration) (*codec.Packet, error) {
	deadline := time.Now().Add(d)
	timer := time.AfterFunc(d, func() { c.mu.Lock(); c.cond.Broadcast(); c.mu.Unlock() })
	defer timer.Stop()
	c.mu.Lock()
	defer c.mu.Unlock()
	scanned := 0
	for {
		for ; scanned < len(c.inbox); scanned++ {
			if pred(c.inbox[scanned].P) {
				p := c.inbox[scanned].P
				c.inbox = append(append([]Rx(nil), c.inbox[:scanned]...), c.inbox[scanned+1:]...)
				return p, nil
			}
		}
		if c.parseEr != nil {
			return nil, fmt.Errorf("wire: malformed stream from peer: %v", c.parseEr)
		}
		if c.rdErr != nil {
			return nil, ErrClosed
		}
		if !time.Now().Before(deadline) {
			return nil, ErrTimeout
		}
		c.cond.Wait()
	}
}

// Drain removes and returns everything in the inbox.
func (c *Client) Drain() []Rx {
	c.mu.Lock()
	defer c.mu.Unlock()
	out := c.inbox
	c.inbox = nil
	return out
}

// Barrier sends PINGREQ and returns every packet received before the
// PINGRESP (the PINGRESP itself is dropped).
func (c *Client) Barrier() ([]Rx, error) { return c.BarrierTimeout(DefaultWait) }

// BarrierTimeout is Barrier with an explicit deadline.
func (c *Client) BarrierTimeout(d time.Duration) ([]Rx, error) {
	if err := c.SendRawTimeout([]byte{0xC0, 0}, d); err != nil {
		if err == ErrTimeout {
			return nil, err
		}
		return nil, ErrClosed
	}
	got, err := c.WaitFor(func(p *codec.Packet) bool { return p.Type == codec.PINGRESP }, d)
	if err != nil {
		return nil, err
	}
	return got[:len(got)-1], nil
}

// WaitClosed waits until the peer closed the connection.
func (c *Client) WaitClosed(d time.Duration) bool {
	deadline := time.Now().Add(d)
	timer := time.AfterFunc(d, func() { c.mu.Lock(); c.cond.Broadcast(); c.mu.Unlock() })
	defer timer.Stop()
	c.mu.Lock()
	defer c.mu.Unlock()
	for c.rdErr == nil {
		if !time.Now().Before(deadline) {
			return false
		}
		c.cond.Wait()
	}
	return true
}

// Stall makes the client stop reading (the peer's writes block at once on a
// synchronous pipe). Unstall resumes.
func (c *Client) Stall() {
	c.mu.Lock()
	c.stalled = true
	c.mu.Unlock()
}

// StallFromCallback is Stall for use inside OnPacket (which runs with the
// client's lock held): reading stops after the current batch of packets.
func (c *Client) StallFromCallback() { c.stalled = true }

// Unstall resumes reading.
func (c *Client) Unstall() {
	c.mu.Lock()
	c.stalled = false
	c.cond.Broadcast()
	c.mu.Unlock()
}

// Close closes the connection abruptly and stops the goroutines.
func (c *Client) Close() {
	c.mu.Lock()
	already := c.closed
	c.closed = true
	c.cond.Broadcast()
	c.mu.Unlock()
	if already {
		return
	}
	c.conn.Close()
	c.wmu.Lock()
	c.wstop = true
	// fail queued writes
	for _, r := range c.wq {
		if r.done != nil {
			r.done <- io.ErrClosedPipe
		}
	}
	c.wq = nil
	c.wcond.Broadcast()
	c.wmu.Unlock()
}

// Connect sends a CONNECT and waits for the CONNACK (nil, ErrClosed if the
// peer closed instead).
func (c *Client) Connect(p *codec.Packet) (*codec.Packet, error) {
	if err := c.Send(p); err != nil {
		return nil, err
	}
	got, err := c.WaitFor(func(p *codec.Packet) bool { return p.Type == codec.CONNACK }, DefaultWait)
	if err != nil {
		return nil, err
	}
	return got[len(got)-1].P, nil
}

// ConnectPacket builds a plain 3.1.1 CONNECT.
func ConnectPacket(id string, clean bool, keepAlive uint16) *codec.Packet {
	p := &codec.Packet{Type: codec.CONNECT, ProtoName: "MQTT", Level: 4, KeepAlive: keepAlive, ClientID: []byte(id)}
	if clean {
		p.ConnectFlags |= 2
	}
	return p
}
