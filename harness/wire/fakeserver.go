package wire

import (
	"net"
	"time"
)

// FakeServer is a TCP listener on 127.0.0.1 whose accepted connections are
// driven by the test as raw wire clients (the test scripts every answer). All
// bytes the library client sends are parsed by the strict stream parser.
type FakeServer struct {
	ln net.Listener
	// SmallBuffers gives accepted connections a tiny receive buffer, so that a
	// server that stops reading blocks the client's sender after a few KiB.
	SmallBuffers bool
}

// NewFakeServer listens on a free loopback port.
func NewFakeServer() (*FakeServer, error) {
	ln, err := net.Listen("tcp", "127.0.0.1:0")
	if err != nil {
		return nil, err
	}
	return &FakeServer{ln: ln}, nil
}

// URI is the address in the form the library's Client.Connect expects.
func (f *FakeServer) URI() string { return "tcp://" + f.ln.Addr().String() }

// Accept waits for the next connection; the returned client does not
// acknowledge anything by itself.
func (f *FakeServer) Accept(d time.Duration) (*Client, error) {
	type res struct {
		c   net.Conn
		err error
	}
	ch := make(chan res, 1)
	go func() {
		c, err := f.ln.Accept()
		ch <- res{c, err}
	}()
	select {
	case r := <-ch:
		if r.err != nil {
			return nil, r.err
		}
		if f.SmallBuffers {
			if tc, ok := r.c.(*net.TCPConn); ok {
				tc.SetReadBuffer(2048)
			}
		}
		return NewManual("server-side", r.c), nil
	case <-time.After(d):
		return nil, ErrTimeout
	}
}

// Close stops listening.
func (f *FakeServer) Close() { f.ln.Close() }
