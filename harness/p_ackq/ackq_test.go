// C13 — an ack queue is a FIFO of in-flight requests, released only on the
// final ack. Oracle: a list model. Exhaustive small-scope enumeration plus
// long random histories, through sessions.Session's public queues.
package p_ackq

import (
	"bytes"
	"encoding/json"
	"fmt"
	"testing"

	"github.com/mdzio/go-mqtt/message"
	"github.com/mdzio/go-mqtt/sessions"
	"pgregory.net/rapid"
	"verifharness/ev"
)

// ---- roles ---------------------------------------------------------------

type role struct {
	Name  string
	req   message.Type
	steps []message.Type // protocol-legal ack sequence; last is terminal
}

var roles = []role{
	{"Pub1ack", message.PUBLISH, []message.Type{message.PUBACK}},
	{"Pub2out", message.PUBLISH, []message.Type{message.PUBREC, message.PUBCOMP}},
	{"Pub2in", message.PUBLISH, []message.Type{message.PUBREL}},
	{"Suback", message.SUBSCRIBE, []message.Type{message.SUBACK}},
	{"Unsuback", message.UNSUBSCRIBE, []message.Type{message.UNSUBACK}},
}

func roleByName(n string) (role, bool) {
	for _, r := range roles {
		if r.Name == n {
			return r, true
		}
	}
	return role{}, false
}

func queueOf(s *sessions.Session, name string) *sessions.Ackqueue {
	switch name {
	case "Pub1ack":
		return s.Pub1ack
	case "Pub2out":
		return s.Pub2out
	case "Pub2in":
		return s.Pub2in
	case "Suback":
		return s.Suback
	case "Unsuback":
		return s.Unsuback
	case "Pingack":
		return s.Pingack
	}
	return nil
}

func newSession() (*sessions.Session, error) {
	cm := message.NewConnectMessage()
	cm.SetVersion(4)
	cm.SetCleanSession(true)
	cm.SetClientID([]byte("c13"))
	s := &sessions.Session{}
	return s, s.Init(cm)
}

// ---- raw packet builders (independent of the library's encoder) ----------

func varint(n int) []byte {
	var b []byte
	for {
		d := byte(n % 128)
		n /= 128
		if n > 0 {
			d |= 0x80
		}
		b = append(b, d)
		if n == 0 {
			return b
		}
	}
}

func lp(s []byte) []byte { return append([]byte{byte(len(s) >> 8), byte(len(s))}, s...) }

func pkt(first byte, body []byte) []byte {
	return append(append([]byte{first}, varint(len(body))...), body...)
}

// request bytes for (role, id, serial): content depends on serial so that
// two requests with the same id are distinguishable.
func reqFields(r role, id uint16, serial int) (topic, payload []byte, qos byte) {
	topic = []byte(fmt.Sprintf("t/%d/%d", id, serial))
	payload = []byte(fmt.Sprintf("payload-%d-%d-%s", id, serial, string(bytes.Repeat([]byte{'x'}, serial%37))))
	qos = 1
	if r.Name != "Pub1ack" {
		qos = 2
	}
	return
}

func reqBytes(r role, id uint16, serial int) []byte {
	topic, payload, qos := reqFields(r, id, serial)
	pid := []byte{byte(id >> 8), byte(id)}
	switch r.req {
	case message.PUBLISH:
		body := append(append(lp(topic), pid...), payload...)
		return pkt(0x30|qos<<1, body)
	case message.SUBSCRIBE:
		body := append(append(append([]byte{}, pid...), lp(topic)...), byte(serial%3))
		return pkt(0x82, body)
	case message.UNSUBSCRIBE:
		body := append(append([]byte{}, pid...), lp(topic)...)
		return pkt(0xA2, body)
	}
	panic("role")
}

// ackBytes: the acknowledgement's length depends on serial too (a SUBACK has
// 1-4 return codes, the others sometimes a remaining length with a padding
// byte, which the decoders accept), so that a repeated acknowledgement of one
// request can be shorter or longer than the one before.
func ackBytes(t message.Type, id uint16, serial int) []byte {
	pid := []byte{byte(id >> 8), byte(id)}
	first := byte(t) << 4
	switch t {
	case message.PUBREL:
		first = 0x62
	case message.SUBACK:
		body := append([]byte{}, pid...)
		for i := 0; i <= serial%4; i++ {
			body = append(body, byte((serial+i)%3))
		}
		return pkt(0x90, body)
	}
	if serial%5 == 0 {
		return append([]byte{first, 0x82, 0x00}, pid...) // remaining length 2 in two bytes
	}
	return pkt(first, pid)
}

// buildReq makes the library message. viaSetters selects the API path; the
// other path decodes from a private buffer that is scribbled on afterwards.
func buildReq(r role, id uint16, serial int, viaSetters bool) (message.Message, []byte, func(), error) {
	want := reqBytes(r, id, serial)
	if !viaSetters {
		m, _ := r.req.New()
		buf := append([]byte(nil), want...)
		if _, err := m.Decode(buf); err != nil {
			return nil, nil, nil, fmt.Errorf("decode of request failed: %v", err)
		}
		return m, want, func() {
			for i := range buf {
				buf[i] = 0xEE
			}
		}, nil
	}
	topic, payload, qos := reqFields(r, id, serial)
	tb := append([]byte(nil), topic...)
	pb := append([]byte(nil), payload...)
	scribble := func() {
		for i := range tb {
			tb[i] = 'Z'
		}
		for i := range pb {
			pb[i] = 'Z'
		}
	}
	switch r.req {
	case message.PUBLISH:
		m := message.NewPublishMessage()
		m.SetQoS(qos)
		m.SetTopic(tb)
		m.SetPayload(pb)
		m.SetPacketID(id)
		return m, want, scribble, nil
	case message.SUBSCRIBE:
		m := message.NewSubscribeMessage()
		m.AddTopic(tb, byte(serial%3))
		m.SetPacketID(id)
		return m, want, scribble, nil
	default:
		m := message.NewUnsubscribeMessage()
		m.AddTopic(tb)
		m.SetPacketID(id)
		return m, want, scribble, nil
	}
}

func buildAck(t message.Type, id uint16, serial int) (message.Message, []byte, func(), error) {
	want := ackBytes(t, id, serial)
	m, _ := t.New()
	buf := append([]byte(nil), want...)
	if _, err := m.Decode(buf); err != nil {
		return nil, nil, nil, fmt.Errorf("decode of ack failed: %v", err)
	}
	return m, want, func() {
		for i := range buf {
			buf[i] = 0xEE
		}
	}, nil
}

// ---- model ---------------------------------------------------------------

type entry struct {
	id    uint16
	req   []byte
	step  int // number of protocol steps acknowledged
	ack   []byte
	state message.Type
	tag   int
}

type model struct {
	r        role
	list     []*entry
	returned map[int]bool // tags handed back so far
	// capacity model for the "grow while head != 0" class
	capacity, head int
	grewWrapped    bool
	hol            bool
	refused        bool // a registration was refused (request that cannot be encoded)
}

func (m *model) find(id uint16) *entry {
	for _, e := range m.list {
		if e.id == id {
			return e
		}
	}
	return nil
}

// unusedID returns an identifier no queued entry carries, starting the search
// at from (an "unknown id" acknowledgement must really be unknown: generated
// identifiers cover the whole range).
func (m *model) unusedID(from uint16) uint16 {
	for m.find(from) != nil || from == 0 {
		from++
	}
	return from
}

func (m *model) terminal(e *entry) bool { return e.step == len(m.r.steps) }

// Op is one operation of a history (JSON form is the replay format).
type Op struct {
	K  string `json:"k"`  // wait | badwait | ack | dup | unknown | acked
	ID uint16 `json:"id"` // identifier (wait/ack/dup)
}

type Case struct {
	Role string `json:"role"`
	Ops  []Op   `json:"ops"`
}

type cbTag struct{ n int }

// run executes a case against a fresh session and the model.
// It returns a failure description ("" = held), and the class flags.
func run(c Case) (fail string, hol, grewWrapped bool) {
	r, ok := roleByName(c.Role)
	if !ok {
		return "unknown role " + c.Role, false, false
	}
	s, err := newSession()
	if err != nil {
		return "session init: " + err.Error(), false, false
	}
	q := queueOf(s, c.Role)
	m := &model{r: r, returned: map[int]bool{}, capacity: 16}
	serial := 0
	tags := map[int]*cbTag{}

	// what was handed back is kept by the caller (the service decodes the request from
	// Msgbuf and gives the message, which refers to these bytes, to the completion
	// callback): the copies must stay what they were, whatever the queue does next
	type kept struct {
		id         uint16
		msg, ack   []byte // the slices handed back (not copies)
		wmsg, wack []byte
	}
	var keep []kept
	checkKept := func(where string) string {
		for _, k := range keep {
			if !bytes.Equal(k.msg, k.wmsg) {
				return fmt.Sprintf("%s: the request bytes handed back earlier for id %d have changed since (%x, were %x): the queue reused the buffer it had handed out", where, k.id, clipb(k.msg), clipb(k.wmsg))
			}
			if !bytes.Equal(k.ack, k.wack) {
				return fmt.Sprintf("%s: the acknowledgement bytes handed back earlier for id %d have changed since (%x, were %x): the queue reused the buffer it had handed out", where, k.id, clipb(k.ack), clipb(k.wack))
			}
		}
		return ""
	}
	checkAcked := func(where string) string {
		if f := checkKept(where); f != "" {
			return f
		}
		got := q.Acked()
		var want []*entry
		for len(m.list) > 0 && m.terminal(m.list[0]) {
			want = append(want, m.list[0])
			m.list = m.list[1:]
			m.head = (m.head + 1) % m.capacity
		}
		if len(got) != len(want) {
			return fmt.Sprintf("%s: Acked returned %d entries, model expects %d", where, len(got), len(want))
		}
		for i, g := range got {
			w := want[i]
			if g.Pktid != w.id {
				return fmt.Sprintf("%s: Acked[%d] has id %d, model expects %d", where, i, g.Pktid, w.id)
			}
			if m.returned[w.tag] {
				return fmt.Sprintf("%s: entry id %d handed back twice", where, w.id)
			}
			m.returned[w.tag] = true
			if g.Mtype != r.req {
				return fmt.Sprintf("%s: Acked[%d] Mtype %v, want %v", where, i, g.Mtype, r.req)
			}
			if g.State != w.state {
				return fmt.Sprintf("%s: Acked[%d] State %v, want %v", where, i, g.State, w.state)
			}
			if !bytes.Equal(g.Msgbuf, w.req) {
				return fmt.Sprintf("%s: Acked[%d] (id %d) Msgbuf %x differs from the original request %x", where, i, w.id, g.Msgbuf, w.req)
			}
			if !bytes.Equal(g.Ackbuf, w.ack) {
				return fmt.Sprintf("%s: Acked[%d] (id %d) Ackbuf %x differs from the final ack %x", where, i, w.id, g.Ackbuf, w.ack)
			}
			if tg, _ := g.OnComplete.(*cbTag); tg != tags[w.tag] {
				return fmt.Sprintf("%s: Acked[%d] (id %d) carries another request's completion callback", where, i, w.id)
			}
			keep = append(keep, kept{w.id, g.Msgbuf, g.Ackbuf, w.req, w.ack})
			if len(keep) > 40 {
				keep = keep[len(keep)-40:]
			}
		}
		return ""
	}

	sendAck := func(e *entry, t message.Type) string {
		serial++
		am, want, scribble, err := buildAck(t, e.id, serial)
		if err != nil {
			return err.Error()
		}
		if err := q.Ack(am); err != nil {
			return "Ack returned error: " + err.Error()
		}
		scribble()
		e.ack, e.state = want, t
		return ""
	}

	for i, op := range c.Ops {
		where := fmt.Sprintf("op %d (%s %d)", i, op.K, op.ID)
		switch op.K {
		case "wait":
			serial++
			msg, want, scribble, err := buildReq(r, op.ID, serial, serial%2 == 0)
			if err != nil {
				return where + ": " + err.Error(), m.hol, m.grewWrapped
			}
			tg := &cbTag{serial}
			if pm, isPub := msg.(*message.PublishMessage); isPub && m.find(op.ID) != nil && serial%3 != 0 {
				// a retransmission of a request that is still in flight (DUP set) changes
				// nothing: the entry keeps its bytes, its callback and the state its
				// acknowledgements gave it
				pm.SetDup(true)
			}
			if err := q.Wait(msg, tg); err != nil {
				return where + ": Wait returned error: " + err.Error(), m.hol, m.grewWrapped
			}
			scribble()
			if m.find(op.ID) == nil {
				if len(m.list) == m.capacity {
					if m.head != 0 {
						m.grewWrapped = true
					}
					m.capacity *= 2
					m.head = 0
				}
				tags[serial] = tg
				m.list = append(m.list, &entry{id: op.ID, req: want, tag: serial, state: message.RESERVED})
			}
		case "badwait":
			// a request that cannot be encoded (no topic) is refused; whatever Wait
			// returns, the queue is as it was: the identifier is not in use
			// afterwards, and registering it later works
			if m.find(op.ID) != nil {
				break
			}
			var bad message.Message
			switch r.req {
			case message.PUBLISH:
				pm := message.NewPublishMessage()
				pm.SetQoS(1)
				if r.Name != "Pub1ack" {
					pm.SetQoS(2)
				}
				pm.SetPacketID(op.ID)
				bad = pm
			case message.SUBSCRIBE:
				sm := message.NewSubscribeMessage()
				sm.SetPacketID(op.ID)
				bad = sm
			default:
				um := message.NewUnsubscribeMessage()
				um.SetPacketID(op.ID)
				bad = um
			}
			if buf := make([]byte, 64); func() error { _, err := bad.Encode(buf); return err }() == nil {
				break // the library can encode it after all: nothing to refuse
			}
			q.Wait(bad, &cbTag{-1})
			m.refused = true
		case "ack":
			e := m.find(op.ID)
			if e == nil { // unknown id: must change nothing
				serial++
				am, _, _, _ := buildAck(r.steps[0], op.ID, serial)
				q.Ack(am)
				break
			}
			t := r.steps[len(r.steps)-1]
			if e.step < len(r.steps) {
				t = r.steps[e.step]
				e.step++
			}
			if f := sendAck(e, t); f != "" {
				return where + ": " + f, m.hol, m.grewWrapped
			}
		case "dup":
			e := m.find(op.ID)
			if e == nil || e.step == 0 {
				serial++
				am, _, _, _ := buildAck(r.steps[0], m.unusedID(9999), serial)
				q.Ack(am)
				break
			}
			if f := sendAck(e, r.steps[e.step-1]); f != "" {
				return where + ": " + f, m.hol, m.grewWrapped
			}
		case "unknown":
			serial++
			am, _, _, _ := buildAck(r.steps[len(r.steps)-1], m.unusedID(60000), serial)
			q.Ack(am)
		case "acked":
			if f := checkAcked(where); f != "" {
				return f, m.hol, m.grewWrapped
			}
		}
		// head-of-line class: some terminal entry behind a non-terminal one
		seenOpen := false
		for _, e := range m.list {
			if !m.terminal(e) {
				seenOpen = true
			} else if seenOpen {
				m.hol = true
			}
		}
	}
	// final drain: what is terminal now comes back, the rest stays and comes
	// back in order once acknowledged.
	if f := checkAcked("final collect"); f != "" {
		return f, m.hol, m.grewWrapped
	}
	for len(m.list) > 0 {
		e := m.list[0]
		for e.step < len(r.steps) {
			t := r.steps[e.step]
			e.step++
			if f := sendAck(e, t); f != "" {
				return "drain: " + f, m.hol, m.grewWrapped
			}
		}
		before := len(m.list)
		if f := checkAcked(fmt.Sprintf("drain of id %d", e.id)); f != "" {
			return f, m.hol, m.grewWrapped
		}
		if len(m.list) >= before {
			return "drain: model did not progress", m.hol, m.grewWrapped
		}
	}
	if got := q.Acked(); len(got) != 0 {
		return fmt.Sprintf("empty queue returned %d entries", len(got)), m.hol, m.grewWrapped
	}
	if f := checkKept("end of the history"); f != "" {
		return f, m.hol, m.grewWrapped
	}
	return "", m.hol, m.grewWrapped
}

func clipb(b []byte) []byte {
	if len(b) > 24 {
		return b[:24]
	}
	return b
}

// ---- ping slot -------------------------------------------------------------

type PingCase struct {
	Ops []string `json:"ops"` // wait | ack | acked
}

func runPing(c PingCase) string {
	s, err := newSession()
	if err != nil {
		return err.Error()
	}
	q := s.Pingack
	outstanding := false // request registered and not yet collected
	acked := false
	var tag *cbTag
	n := 0
	for i, op := range c.Ops {
		where := fmt.Sprintf("op %d (%s)", i, op)
		switch op {
		case "wait":
			if outstanding { // domain: at most one ping outstanding
				continue
			}
			n++
			tag = &cbTag{n}
			if err := q.Wait(message.NewPingreqMessage(), tag); err != nil {
				return where + ": " + err.Error()
			}
			outstanding, acked = true, false
		case "ack":
			if err := q.Ack(message.NewPingrespMessage()); err != nil {
				return where + ": " + err.Error()
			}
			if outstanding {
				acked = true
			}
		case "acked":
			got := q.Acked()
			want := 0
			if outstanding && acked {
				want = 1
			}
			if len(got) != want {
				return fmt.Sprintf("%s: Acked returned %d entries, model expects %d", where, len(got), want)
			}
			if want == 1 {
				g := got[0]
				if g.Mtype != message.PINGREQ || g.State != message.PINGRESP {
					return fmt.Sprintf("%s: wrong types %v/%v", where, g.Mtype, g.State)
				}
				if !bytes.Equal(g.Msgbuf, []byte{0xC0, 0}) || !bytes.Equal(g.Ackbuf, []byte{0xD0, 0}) {
					return fmt.Sprintf("%s: wrong bytes %x / %x", where, g.Msgbuf, g.Ackbuf)
				}
				if tg, _ := g.OnComplete.(*cbTag); tg != tag {
					return where + ": wrong completion callback"
				}
				outstanding, acked = false, false
			}
		}
	}
	return ""
}

// ---- exhaustive enumeration --------------------------------------------------

var alphabet = func() []Op {
	var a []Op
	for _, k := range []string{"wait", "ack", "dup"} {
		for id := uint16(1); id <= 3; id++ {
			a = append(a, Op{k, id})
		}
	}
	return append(a, Op{K: "unknown"}, Op{K: "acked"})
}()

func fail(t testing.TB, rec *ev.Rec, kind string, c interface{}, msg string) {
	p := rec.Violation("-", kind, msg, c, nil)
	rec.Flush()
	t.Fatalf("VIOLATION %s replay=%s", msg, p)
}

func TestExhaustive(t *testing.T) {
	rec := ev.New("C13", "exhaustive")
	defer rec.Flush()
	e := ev.GetEnv()
	if rp := ev.LoadReplay(t, "exhaustive"); rp != nil {
		var c Case
		json.Unmarshal(rp.Case, &c)
		if f, _, _ := run(c); f != "" {
			fail(t, rec, "history", c, f)
		}
		return
	} else if ev.Replaying() {
		t.Skip()
	}
	depth := ev.Pick(5, 7)
	na := len(alphabet)
	total := 1
	for i := 0; i < depth; i++ {
		total *= na
	}
	ops := make([]Op, depth)
	var n, nt int64
	for _, r := range roles {
		for idx := e.Shard; idx < total; idx += e.Shards {
			x := idx
			for i := 0; i < depth; i++ {
				ops[i] = alphabet[x%na]
				x /= na
			}
			c := Case{Role: r.Name, Ops: ops}
			f, hol, _ := run(c)
			if f != "" {
				cc := Case{Role: r.Name, Ops: append([]Op(nil), ops...)}
				fail(t, rec, "history", shrinkCase(cc), f)
			}
			n++
			if hol {
				nt++
				if nt%200000 == 1 {
					rec.Sample(Case{Role: r.Name, Ops: append([]Op(nil), ops...)})
				}
			}
		}
	}
	rec.Count(n, nt, "exhaustive-sequences")
	rec.Class("head-of-line", nt)
	rec.Exhaustive(true)
	rec.Set("exhaustive_space", fmt.Sprintf("all %d^%d op sequences over ids {1,2,3} (ops: wait/ack/dup per id, ack of unknown id, collect) for each of %d id-keyed queue roles, model compared at every collect and at a final drain; partitioned over shards by index", na, depth, len(roles)))

	// ping slot: all sequences over its 3-op alphabet
	pd := ev.Pick(9, 11)
	pt := 1
	for i := 0; i < pd; i++ {
		pt *= 3
	}
	names := []string{"wait", "ack", "acked"}
	pops := make([]string, pd)
	var pn, pnt int64
	for idx := e.Shard; idx < pt; idx += e.Shards {
		x := idx
		nw := 0
		for i := 0; i < pd; i++ {
			pops[i] = names[x%3]
			if x%3 == 0 {
				nw++
			}
			x /= 3
		}
		if f := runPing(PingCase{pops}); f != "" {
			fail(t, rec, "history", PingCase{append([]string(nil), pops...)}, "ping slot: "+f)
		}
		pn++
		if nw >= 2 {
			pnt++
		}
	}
	rec.Count(pn, pnt, "ping-sequences")
}

// shrinkCase greedily removes ops while the case keeps failing (the
// enumeration is not run under rapid, so it shrinks its own failures).
func shrinkCase(c Case) Case {
	for changed := true; changed; {
		changed = false
		for i := 0; i < len(c.Ops); i++ {
			d := Case{Role: c.Role, Ops: append(append([]Op(nil), c.Ops[:i]...), c.Ops[i+1:]...)}
			if f, _, _ := run(d); f != "" {
				c, changed = d, true
				break
			}
		}
	}
	return c
}

// ---- random long histories ------------------------------------------------------

func genCase(t *rapid.T) Case {
	r := rapid.SampledFrom(roles).Draw(t, "role")
	nseg := rapid.IntRange(2, 14).Draw(t, "nseg")
	big := rapid.IntRange(0, 3).Draw(t, "big") == 0
	var ops []Op
	type gent struct {
		id   uint16
		step int
	}
	var inflight []*gent // generator-side mirror of the queue, to aim ops
	collect := func() {
		for len(inflight) > 0 && inflight[0].step >= len(r.steps) {
			inflight = inflight[1:]
		}
	}
	next := uint16(rapid.IntRange(1, 65000).Draw(t, "firstid"))
	var free []uint16
	for s := 0; s < nseg; s++ {
		maxw := 24
		if big {
			maxw = 260
		}
		nw := rapid.IntRange(0, maxw).Draw(t, "waits")
		for i := 0; i < nw && len(inflight) < 640; i++ {
			var id uint16
			if len(free) > 0 && rapid.IntRange(0, 2).Draw(t, "reuse") == 0 {
				id, free = free[0], free[1:]
			} else {
				next++
				if next == 0 {
					next = 1
				}
				id = next
			}
			if rapid.IntRange(0, 30).Draw(t, "dupwait") == 0 && len(inflight) > 0 {
				id = inflight[rapid.IntRange(0, len(inflight)-1).Draw(t, "dw")].id
			}
			if rapid.IntRange(0, 25).Draw(t, "badwait") == 0 {
				// a refused registration of this identifier first, sometimes acknowledged in vain
				ops = append(ops, Op{"badwait", id})
				if rapid.Bool().Draw(t, "ack-refused") {
					ops = append(ops, Op{"ack", id})
				}
			}
			ops = append(ops, Op{"wait", id})
			found := false
			for _, x := range inflight {
				if x.id == id {
					found = true
				}
			}
			if !found {
				inflight = append(inflight, &gent{id: id})
			}
		}
		na := rapid.IntRange(0, len(inflight)*len(r.steps)+2).Draw(t, "acks")
		mode := rapid.IntRange(0, 3).Draw(t, "mode") // 0 fifo, 1 lifo, 2/3 random
		for i := 0; i < na && len(inflight) > 0; i++ {
			var j int
			switch mode {
			case 0:
				j = i % len(inflight)
			case 1:
				j = len(inflight) - 1 - i%len(inflight)
			default:
				j = rapid.IntRange(0, len(inflight)-1).Draw(t, "j")
			}
			k := "ack"
			if rapid.IntRange(0, 9).Draw(t, "dup") == 0 {
				k = "dup"
			} else {
				inflight[j].step++
			}
			ops = append(ops, Op{k, inflight[j].id})
			if rapid.IntRange(0, 25).Draw(t, "unk") == 0 {
				ops = append(ops, Op{K: "unknown"})
			}
			if rapid.IntRange(0, 12).Draw(t, "mid") == 0 {
				ops = append(ops, Op{K: "acked"})
				for len(inflight) > 0 && inflight[0].step >= len(r.steps) {
					free = append(free, inflight[0].id)
					inflight = inflight[1:]
				}
			}
		}
		if rapid.IntRange(0, 2).Draw(t, "collect") > 0 {
			ops = append(ops, Op{K: "acked"})
			for len(inflight) > 0 && inflight[0].step >= len(r.steps) {
				free = append(free, inflight[0].id)
				inflight = inflight[1:]
			}
		}
	}
	_ = collect
	return Case{Role: r.Name, Ops: ops}
}

func TestRandom(t *testing.T) {
	rec := ev.New("C13", "random")
	defer rec.Flush()
	if rp := ev.LoadReplay(t, "random"); rp != nil {
		var c Case
		json.Unmarshal(rp.Case, &c)
		if f, _, _ := run(c); f != "" {
			fail(t, rec, "history", c, f)
		}
		return
	} else if ev.Replaying() {
		t.Skip()
	}
	rapid.Check(t, func(t *rapid.T) {
		c := genCase(t)
		f, hol, gw := run(c)
		var cls []string
		if hol {
			cls = append(cls, "head-of-line")
		}
		if gw {
			cls = append(cls, "grew-while-wrapped")
		}
		if len(c.Ops) >= 200 {
			cls = append(cls, "ops>=200")
		}
		rec.Case(c, hol || gw, cls...)
		if f != "" {
			p := rec.Violation("-", "history", f, c, nil)
			t.Fatalf("VIOLATION %s replay=%s", f, p)
		}
	})
}
