// C14 / C15 — the byte ring between socket and protocol engine.
//
// One interpreter runs generated producer/consumer(/closer) programs against a
// real ring (service.VerifNewBuffer) in two modes: free-running (Go scheduler)
// and controlled (the harness owns the schedule at the ring's yield points and
// between operations). Safety oracle (C14): every byte the consumer obtains is
// the byte of a position-dependent stream at the consumer's offset. Liveness
// oracle (C15): at global quiescence no operation may be blocked unless the
// cursor model says it legitimately waits for data/space and no Close started.
package p_ring

import (
	"bytes"
	"encoding/json"
	"errors"
	"fmt"
	"io"
	"runtime"
	"sync"
	"sync/atomic"
	"testing"
	"time"

	"github.com/mdzio/go-mqtt/service"
	"pgregory.net/rapid"
	"verifharness/census"
	"verifharness/ev"
)

// ---- case ----------------------------------------------------------------

type ROp struct {
	K      string `json:"k"`
	N      int    `json:"n,omitempty"`
	M      int    `json:"m,omitempty"`
	L      int    `json:"l,omitempty"` // wait: ReadWait(L) first, then ReadWait(N) at the same position (a header is looked at before the whole packet is waited for)
	Chunks []int  `json:"chunks,omitempty"`
}

type RCase struct {
	Mode   string   `json:"mode"` // free | ctl
	Size   int      `json:"size"`
	Pre    [][2]int `json:"pre,omitempty"` // sequential (write, read) pairs positioning the cursors
	Prod   []ROp    `json:"prod"`
	Cons   []ROp    `json:"cons"`   // templates, cycled until everything is consumed
	Tail   []ROp    `json:"tail"`   // consumer ops executed after the cycle (close / later calls)
	Closer int      `json:"closer"` // Close calls by a third goroutine
	Sched  []byte   `json:"sched,omitempty"`
	// Choices, when set, replaces Sched: the i-th scheduling decision releases
	// parked[Choices[i]] (parked in actor order producer, consumer, closer;
	// 0 once the list is used up). Used by the exhaustive enumeration.
	Choices []int `json:"choices,omitempty"`
}

func streamFill(dst []byte, pos int64) {
	for i := range dst {
		p := pos + int64(i)
		dst[i] = byte(p*31 + (p>>8)*17 + (p >> 16) + 7)
	}
}

// ---- run state -----------------------------------------------------------

type opInfo struct {
	side byte // 'p' producer, 'c' consumer, 'x' closer
	kind string
	n    int64
}

type actor struct {
	name   string
	gid    int64
	at     string // yield point the actor is parked at ("" = not parked)
	resume chan struct{}
	done   bool
	cur    opInfo
	inOp   bool
}

type run struct {
	c     RCase
	ctl   bool
	bf    *service.VerifBuffer
	size  int64
	total int64 // bytes the producer commits if nobody closes

	produced, consumed atomic.Int64
	closeStarted       atomic.Bool
	consumerGaveUp     atomic.Bool
	freeRun            atomic.Bool // controlled prefix is over: yields no longer park

	mu       sync.Mutex
	safety   []string
	cls      map[string]bool
	actors   []*actor
	byGID    map[int64]*actor
	notify   chan struct{}
	steps    int
	trace    []string
	liveness string
	branch   []int // number of parked actors at each scheduling decision
}

func (r *run) failSafety(format string, a ...interface{}) {
	r.mu.Lock()
	if len(r.safety) < 5 {
		r.safety = append(r.safety, fmt.Sprintf(format, a...))
	}
	r.mu.Unlock()
}

func (r *run) class(c string) {
	r.mu.Lock()
	r.cls[c] = true
	r.mu.Unlock()
}

// pause is the harness-level yield between operations (controlled mode only).
func (r *run) pause(a *actor, point string) {
	if r.ctl {
		r.park(a, point)
	}
}

func (r *run) park(a *actor, point string) {
	if r.freeRun.Load() {
		return
	}
	r.mu.Lock()
	a.at = point
	r.mu.Unlock()
	select {
	case r.notify <- struct{}{}:
	default:
	}
	<-a.resume
	r.mu.Lock()
	a.at = ""
	r.mu.Unlock()
}

func (r *run) begin(a *actor, side byte, kind string, n int) {
	r.mu.Lock()
	a.cur, a.inOp = opInfo{side, kind, int64(n)}, true
	r.mu.Unlock()
}

func (r *run) end(a *actor) {
	r.mu.Lock()
	a.inOp = false
	r.mu.Unlock()
}

func (r *run) checkCursors(where string) {
	pp, cp, sz := r.bf.VerifCursors() // producer position is read first
	if pp-cp > sz {
		r.failSafety("%s: producer position %d is more than the ring size ahead of consumer position %d (unread bytes overwritten)", where, pp, cp)
	}
}

var errStop = errors.New("harness: writer has everything")

// ---- producer --------------------------------------------------------------

func (r *run) producer(a *actor) {
	var scratch []byte
	eof := false
	for i, op := range r.c.Prod {
		r.pause(a, "between-ops")
		where := fmt.Sprintf("producer op %d (%s %d %d)", i, op.K, op.N, op.M)
		switch op.K {
		case "write":
			if cap(scratch) < op.N {
				scratch = make([]byte, op.N)
			}
			p := scratch[:op.N]
			pos := r.produced.Load()
			streamFill(p, pos)
			if r.size-(pos-r.consumed.Load()) < int64(op.N) {
				r.class("producer-had-to-wait")
			}
			r.begin(a, 'p', "write", op.N)
			n, err := r.bf.Write(p)
			r.end(a)
			if err == io.EOF {
				eof = true
				continue
			}
			if err != nil || n != op.N {
				r.failSafety("%s: Write returned (%d, %v)", where, n, err)
				continue
			}
			if eof && !r.closeStarted.Load() {
				r.failSafety("%s: succeeded after an end-of-stream without Close", where)
			}
			r.produced.Add(int64(n))
			r.checkCursors(where)
		case "reserve":
			remaining := op.M
			for remaining > 0 {
				want := op.N
				if want > remaining {
					want = remaining
				}
				pos := r.produced.Load()
				if r.size-(pos-r.consumed.Load()) < int64(want) {
					r.class("producer-had-to-wait")
				}
				r.begin(a, 'p', "reserve", want)
				s, wrap, err := r.bf.WriteWait(want)
				r.end(a)
				if err == io.EOF {
					eof = true
					break
				}
				if err != nil || len(s) == 0 || len(s) > want || (!wrap && len(s) != want) {
					r.failSafety("%s: WriteWait(%d) returned (len %d, wrap %v, %v)", where, want, len(s), wrap, err)
					break
				}
				if wrap {
					r.class("reserve-hit-ring-end")
				}
				k := len(s)
				streamFill(s[:k], pos)
				r.pause(a, "reserved-not-committed")
				r.begin(a, 'p', "commit", k)
				n, err := r.bf.WriteCommit(k)
				r.end(a)
				if err == io.EOF {
					eof = true
					break
				}
				if err != nil || n != k {
					r.failSafety("%s: WriteCommit(%d) returned (%d, %v)", where, k, n, err)
					break
				}
				r.produced.Add(int64(k))
				remaining -= k
				r.checkCursors(where)
			}
		case "readfrom":
			rd := &chunkReader{r: r, a: a, chunks: op.Chunks}
			r.begin(a, 'p', "readfrom", 8192)
			n, err := r.bf.ReadFrom(rd)
			r.closeStarted.Store(true)
			r.end(a)
			_ = n
			if err != io.EOF && err != nil {
				r.failSafety("%s: ReadFrom returned error %v", where, err)
			}
			r.class("readfrom")
		case "close":
			r.doClose(a)
		}
	}
}

type chunkReader struct {
	r      *run
	a      *actor
	chunks []int
	i      int
}

func (cr *chunkReader) Read(p []byte) (int, error) {
	if cr.i >= len(cr.chunks) {
		return 0, io.EOF
	}
	n := cr.chunks[cr.i]
	cr.i++
	if n > len(p) {
		n = len(p)
	}
	// the previous chunk is committed by now (ReadFrom commits before reading again)
	pos := cr.r.bf_ppos()
	streamFill(p[:n], pos)
	cr.r.produced.Store(pos + int64(n)) // harness count runs ahead by one chunk; only used for clipping
	cr.r.inHarness(cr.a, func() { cr.r.pause(cr.a, "reader-chunk") })
	return n, nil
}

func (r *run) bf_ppos() int64 { pp, _, _ := r.bf.VerifCursors(); return pp }

// inHarness marks the actor as being outside the ring while f runs.
func (r *run) inHarness(a *actor, f func()) {
	r.mu.Lock()
	was := a.inOp
	a.inOp = false
	r.mu.Unlock()
	f()
	r.mu.Lock()
	a.inOp = was
	r.mu.Unlock()
}

func (r *run) doClose(a *actor) {
	r.closeStarted.Store(true)
	r.begin(a, 'x', "close", 0)
	err := r.bf.Close()
	r.end(a)
	if err != nil {
		r.failSafety("Close returned %v", err)
	}
}

// ---- consumer --------------------------------------------------------------

func (r *run) verify(where string, got []byte, pos int64) bool {
	want := make([]byte, len(got))
	streamFill(want, pos)
	if !bytes.Equal(got, want) {
		i := 0
		for i < len(got) && got[i] == want[i] {
			i++
		}
		r.failSafety("%s: %d bytes obtained at stream offset %d differ from what the producer committed there (first difference at +%d: got %#x want %#x)", where, len(got), pos, i, got[i], want[i])
		return false
	}
	return true
}

func (r *run) consumer(a *actor) {
	var scratch []byte
	i := 0
	exec := func(op ROp, clip bool) (stop bool) {
		r.pause(a, "between-ops")
		pos := r.consumed.Load()
		remaining := r.total - pos
		n := op.N
		if clip && int64(n) > remaining {
			n = int(remaining)
		}
		where := fmt.Sprintf("consumer op %d (%s %d %d) at offset %d", i, op.K, n, op.M, pos)
		idx := pos & (r.size - 1)
		switch op.K {
		case "read":
			if n <= 0 {
				return clip
			}
			if cap(scratch) < n {
				scratch = make([]byte, n)
			}
			p := scratch[:n]
			r.begin(a, 'c', "read", 1)
			k, err := r.bf.Read(p)
			r.end(a)
			if err == io.EOF {
				return true
			}
			if err != nil || k <= 0 || k > n {
				r.failSafety("%s: Read returned (%d, %v)", where, k, err)
				return true
			}
			if !r.verify(where, p[:k], pos) {
				return true
			}
			r.consumed.Add(int64(k))
		case "peek", "wait":
			if n <= 0 {
				return clip
			}
			var b []byte
			var err error
			if op.K == "peek" {
				r.begin(a, 'c', "peek", 1)
				b, err = r.bf.ReadPeek(n)
			} else {
				if op.L > 0 && op.L < n {
					r.begin(a, 'c', "wait", op.L)
					h, herr := r.bf.ReadWait(op.L)
					r.end(a)
					if herr == io.EOF {
						return true
					}
					if herr != nil || len(h) != op.L {
						r.failSafety("%s: ReadWait(%d) returned (len %d, %v)", where, op.L, len(h), herr)
						return true
					}
					if !r.verify(where+" (first, shorter ReadWait)", h, pos) {
						return true
					}
					r.class("wait-twice-at-one-position")
					if idx+int64(op.L) > r.size {
						r.class("short-wait-crossed-ring-end")
					}
				}
				r.begin(a, 'c', "wait", n)
				b, err = r.bf.ReadWait(n)
			}
			r.end(a)
			if err == io.EOF {
				return true
			}
			if op.K == "peek" {
				if (err != nil && err != service.ErrBufferInsufficientData) || len(b) > n || (err == nil && len(b) != n) || (err != nil && len(b) >= n) || len(b) == 0 {
					r.failSafety("%s: ReadPeek returned (len %d, %v)", where, len(b), err)
					return true
				}
			} else if err != nil || len(b) != n {
				r.failSafety("%s: ReadWait returned (len %d, %v)", where, len(b), err)
				return true
			}
			if idx+int64(len(b)) > r.size {
				r.class("peek-crossed-ring-end")
			}
			if !r.verify(where, b, pos) {
				return true
			}
			k := op.M
			if k > len(b) || k <= 0 {
				k = len(b)
			}
			r.pause(a, "peeked-not-committed")
			// the producer must not have overwritten what was peeked
			if !r.verify(where+" re-check before commit", b, pos) {
				return true
			}
			r.begin(a, 'c', "commit", k)
			m, err := r.bf.ReadCommit(k)
			r.end(a)
			if err != nil || m != k {
				r.failSafety("%s: ReadCommit(%d) returned (%d, %v)", where, k, m, err)
				return true
			}
			r.consumed.Add(int64(k))
		case "len":
			l := r.bf.Len()
			if l < 0 || int64(l) > r.size {
				r.failSafety("%s: Len() = %d outside [0,%d]", where, l, r.size)
			}
		case "writeto":
			w := &checkWriter{r: r, a: a}
			r.begin(a, 'c', "writeto", 1)
			_, err := r.bf.WriteTo(w)
			r.closeStarted.Store(true)
			r.end(a)
			if err != io.EOF && err != errStop && err != nil {
				r.failSafety("%s: WriteTo returned error %v", where, err)
			}
			r.class("writeto")
			return true
		case "close":
			r.doClose(a)
		}
		return false
	}
	if len(r.c.Cons) > 0 {
		// the op list is cycled until everything committed was obtained; the
		// loop gives up only when a whole cycle made no progress (a list without
		// a consuming operation), and then the completeness verdict is skipped
		idle, last := 0, r.consumed.Load()
		for r.consumed.Load() < r.total {
			op := r.c.Cons[i%len(r.c.Cons)]
			i++
			if exec(op, true) {
				break
			}
			if now := r.consumed.Load(); now != last {
				idle, last = 0, now
			} else if idle++; idle > 2*len(r.c.Cons) {
				r.consumerGaveUp.Store(true)
				r.class("consumer-list-without-progress")
				break
			}
		}
	}
	for _, op := range r.c.Tail {
		i++
		exec(op, false)
	}
}

type checkWriter struct {
	r *run
	a *actor
}

func (w *checkWriter) Write(p []byte) (int, error) {
	pos := w.r.consumed.Load()
	if !w.r.verify("WriteTo writer", p, pos) {
		return 0, errStop
	}
	w.r.consumed.Add(int64(len(p)))
	w.r.inHarness(w.a, func() { w.r.pause(w.a, "writer-chunk") })
	if pos+int64(len(p)) >= w.r.total {
		return len(p), errStop
	}
	return len(p), nil
}

// ---- execution -------------------------------------------------------------------

type outcome struct {
	Branch       []int `json:"-"`
	Safety       []string
	Liveness     string // non-empty: an operation is blocked although the model says it must have returned
	Inconclusive string
	Classes      []string
	Steps        int
	Trace        []string
}

func newRun(c RCase) (*run, string) {
	bf, err := service.VerifNewBuffer(int64(c.Size))
	if err != nil {
		return nil, err.Error()
	}
	_, _, sz := bf.VerifCursors()
	r := &run{c: c, ctl: c.Mode == "ctl", bf: bf, size: sz, cls: map[string]bool{}, byGID: map[int64]*actor{}, notify: make(chan struct{}, 1)}
	// sequential pre-positioning of the cursors
	var pos, cpos int64
	for _, wr := range c.Pre {
		w, rd := int64(wr[0]), int64(wr[1])
		if w > sz-(pos-cpos) {
			w = sz - (pos - cpos)
		}
		if w > 0 {
			p := make([]byte, w)
			streamFill(p, pos)
			if n, err := bf.Write(p); err != nil || int64(n) != w {
				return nil, fmt.Sprintf("pre-positioning Write(%d) returned (%d, %v)", w, n, err)
			}
			pos += w
		}
		if rd > pos-cpos {
			rd = pos - cpos
		}
		for rd > 0 {
			p := make([]byte, rd)
			n, err := bf.Read(p)
			if err != nil || n <= 0 {
				return nil, fmt.Sprintf("pre-positioning Read returned (%d, %v)", n, err)
			}
			if !r.verify("pre-positioning Read", p[:n], cpos) {
				return r, ""
			}
			cpos += int64(n)
			rd -= int64(n)
		}
	}
	r.produced.Store(pos)
	r.consumed.Store(cpos)
	if pos-cpos == sz {
		r.class("start-full")
	} else if pos == cpos {
		r.class("start-empty")
	}
	if pos > sz {
		r.class("start-wrapped")
	}
	r.total = pos
	for _, op := range c.Prod {
		switch op.K {
		case "write":
			r.total += int64(op.N)
		case "reserve":
			r.total += int64(op.M)
		case "readfrom":
			for _, ch := range op.Chunks {
				if ch > 8192 {
					ch = 8192
				}
				r.total += int64(ch) // upper bound; the reader may be offered less than a chunk at the ring end
			}
		}
	}
	return r, ""
}

// handlerMu serialises runs that install the process-wide yield handler.
var handlerMu sync.Mutex

func execute(c RCase) outcome {
	r, bad := newRun(c)
	if bad != "" {
		return outcome{Safety: []string{bad}}
	}
	if len(r.safety) > 0 {
		return outcome{Safety: r.safety}
	}
	type prog struct {
		name string
		f    func(a *actor)
	}
	progs := []prog{{"producer", r.producer}, {"consumer", r.consumer}}
	if c.Closer > 0 {
		progs = append(progs, prog{"closer", func(a *actor) {
			for i := 0; i < c.Closer; i++ {
				r.pause(a, "between-ops")
				r.doClose(a)
			}
		}})
	}
	if r.ctl {
		handlerMu.Lock()
		defer handlerMu.Unlock()
		service.VerifSetHandler(&service.VerifHandler{Yield: func(point string, obj interface{}) {
			if b, ok := obj.(*service.VerifBuffer); !ok || b != r.bf {
				return
			}
			r.mu.Lock()
			a := r.byGID[census.GID()]
			r.mu.Unlock()
			if a != nil {
				r.park(a, point)
			}
		}})
		defer service.VerifSetHandler(nil)
	}
	var wg sync.WaitGroup
	ready := make(chan struct{}, len(progs))
	for _, p := range progs {
		a := &actor{name: p.name, resume: make(chan struct{})}
		r.actors = append(r.actors, a)
		wg.Add(1)
		go func(p prog, a *actor) {
			defer wg.Done()
			r.mu.Lock()
			a.gid = census.GID()
			r.byGID[a.gid] = a
			r.mu.Unlock()
			ready <- struct{}{}
			if r.ctl {
				r.park(a, "start")
			}
			p.f(a)
			r.mu.Lock()
			a.done = true
			r.mu.Unlock()
			select {
			case r.notify <- struct{}{}:
			default:
			}
		}(p, a)
	}
	for range progs {
		<-ready
	}
	var out outcome
	if r.ctl {
		r.schedule(&wg, &out)
	} else {
		r.waitFree(&wg, &out)
	}
	out.Safety = r.safety
	for k := range r.cls {
		out.Classes = append(out.Classes, k)
	}
	out.Steps = r.steps
	out.Branch = r.branch
	out.Trace = r.trace
	if len(out.Trace) > 80 {
		out.Trace = append([]string{"..."}, out.Trace[len(out.Trace)-80:]...)
	}
	if out.Liveness == "" && out.Inconclusive == "" {
		// everything returned: both internal mutexes must be free again
		if pf, cf := r.bf.VerifLocksFree(); !pf || !cf {
			out.Liveness = fmt.Sprintf("all operations returned but an internal mutex stays locked (producer-side free=%v, consumer-side free=%v): a later call would block forever", pf, cf)
		}
		if !r.closeStarted.Load() && len(r.safety) == 0 {
			if got := r.consumed.Load(); got != r.total && !r.cls["readfrom"] && !r.consumerGaveUp.Load() {
				r.failSafety("nothing closed the ring and all operations returned, yet the consumer obtained %d of the %d committed bytes", got, r.total)
				out.Safety = r.safety
			}
		}
	} else {
		// release whatever can still be released; stuck goroutines are abandoned
		go r.bf.Close()
		for _, a := range r.actors {
			go func(a *actor) {
				for i := 0; i < 1000; i++ {
					select {
					case a.resume <- struct{}{}:
					case <-time.After(50 * time.Millisecond):
						return
					}
				}
			}(a)
		}
	}
	return out
}

func (r *run) waitFree(wg *sync.WaitGroup, out *outcome) {
	done := make(chan struct{})
	go func() { wg.Wait(); close(done) }()
	deadline := time.After(20 * time.Second)
	for {
		select {
		case <-done:
			return
		case <-deadline:
			out.Inconclusive = "free-running case did not finish within 20 s and is not quiescent"
			return
		case <-time.After(300 * time.Millisecond):
			// quiescent? (two censuses with unchanged counters)
			p0, c0 := r.produced.Load(), r.consumed.Load()
			if v := r.quiescentVerdict(); v != "" {
				time.Sleep(100 * time.Millisecond)
				if p0 == r.produced.Load() && c0 == r.consumed.Load() {
					if v2 := r.quiescentVerdict(); v2 != "" {
						out.Liveness = v2
						return
					}
				}
			}
		}
	}
}

// quiescentVerdict returns a violation text if every unfinished actor is
// blocked in a lock/condition and the model says one of them must not be.
func (r *run) quiescentVerdict() string {
	r.mu.Lock()
	var ids []int64
	var live []*actor
	for _, a := range r.actors {
		if !a.done {
			if a.at != "" {
				r.mu.Unlock()
				return ""
			}
			ids = append(ids, a.gid)
			live = append(live, a)
		}
	}
	r.mu.Unlock()
	if len(live) == 0 {
		return ""
	}
	st := census.States(ids...)
	for _, a := range live {
		s := st[a.gid]
		if s != "sync.Cond.Wait" && s != "sync.Mutex.Lock" {
			return ""
		}
	}
	return r.judgeBlocked(live, st)
}

func (r *run) judgeBlocked(live []*actor, st map[int64]string) string {
	pp, cp, sz := r.bf.VerifCursors()
	avail, free := pp-cp, sz-(pp-cp)
	closed := r.closeStarted.Load()
	for _, a := range live {
		r.mu.Lock()
		cur, in := a.cur, a.inOp
		r.mu.Unlock()
		if !in {
			continue
		}
		desc := fmt.Sprintf("%s is blocked (%s) in %s(%d) with %d bytes readable, %d bytes free, close started=%v", a.name, st[a.gid], cur.kind, cur.n, avail, free, closed)
		if st[a.gid] == "sync.Mutex.Lock" {
			return desc + ": nobody holds the mutex legitimately (a returned call left it locked)"
		}
		switch {
		case closed:
			return desc + ": after Close every blocked call must return end-of-stream"
		case cur.kind == "close" || cur.kind == "commit":
			return desc + ": this call never waits"
		case cur.side == 'c' && avail >= cur.n:
			return desc + ": enough data was committed, the consumer must proceed (lost wake-up)"
		case cur.side == 'p' && free >= cur.n:
			return desc + ": enough space was freed, the producer must proceed (lost wake-up)"
		}
	}
	return ""
}

// schedule is the controlled-mode scheduler loop.
func (r *run) schedule(wg *sync.WaitGroup, out *outcome) {
	si := 0
	start := time.Now()
	for {
		// settle: every actor parked, done or lock-blocked
		var parked, live []*actor
		var st map[int64]string
		spins := 0
		for {
			parked, live = parked[:0], live[:0]
			var ids []int64
			r.mu.Lock()
			for _, a := range r.actors {
				if a.done {
					continue
				}
				live = append(live, a)
				if a.at != "" {
					parked = append(parked, a)
				} else {
					ids = append(ids, a.gid)
				}
			}
			r.mu.Unlock()
			if len(ids) == 0 {
				break
			}
			st = census.States(ids...)
			moving := false
			for _, id := range ids {
				s := st[id]
				if s != "sync.Cond.Wait" && s != "sync.Mutex.Lock" {
					moving = true
				}
			}
			if !moving {
				// re-check that nobody parked/finished meanwhile
				r.mu.Lock()
				changed := false
				for _, a := range live {
					isParked := a.at != ""
					wasParked := false
					for _, p := range parked {
						if p == a {
							wasParked = true
						}
					}
					if a.done || isParked != wasParked {
						changed = true
					}
				}
				r.mu.Unlock()
				if !changed {
					break
				}
				continue
			}
			spins++
			if time.Since(start) > 30*time.Second {
				out.Inconclusive = "controlled schedule did not settle within 30 s"
				return
			}
			select {
			case <-r.notify:
			case <-time.After(time.Duration(20+spins) * time.Microsecond):
			}
		}
		if len(live) == 0 {
			return
		}
		if len(parked) == 0 {
			// global quiescence: all live actors are lock-blocked
			if v := r.judgeBlocked(live, st); v != "" {
				out.Liveness = v
			} else {
				out.Inconclusive = "generator deadlock: all remaining actors wait legitimately"
				pp, cp, _ := r.bf.VerifCursors()
				for _, a := range live {
					out.Trace = append(out.Trace, fmt.Sprintf("DEADLOCK %s %s in %s(%d) inOp=%v ppos=%d cpos=%d total=%d consumed=%d", a.name, st[a.gid], a.cur.kind, a.cur.n, a.inOp, pp, cp, r.total, r.consumed.Load()))
				}
				r.trace = append(r.trace, out.Trace...)
			}
			return
		}
		var b byte
		if len(r.c.Sched) > 0 {
			b = r.c.Sched[si%len(r.c.Sched)]
		}
		si++
		pick := parked[int(b)%len(parked)]
		if r.c.Choices != nil {
			b = 0
			ch := 0
			if si-1 < len(r.c.Choices) {
				ch = r.c.Choices[si-1]
			}
			pick = parked[ch%len(parked)]
			r.branch = append(r.branch, len(parked))
		}
		if b&0x80 != 0 {
			// adversarial choice: keep actors that sit in a wait window (cursor read, not yet
			// locked / about to wait) parked and run somebody else, if there is somebody else
			var others []*actor
			for _, a := range parked {
				if n := len(a.at); !(n > 8 && (a.at[n-8:] == "pre-lock" || a.at[n-8:] == "pre-wait")) {
					others = append(others, a)
				}
			}
			if len(others) > 0 && len(others) < len(parked) {
				pick = others[int(b&0x7f)%len(others)]
			}
		}
		r.mu.Lock()
		r.trace = append(r.trace, pick.name+"@"+pick.at)
		if pick.at != "between-ops" && pick.at != "start" {
			r.cls["released-at:"+pick.at] = true
		}
		// a peer is parked inside a wait path / at pre-lock while this actor runs
		for _, o := range parked {
			if o != pick && (len(o.at) > 8 && (o.at[len(o.at)-8:] == "pre-lock" || o.at[len(o.at)-8:] == "pre-wait")) {
				r.cls["peer-ran-while-in-wait-window"] = true
			}
		}
		for _, o := range live {
			if o != pick && o.at == "" {
				r.cls["peer-ran-while-blocked"] = true
			}
		}
		pick.at = ""
		r.steps++
		r.mu.Unlock()
		pick.resume <- struct{}{}
		if r.steps > 2500 {
			// long programs: the rest runs under the Go scheduler
			r.class("controlled-prefix-then-free")
			r.freeRun.Store(true)
			stop := make(chan struct{})
			go func() {
				for {
					select {
					case <-stop:
						return
					default:
					}
					for _, a := range r.actors {
						select {
						case a.resume <- struct{}{}:
						default:
						}
					}
					time.Sleep(50 * time.Microsecond)
				}
			}()
			r.waitFree(wg, out)
			close(stop)
			return
		}
	}
}

// ---- generators -------------------------------------------------------------------

func genSize(t *rapid.T) int {
	if rapid.IntRange(0, 9).Draw(t, "size32k") < 3 {
		return 32768
	}
	return 16384
}

func genChunk(t *rapid.T, size int, label string) int {
	switch rapid.IntRange(0, 5).Draw(t, label+"cls") {
	case 0, 1:
		return rapid.SampledFrom([]int{1, 2, 7, 100, 4095, 8191, 8192, 8193, size - 1, size}).Draw(t, label)
	case 2:
		return rapid.IntRange(1, 64).Draw(t, label)
	default:
		return rapid.IntRange(1, size).Draw(t, label)
	}
}

func genPre(t *rapid.T, size int) [][2]int {
	switch rapid.IntRange(0, 4).Draw(t, "prestate") {
	case 0:
		return nil // empty, cursors at 0
	case 1: // partial
		w := rapid.IntRange(1, size-1).Draw(t, "prew")
		return [][2]int{{w, rapid.IntRange(0, w-1).Draw(t, "prer")}}
	case 2: // full
		x := rapid.IntRange(0, size-1).Draw(t, "shift")
		return [][2]int{{x, x}, {size, 0}}
	case 3: // wrapped: cursors moved near the end, then some data across the boundary
		x := size - rapid.IntRange(1, 300).Draw(t, "near")
		w := rapid.IntRange(0, 600).Draw(t, "prew")
		return [][2]int{{x, x}, {w, 0}}
	default: // empty but shifted
		x := rapid.IntRange(1, size).Draw(t, "shift")
		return [][2]int{{x, x}}
	}
}

// genLimits draws the largest producer chunk and the largest ReadWait request
// such that their sum fits the ring: a consumer insisting on n bytes while the
// producer insists on k free bytes with n+k > size is a legitimate deadlock of
// the two programs (the library's documented packet limit), not a ring defect.
func genLimits(t *rapid.T, size int) (maxChunk, maxWait int) {
	maxChunk = rapid.SampledFrom([]int{8192, 8192, size, size - 1, size / 2, 1, 100, 8193, size - 8192}).Draw(t, "maxchunk")
	return maxChunk, size - maxChunk
}

func clipTo(n, max int) int {
	if n > max {
		return max
	}
	return n
}

func genConsTemplates(t *rapid.T, size int, n int, maxWait int, total int) []ROp {
	ops := []ROp{{K: "read", N: genChunk(t, size, "c0")}}
	if total/ops[0].N > 60 {
		ops[0].N = clipTo(total/30+1, size)
	}
	for i := 0; i < n; i++ {
		k := rapid.SampledFrom([]string{"read", "peek", "wait", "wait", "peek", "len"}).Draw(t, "ck")
		if k == "wait" && maxWait <= 0 {
			k = "peek"
		}
		op := ROp{K: k}
		if k != "len" {
			op.N = genChunk(t, size, "cn")
			if k == "wait" {
				op.N = clipTo(op.N, maxWait)
				if op.N > 2 && rapid.Bool().Draw(t, "lookahead") {
					op.L = rapid.SampledFrom([]int{1, 2, 2, 2, 5}).Draw(t, "cl")
					if op.L >= op.N {
						op.L = 2
					}
				}
			}
			if k != "read" && rapid.Bool().Draw(t, "partialcommit") {
				op.M = rapid.IntRange(1, op.N).Draw(t, "cm")
			}
		}
		ops = append(ops, op)
	}
	return ops
}

func genFree(t *rapid.T) RCase {
	size := genSize(t)
	c := RCase{Mode: "free", Size: size, Pre: genPre(t, size)}
	maxChunk, maxWait := genLimits(t, size)
	if maxWait > size-8192 {
		maxWait = size - 8192 // ReadFrom reserves 8 KiB blocks
	}
	target := rapid.IntRange(3, 20).Draw(t, "rings") * size
	sum := 0
	for sum < target && len(c.Prod) < 400 {
		op := ROp{K: rapid.SampledFrom([]string{"write", "reserve", "reserve"}).Draw(t, "pk"), N: clipTo(genChunk(t, size, "pn"), maxChunk)}
		op.M = op.N
		if op.K == "reserve" && rapid.Bool().Draw(t, "short") {
			op.M = rapid.IntRange(1, op.N).Draw(t, "pm")
		}
		if op.K == "reserve" {
			sum += op.M
		} else {
			sum += op.N
		}
		c.Prod = append(c.Prod, op)
	}
	switch rapid.IntRange(0, 5).Draw(t, "terminal") {
	case 0:
		n := rapid.IntRange(1, 30).Draw(t, "nchunks")
		op := ROp{K: "readfrom"}
		for i := 0; i < n; i++ {
			op.Chunks = append(op.Chunks, rapid.SampledFrom([]int{1, 2, 100, 1000, 4096, 8191, 8192}).Draw(t, "chunk"))
		}
		c.Prod = append(c.Prod, op)
	}
	c.Cons = genConsTemplates(t, size, rapid.IntRange(1, 6).Draw(t, "ncons"), maxWait, 0)
	if rapid.IntRange(0, 5).Draw(t, "writeto") == 0 {
		c.Cons = append(c.Cons, ROp{K: "writeto"})
	}
	return c
}

func genCtl(t *rapid.T, withClose bool) RCase {
	size := 16384
	c := RCase{Mode: "ctl", Size: size, Pre: genPre(t, size)}
	maxChunk, maxWait := genLimits(t, size)
	if maxWait > size-8192 {
		maxWait = size - 8192 // ReadFrom reserves 8 KiB blocks
	}
	total := 0
	for _, wr := range c.Pre {
		total += wr[0] - wr[1]
	}
	np := rapid.IntRange(1, 8).Draw(t, "nprod")
	for i := 0; i < np; i++ {
		op := ROp{K: rapid.SampledFrom([]string{"write", "reserve"}).Draw(t, "pk"), N: clipTo(genChunk(t, size, "pn"), maxChunk)}
		op.M = op.N
		if op.K == "reserve" && rapid.Bool().Draw(t, "short") {
			op.M = rapid.IntRange(1, op.N).Draw(t, "pm")
		}
		c.Prod = append(c.Prod, op)
		total += op.M
		if withClose && rapid.IntRange(0, 7).Draw(t, "pclose") == 0 {
			c.Prod = append(c.Prod, ROp{K: "close"})
		}
	}
	if rapid.IntRange(0, 6).Draw(t, "readfrom") == 0 {
		op := ROp{K: "readfrom"}
		for i, n := 0, rapid.IntRange(1, 6).Draw(t, "nchunks"); i < n; i++ {
			op.Chunks = append(op.Chunks, rapid.SampledFrom([]int{1, 100, 4096, 8192}).Draw(t, "chunk"))
		}
		c.Prod = append(c.Prod, op)
	}
	c.Cons = genConsTemplates(t, size, rapid.IntRange(1, 5).Draw(t, "ncons"), maxWait, total)
	if rapid.IntRange(0, 6).Draw(t, "writeto") == 0 {
		c.Cons = append(c.Cons, ROp{K: "writeto"})
	}
	if withClose {
		if rapid.IntRange(0, 3).Draw(t, "cclose") == 0 {
			pos := rapid.IntRange(0, len(c.Cons)).Draw(t, "cclosepos")
			c.Cons = append(c.Cons[:pos], append([]ROp{{K: "close"}}, c.Cons[pos:]...)...)
		}
		c.Closer = rapid.SampledFrom([]int{0, 1, 1, 1, 2, 3}).Draw(t, "closer")
		// later calls after everything (must return, never block)
		for i, n := 0, rapid.IntRange(0, 4).Draw(t, "ntail"); i < n; i++ {
			k := rapid.SampledFrom([]string{"read", "peek", "wait", "close", "len"}).Draw(t, "tk")
			c.Tail = append(c.Tail, ROp{K: k, N: rapid.IntRange(1, 64).Draw(t, "tn")})
		}
		if len(c.Tail) > 0 && c.Closer == 0 {
			c.Closer = 1 // tail data calls only return if somebody closes
		}
	}
	c.Sched = rapid.SliceOfN(rapid.Byte(), 8, 64).Draw(t, "sched")
	return c
}

// ---- tests ----------------------------------------------------------------------------

func hasClass(o outcome, c string) bool {
	for _, x := range o.Classes {
		if x == c {
			return true
		}
	}
	return false
}

type checkSpec struct {
	prop, unit string
	gen        func(t *rapid.T) RCase
	safety     bool // report safety failures (C14) or liveness failures (C15)
	nontrivial func(c RCase, o outcome) bool
}

func runSpec(t *testing.T, sp checkSpec) {
	rec := ev.New(sp.prop, sp.unit)
	defer rec.Flush()
	judge := func(c RCase, tries int) (string, outcome) {
		var o outcome
		for i := 0; i < tries; i++ {
			o = execute(c)
			if sp.safety && len(o.Safety) > 0 {
				return o.Safety[0], o
			}
			if !sp.safety && o.Liveness != "" {
				return o.Liveness, o
			}
		}
		return "", o
	}
	if rp := ev.LoadReplay(t, sp.unit); rp != nil {
		var c RCase
		json.Unmarshal(rp.Case, &c)
		if f, o := judge(c, 20); f != "" {
			p := rec.Violation("-", "schedule", f, c, o)
			rec.Flush()
			t.Fatalf("VIOLATION %s replay=%s", f, p)
		}
		return
	} else if ev.Replaying() {
		t.Skip()
	}
	rapid.Check(t, func(t *rapid.T) {
		c := sp.gen(t)
		f, o := judge(c, 1)
		if o.Inconclusive != "" {
			rec.Inconclusive()
			rec.Class("inconclusive: "+o.Inconclusive, 1)
		}
		if sp.safety && o.Liveness != "" {
			rec.Class("other-property-liveness-failure(C15)", 1)
			rec.Inconclusive()
		}
		if !sp.safety && len(o.Safety) > 0 {
			rec.Class("other-property-safety-failure(C14)", 1)
		}
		rec.Case(c, sp.nontrivial(c, o), o.Classes...)
		if f != "" {
			p := rec.Violation("-", "schedule", f, c, o)
			t.Fatalf("VIOLATION %s replay=%s", f, p)
		}
	})
}

func ntC14(c RCase, o outcome) bool {
	total := 0
	for _, op := range c.Prod {
		if op.K == "reserve" {
			total += op.M
		} else {
			total += op.N
		}
	}
	wraps := total / c.Size
	if c.Mode == "ctl" {
		return hasClass(o, "peek-crossed-ring-end") || hasClass(o, "producer-had-to-wait")
	}
	return wraps >= 2 && (hasClass(o, "peek-crossed-ring-end") || hasClass(o, "producer-had-to-wait"))
}

func ntC15(c RCase, o outcome) bool {
	return hasClass(o, "peer-ran-while-in-wait-window") || hasClass(o, "peer-ran-while-blocked")
}

func TestC14Free(t *testing.T) {
	runSpec(t, checkSpec{"C14", "free", genFree, true, ntC14})
}

func TestC14Controlled(t *testing.T) {
	runSpec(t, checkSpec{"C14", "controlled", func(t *rapid.T) RCase { return genCtl(t, false) }, true, ntC14})
}

func TestC15Controlled(t *testing.T) {
	runSpec(t, checkSpec{"C15", "controlled", func(t *rapid.T) RCase { return genCtl(t, true) }, false, ntC15})
}

func TestC15ControlledNoClose(t *testing.T) {
	runSpec(t, checkSpec{"C15", "controlled-noclose", func(t *rapid.T) RCase { return genCtl(t, false) }, false, ntC15})
}

func TestC15Free(t *testing.T) {
	runSpec(t, checkSpec{"C15", "free", genFree, false, func(c RCase, o outcome) bool { return hasClass(o, "producer-had-to-wait") }})
}

// TestC15PingPong: free-running 1-byte ping-pong — the consumer waits for one
// byte, the producer waits until it was consumed. Any lost wake-up hangs it.
func TestC15PingPong(t *testing.T) {
	rec := ev.New("C15", "pingpong")
	defer rec.Flush()
	if ev.Replaying() {
		t.Skip()
	}
	e := ev.GetEnv()
	rounds := ev.Pick(1200000, 6000000) / e.Shards
	bf, _ := service.VerifNewBuffer(16384)
	var got atomic.Int64
	res := make(chan string, 2)
	go func() {
		for i := 0; i < rounds; i++ {
			b, err := bf.ReadWait(1)
			if err != nil || len(b) != 1 || b[0] != byte(i) {
				res <- fmt.Sprintf("round %d: ReadWait(1) returned (%v, %v)", i, b, err)
				return
			}
			if _, err := bf.ReadCommit(1); err != nil {
				res <- fmt.Sprintf("round %d: ReadCommit: %v", i, err)
				return
			}
			got.Store(int64(i + 1))
		}
		res <- ""
	}()
	go func() {
		for i := 0; i < rounds; i++ {
			if _, err := bf.Write([]byte{byte(i)}); err != nil {
				res <- fmt.Sprintf("round %d: Write: %v", i, err)
				return
			}
			t0 := time.Now()
			for n := 0; got.Load() < int64(i+1); n++ {
				if n < 20000 {
					runtime.Gosched()
				} else {
					time.Sleep(50 * time.Microsecond)
				}
				if n > 20000 && n%1000 == 0 && time.Since(t0) > 3*time.Second {
					// quiescent? the consumer sits in its condition wait although a byte is readable
					for _, g := range census.Lib() {
						if g.State == "sync.Cond.Wait" && bf.Len() > 0 && got.Load() < int64(i+1) {
							res <- fmt.Sprintf("round %d: one byte is committed (Len=%d) but the consumer stays blocked in its condition wait (lost wake-up)", i, bf.Len())
							return
						}
					}
					t0 = time.Now()
				}
			}
		}
		res <- ""
	}()
	fails := ""
	for i := 0; i < 2; i++ {
		if f := <-res; f != "" {
			fails = f
			break
		}
	}
	c := map[string]interface{}{"pingpong_rounds": rounds, "shard": e.Shard}
	rec.Count(got.Load(), 0, "pingpong-roundtrips")
	rec.CaseRaw([]byte(fmt.Sprintf(`{"pingpong_rounds":%d,"shard":%d}`, rounds, e.Shard)), true)
	if fails != "" {
		p := rec.Violation("-", "schedule", fails, c, census.Summary(census.Lib()))
		rec.Flush()
		t.Fatalf("VIOLATION %s replay=%s", fails, p)
	}
}

// ---- C15 unit "close-windows": exhaustive schedules of Close against blocked calls -----------
//
// Small configurations in which one or two calls must block (a write into a
// ring without room, a wait for more data than there is), one or two Close
// calls, and optionally a consumer step that frees too little. ALL schedules
// over the yield points (entry of every blocking path before its lock is
// taken, the point just before the condition wait, and the two points inside
// Close) are enumerated depth-first; in each, every call must return.

func closeWindowConfigs() []RCase {
	const size = 16384
	var out []RCase
	add := func(c RCase) {
		c.Mode, c.Size, c.Choices = "ctl", size, []int{}
		out = append(out, c)
	}
	for _, closers := range []int{1, 2} {
		// producer blocked: ring full / nearly full
		for _, pre := range [][2]int{{size, 0}, {12000, 0}, {size, 3000}} {
			free := size - (pre[0] - pre[1])
			for _, k := range []string{"write", "reserve"} {
				add(RCase{Pre: [][2]int{pre}, Prod: []ROp{{K: k, N: free + 2000, M: free + 2000}}, Closer: closers})
			}
			add(RCase{Pre: [][2]int{pre}, Prod: []ROp{{K: "readfrom", Chunks: []int{100, 100}}}, Closer: closers})
			// a consumer step that frees too little before it goes away
			add(RCase{Pre: [][2]int{pre}, Prod: []ROp{{K: "write", N: free + 2000, M: free + 2000}}, Tail: []ROp{{K: "read", N: 500}}, Closer: closers})
		}
		// consumer blocked: ring empty / too little data
		for _, pre := range [][2]int{{0, 0}, {64, 25}, {9000, 9000}} {
			avail := pre[0] - pre[1]
			add(RCase{Pre: [][2]int{pre}, Tail: []ROp{{K: "wait", N: avail + 100}}, Closer: closers})
			if avail == 0 {
				add(RCase{Pre: [][2]int{pre}, Tail: []ROp{{K: "read", N: 10}}, Closer: closers})
				add(RCase{Pre: [][2]int{pre}, Tail: []ROp{{K: "writeto"}}, Closer: closers})
			}
			// a producer step that delivers too little before it goes away
			add(RCase{Pre: [][2]int{pre}, Prod: []ROp{{K: "write", N: 50, M: 50}}, Tail: []ROp{{K: "wait", N: avail + 100}}, Closer: closers})
		}
	}
	// both sides blocked at once (only Close can end it)
	add(RCase{Pre: [][2]int{{12000, 0}}, Prod: []ROp{{K: "write", N: 5000, M: 5000}}, Tail: []ROp{{K: "wait", N: 14000}}, Closer: 1})
	add(RCase{Pre: [][2]int{{12000, 0}}, Prod: []ROp{{K: "reserve", N: 5000, M: 5000}}, Tail: []ROp{{K: "wait", N: 14000}}, Closer: 1})
	// Close by the blocked side's peer instead of a third goroutine
	add(RCase{Pre: [][2]int{{size, 0}}, Prod: []ROp{{K: "write", N: 3000, M: 3000}}, Tail: []ROp{{K: "close"}}})
	add(RCase{Pre: [][2]int{{0, 0}}, Prod: []ROp{{K: "close"}}, Tail: []ROp{{K: "wait", N: 100}}})
	return out
}

// ---- C15 unit "wake-windows": exhaustive schedules of a wake-up against a blocked call ---------
//
// The same enumeration without any Close: one call must block (a write into a ring
// without room, a wait for more data than there is) and its peer makes one step that frees
// or delivers ENOUGH - through Read, through ReadWait/ReadPeek + ReadCommit, through Write,
// through WriteWait + WriteCommit. In every schedule over the yield points the blocked call
// must return (a wake-up that falls between a waiter's check and its wait is not lost).

func wakeWindowConfigs() []RCase {
	const size = 16384
	var out []RCase
	add := func(c RCase) {
		c.Mode, c.Size, c.Choices = "ctl", size, []int{}
		out = append(out, c)
	}
	// producer blocked for space; the consumer frees enough in one step
	for _, pre := range [][2]int{{size, 0}, {12000, 0}, {size, 3000}} {
		avail := pre[0] - pre[1]
		free := size - avail
		need := free + 2000
		for _, k := range []string{"write", "reserve"} {
			for _, tail := range [][]ROp{
				{{K: "wait", N: avail, M: avail}},                   // ReadWait + ReadCommit of everything: the ring is empty afterwards
				{{K: "wait", N: 2000, M: 2000}},                     // exactly enough
				{{K: "peek", N: 5000, M: 5000}},                     // ReadPeek + ReadCommit
				{{K: "read", N: 6000}},                              // Read
				{{K: "read", N: 1500}, {K: "wait", N: 600, M: 600}}, // two steps, only the second makes room
			} {
				add(RCase{Pre: [][2]int{pre}, Prod: []ROp{{K: k, N: need, M: need}}, Tail: tail})
			}
		}
	}
	// consumer blocked for data; the producer delivers enough in one step
	for _, pre := range [][2]int{{0, 0}, {64, 25}, {9000, 9000}} {
		avail := pre[0] - pre[1]
		for _, prod := range [][]ROp{
			{{K: "write", N: 100, M: 100}},
			{{K: "write", N: 5000, M: 5000}},
			{{K: "reserve", N: 100, M: 100}},
			{{K: "write", N: 40, M: 40}, {K: "reserve", N: 60, M: 60}}, // only the second completes what is waited for
		} {
			add(RCase{Pre: [][2]int{pre}, Prod: prod, Tail: []ROp{{K: "wait", N: avail + 100, M: avail + 100}}})
			if avail == 0 {
				add(RCase{Pre: [][2]int{pre}, Prod: prod, Tail: []ROp{{K: "read", N: 10}}})
			}
		}
	}
	return out
}

func TestC15WakeWindows(t *testing.T) {
	c15Windows(t, "wake-windows", wakeWindowConfigs())
}

func TestC15CloseWindows(t *testing.T) {
	c15Windows(t, "close-windows", closeWindowConfigs())
}

func c15Windows(t *testing.T, unit string, configs []RCase) {
	rec := ev.New("C15", unit)
	defer rec.Flush()
	judge := func(c RCase) (string, outcome) {
		o := execute(c)
		return o.Liveness, o
	}
	if rp := ev.LoadReplay(t, unit); rp != nil {
		var c RCase
		json.Unmarshal(rp.Case, &c)
		if f, o := judge(c); f != "" {
			p := rec.Violation("-", "schedule", f, c, o)
			rec.Flush()
			t.Fatalf("VIOLATION %s replay=%s", f, p)
		}
		return
	} else if ev.Replaying() {
		t.Skip()
	}
	e := ev.GetEnv()
	capPerConfig := ev.Pick(2500, 60000)
	exhaustive := true
	for ci, cfg := range configs {
		if ci%e.Shards != e.Shard {
			continue
		}
		if cfg.Closer >= 2 && ev.Pick(0, 1) == 0 {
			continue // two concurrent Close calls: thorough tier only
		}
		prefix := []int{}
		runs := 0
		for {
			c := cfg
			c.Choices = append([]int{}, prefix...)
			f, o := judge(c)
			runs++
			if o.Inconclusive != "" {
				rec.Inconclusive()
				rec.Class("inconclusive: "+o.Inconclusive, 1)
			}
			rec.Case(c, hasClass(o, "peer-ran-while-in-wait-window") || hasClass(o, "peer-ran-while-blocked"), o.Classes...)
			if f != "" {
				p := rec.Violation("-", "schedule", f, c, o)
				rec.Flush()
				t.Fatalf("VIOLATION %s replay=%s", f, p)
			}
			// next schedule in depth-first order
			full := make([]int, len(o.Branch))
			copy(full, prefix)
			i := len(full) - 1
			for i >= 0 && full[i]+1 >= o.Branch[i] {
				i--
			}
			if i < 0 {
				break
			}
			prefix = append(full[:i:i], full[i]+1)
			if runs >= capPerConfig {
				exhaustive = false
				rec.Class("schedule-enumeration-capped", 1)
				break
			}
		}
		rec.Class(fmt.Sprintf("%s-config-%02d-schedules", unit, ci), int64(runs))
	}
	rec.Exhaustive(exhaustive)
}
