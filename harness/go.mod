module verifharness

go 1.23

require (
	github.com/mdzio/go-logging v1.0.0
	github.com/mdzio/go-mqtt v0.0.0
	pgregory.net/rapid v1.3.0
)

require github.com/gorilla/websocket v1.5.0 // indirect

replace github.com/mdzio/go-mqtt => /repo
