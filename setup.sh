#!/bin/sh
# MANIFEST.setup_cmd: warm the Go build cache for the harness test binaries
# (plain and, where a check uses it, -race). Builds from files on disk only.
export GOFLAGS=-mod=mod GOPROXY=off GOSUMDB=off GOTOOLCHAIN=local
cd "$(dirname "$0")/harness" || exit 1
mkdir -p ../.build/bin
rc=0
for d in $(python3 - <<'PY'
import sys; sys.path.insert(0, '..')
from checks_config import CHECKS
s=set()
for c in CHECKS.values():
    for u in c['units']:
        if not u.get('race', c.get('race', False)): s.add(u.get('pkg', c['pkg']))
print(' '.join(sorted(s)))
PY
); do
  go test -c -tags verif -o ../.build/bin/$d.test ./$d || rc=1
done
for d in $(python3 - <<'PY'
import sys; sys.path.insert(0, '..')
from checks_config import CHECKS
s=set()
for c in CHECKS.values():
    for u in c['units']:
        if u.get('race', c.get('race', False)): s.add(u.get('pkg', c['pkg']))
print(' '.join(sorted(s)))
PY
); do
  go test -c -race -tags verif -o ../.build/bin/$d.race.test ./$d || rc=1
done
exit $rc
