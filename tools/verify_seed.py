#!/usr/bin/env python3
"""verify_seed.py <seed_worktree> <N> : confirm a seeded change in a scratch copy of /repo's HEAD:
   the patch applies and builds, the demonstration passes without it and fails with it,
   and the 131 baseline tests still pass with it. Prints a JSON summary."""
import json, os, re, shutil, subprocess, sys, tempfile
wt, n = sys.argv[1], sys.argv[2]
seed = os.path.join(wt, "SEED", n)
env = dict(os.environ, GOFLAGS="-mod=mod", GOPROXY="off", GOSUMDB="off", GOTOOLCHAIN="local")
scratch = tempfile.mkdtemp(prefix="vs_", dir="/tmp")
def sh(cmd, cwd=scratch, timeout=900):
    p = subprocess.run(cmd, shell=True, cwd=cwd, env=env, stdout=subprocess.PIPE, stderr=subprocess.STDOUT, text=True, timeout=timeout)
    return p.returncode, p.stdout
try:
    sh("git -C /repo archive HEAD | tar -x -C %s" % scratch, cwd="/")
    shutil.copytree(os.path.join(wt, "SEED"), os.path.join(scratch, "SEED"))
    cmds = open(os.path.join(seed, "demo_cmd.txt")).read().splitlines()
    cps, tests = [], []
    for l in cmds:
        l = l.strip()
        if l.startswith("#"):
            l = l.lstrip("# ").strip()
        # placement commands are run as written: "cp SEED/.. dst", "cp a b dst/", "mkdir -p d && cp SEED/.. d/"
        m = re.match(r"((?:mkdir\s+-p\s+\S+\s*&&\s*)?cp\s+(?:-r\s+)?SEED/[^#;|]*)", l)
        if m and m.group(1).strip() not in cps:
            cps.append(m.group(1).strip())
        m = re.search(r"""(go test (?:'[^']*'|"[^"]*"|[^#;&|])*)""", l)
        if m:
            t = re.sub(r"\s*\d?>+\s*\S*\s*$", "", m.group(1).strip())
            if "-json" in t or "./..." in t:
                continue
            if t not in tests:
                tests.append(t)
    for c in cps:
        sh(c)
    res = dict(seed=seed, cps=cps, tests=tests)
    def run_tests():
        out = []
        for t in tests:
            rc, o = sh(t)
            out.append((rc, o[-600:]))
        return out
    without = run_tests()
    res["passes_without_patch"] = all(rc == 0 for rc, _ in without) and bool(tests)
    rc, o = sh("patch -p1 -s --no-backup-if-mismatch < SEED/%s/patch.diff" % n)
    res["patch_applies"] = rc == 0
    rc, o = sh("go build ./message ./service ./sessions ./topics ./auth")
    res["builds"] = rc == 0
    withp = run_tests()
    res["fails_with_patch"] = any(rc != 0 for rc, _ in withp)
    res["fail_output"] = next((o for rc, o in withp if rc != 0), "")[-500:]
    # baseline with the patch (demo files removed again so that they do not count)
    for c in cps:
        md = re.match(r"mkdir\s+-p\s+(\S+)", c)
        if md:
            shutil.rmtree(os.path.join(scratch, md.group(1).split("/")[0]), ignore_errors=True)
            continue
        toks = c.split()
        dst = toks[-1]
        for src in [t for t in toks[1:-1] if t.startswith("SEED/")]:
            target = os.path.join(scratch, dst, os.path.basename(src)) if os.path.isdir(os.path.join(scratch, dst)) else os.path.join(scratch, dst)
            if os.path.isdir(target):
                shutil.rmtree(target, ignore_errors=True)
            elif os.path.exists(target):
                os.remove(target)
    shutil.rmtree(os.path.join(scratch, "SEED"), ignore_errors=True)
    sp = set(json.load(open("/root/.vp/BASELINE.json"))["stable_pass"])
    ok = set()
    for attempt in range(3):
        rc, o = sh("go test -json -vet=off -count=1 ./... 2>/dev/null")
        for l in o.splitlines():
            try:
                e = json.loads(l)
            except Exception:
                continue
            if e.get("Action") == "pass" and e.get("Test"):
                ok.add(e["Package"] + "::" + e["Test"])
        if not (sp - ok):
            break
    res["baseline_missing"] = sorted(sp - ok)
    if not res["passes_without_patch"]:
        res["without_output"] = [o for rc, o in without if rc != 0][:1]
    print(json.dumps(res, indent=1))
finally:
    shutil.rmtree(scratch, ignore_errors=True)
