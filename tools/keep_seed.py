#!/usr/bin/env python3
"""keep_seed.py <Cnn> <N> [verified-note]: copy a verified seeded change from /tmp/seed_<Cnn>/SEED/<N>
into /verif/seeded/<Cnn>-<N>/ (patch.diff, demonstration, demo_cmd.txt, meta.json)."""
import json, os, shutil, sys
pid, n = sys.argv[1], sys.argv[2]
wt = os.environ.get("SRC_WT", pid)  # worktree name when several agents worked on one property (e.g. C20a)
src = "/tmp/seed_%s/SEED/%s" % (wt, n)
dst = "/verif/seeded/%s-%s" % (pid, os.environ.get("KEEP_AS", n))
shutil.rmtree(dst, ignore_errors=True)
os.makedirs(dst)
for f in os.listdir(src):
    p = os.path.join(src, f)
    if f.startswith("out_") or f.startswith("demo_output") or f.startswith("baseline_"):
        continue
    if os.path.isdir(p):
        shutil.copytree(p, os.path.join(dst, f))
    else:
        shutil.copy(p, dst)
# demonstration files must not be picked up by `go test ./...` of anything: they live outside any module here
meta = {}
try:
    meta = json.load(open(os.path.join(src, "meta.json")))
except Exception:
    pass
ver = {}
vf = "/tmp/x/vs_%s_%s.json" % (wt, n)
if os.path.exists(vf):
    v = json.load(open(vf))
    ver = {k: v.get(k) for k in ("patch_applies", "builds", "passes_without_patch", "fails_with_patch", "baseline_missing", "tests")}
out = dict(property=pid, seed="%s-%s" % (pid, os.environ.get("KEEP_AS", n)), summary=meta.get("summary"), needs_to_manifest=meta.get("needs_to_manifest"),
           author="independent sub-agent given only the property text and a scratch worktree",
           confirmed_by_me=dict(how="tools/verify_seed.py in a scratch copy of /repo HEAD (patch applies, builds, demonstration passes without / fails with the patch, 131 baseline tests pass with it)" + (" ; " + sys.argv[3] if len(sys.argv) > 3 else ""), **ver),
           agent_meta=meta)
json.dump(out, open(os.path.join(dst, "meta.json"), "w"), indent=1)
print("kept", dst)
