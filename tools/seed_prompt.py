#!/usr/bin/env python3
"""seed_prompt.py <Cnn> : print the task text given to an independent seeding sub-agent
(only the property's text and the path of its own scratch worktree; nothing from /verif)."""
import json, sys
pid = sys.argv[1]
p = {json.loads(l)['id']: json.loads(l) for l in open('/verif/properties.jsonl')}[pid]
prop = f"""Property {pid}: {p['title']}
Statement: {p['statement']}
Quantifier: {p['quantifier']['text']}
Code the property is anchored in: {', '.join(p['anchors']['files'])}
"""
import os
WT = os.environ.get("SEED_WT", pid)   # worktree name /tmp/seed_<WT> (several agents may work on one property)
FOCUS = os.environ.get("SEED_FOCUS", "")  # optional extra paragraph: where / what kind of change is wanted in this round
hint = " (prefer mechanisms that are NOT the first thing that comes to mind: think about rarely taken branches, state carried across reconnects, buffer boundaries, error paths, ordering between two goroutines, interactions between two features)" if len(sys.argv) > 2 else ""
print(f"""You are a careful Go engineer helping to evaluate a verification effort. Your task is to SEED realistic defects into a copy of the Go library mdzio/go-mqtt (an in-memory MQTT 3.1.1 broker and client library: packet codec in message/, broker/client engine in service/, sessions/, topics/).

Your private working copy is the git worktree /tmp/seed_{WT} (the library at its current commit). Work ONLY inside /tmp/seed_{WT}. Do NOT read, list or modify anything under /verif, and do NOT modify /repo. Do not run `git commit`. Every shell call must begin with: `export GOFLAGS=-mod=mod GOPROXY=off GOSUMDB=off GOTOOLCHAIN=local` (there is no network; the environment does not persist between calls). Go is 1.23.

The property to break:

{prop}
{FOCUS}Produce TWO different changes{hint} to the library source (different mechanisms, different code sites where possible), each of which:
 1. makes the library VIOLATE the property above (observable through the library's API / wire behaviour as the statement describes it);
 2. still compiles (`go build ./...` and `go vet ./message ./service ./sessions ./topics` need not be clean, but build must pass) and still passes the existing test suite: the 131 tests listed in /root/.vp/BASELINE.json under "stable_pass" must still pass (`cd /tmp/seed_{WT} && go test -json -vet=off -count=1 ./... 2>/dev/null` and compare the passing test names with that list; tests listed under "always_fail" fail already; `service::TestServiceConnectAuthError` is flaky at baseline because other tests race for TCP port 1883 - rerun if only that one is missing);
 3. is REALISTIC and SUBTLE: something a maintainer could plausibly introduce (an optimisation, a refactoring slip, an off-by-one, a dropped or reordered synchronisation step, a wrong boundary, a stale cache, a copy replaced by a reference, ...), and that needs something SPECIFIC to manifest - a particular interleaving, a fault at a particular point, a multi-step sequence of operations, an unusual but valid input (a boundary length, a rare flag combination, many items, a wrap-around), or two cooperating sites that each look fine alone. Changes that ordinary use would expose at once (e.g. every publish lost) are NOT wanted.
 4. comes with a DEMONSTRATION: a Go test file (preferred: an in-package `_test.go` you add to the relevant package, or an external test/main program in its own directory inside the worktree) that FAILS with your change applied and PASSES on the unmodified library. Run it both ways yourself (use `git stash` / `git diff > file; git checkout -- <files>; ...; git apply file` to switch) and record the outputs. The library has a build tag `verif` (see service/verif_on.go) exposing test hooks such as `(*Server).VerifServe(net.Conn)`, `VerifNewBuffer`, yield/event handlers; you may use them in the demonstration (run with `-tags verif`) - driving a real broker over net.Pipe via VerifServe is the easiest way to show broker-level effects. Keep each demonstration deterministic if at all possible (if it needs a schedule, force it with the hooks or with retries and state the hit rate).

Deliver, for change N in {{1,2}}, the directory /tmp/seed_{WT}/SEED/N/ containing:
  - patch.diff   : `git diff` of the library source change ONLY (no demo files, no SEED files); it must apply with `git apply` to a clean checkout;
  - the demonstration file(s) (copies), plus demo_cmd.txt with the exact command(s) to run it from the worktree root and where the demo file must be placed;
  - meta.json    : {{"property": "{pid}", "summary": "...what was changed...", "needs_to_manifest": "...what specific input / sequence / interleaving is needed...", "demo_fails_with_patch": "<last lines of output>", "demo_passes_without_patch": true, "baseline_still_passes": true}}.
Leave the worktree itself CLEAN of your library modifications at the end (git checkout the modified library files) - only the SEED directory and nothing else should remain as untracked content.

Your final message: for each change, 5-10 lines: what the change is, why it breaks the property, what it needs to manifest, how the demo shows it, and confirmation of the three runs (demo fails with patch, demo passes without, baseline tests pass with patch).""")
