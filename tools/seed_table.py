#!/usr/bin/env python3
"""Run every seeded change (seeded/<Cnn>-<n>/patch.diff) against the quick check of its own
property (and optionally extra checks) through tools/seedrun.sh; record the outcome in
seeded/<id>/meta.json ("detection") and write seeded/RESULTS.md."""
import json, os, re, subprocess, sys
from concurrent.futures import ThreadPoolExecutor
ROOT = os.path.dirname(os.path.dirname(os.path.abspath(__file__)))
seeds = sorted(d for d in os.listdir(os.path.join(ROOT, "seeded")) if re.match(r"C\d+-\d+$", d))
tier = os.environ.get("TIER", "quick")
def run(s):
    prop = s.split("-")[0]
    out = subprocess.run([os.path.join(ROOT, "tools", "seedrun.sh"), os.path.join(ROOT, "seeded", s), prop],
                         stdout=subprocess.PIPE, stderr=subprocess.STDOUT, text=True, env=dict(os.environ, TIER=tier)).stdout
    line = next((l for l in out.splitlines() if l.startswith("SEED")), out[-300:])
    m = re.search(r"rc=(\d+) :: (.*)", line)
    rc, msg = (int(m.group(1)), m.group(2).strip()) if m else (-1, line)
    return s, prop, rc, msg
only = os.environ.get("ONLY")  # regex: run only these seeds, take the others' outcome from their meta.json
def stored(s):
    d = json.load(open(os.path.join(ROOT, "seeded", s, "meta.json"))).get("detection") or {}
    return s, s.split("-")[0], d.get("exit_code", -1), d.get("first_line", "(not run yet)")
with ThreadPoolExecutor(max_workers=int(os.environ.get("PAR", "4"))) as ex:
    results = list(ex.map(lambda s: run(s) if not only or re.search(only, s) else stored(s), seeds))
rows = []
for s, prop, rc, msg in results:
    mp = os.path.join(ROOT, "seeded", s, "meta.json")
    meta = json.load(open(mp))
    if meta.get("superseded_by"):
        rows.append((s, prop, "n/a", (meta.get("summary") or "")[:110].replace("|", "/").replace("\n", " "), "no longer a breaking change: " + meta["superseded_by"][:150].replace("|", "/")))
        continue
    meta["detection"] = dict(check=prop, tier=tier, exit_code=rc, caught=(rc == 1), first_line=msg[:400],
                             how="tools/seedrun.sh: patch applied to a scratch copy of /repo (VERIF_REPO), never to /repo itself")
    json.dump(meta, open(mp, "w"), indent=1)
    rows.append((s, prop, "caught" if rc == 1 else ("MISSED" if rc == 0 else "rc=%d" % rc), (meta.get("summary") or "")[:110].replace("|", "/").replace("\n", " "), msg[:140].replace("|", "/")))
caught = sum(1 for r in rows if r[2] == "caught")
live = [r for r in rows if r[2] != "n/a"]
with open(os.path.join(ROOT, "seeded", "RESULTS.md"), "w") as f:
    f.write("# Seeded changes vs. the %s tier of the property's own check\n\n%d of %d caught (%d seeded changes neutralised by a later repair are listed as n/a).\n\n| seed | check | result | what the change is | first line of the check's report |\n|---|---|---|---|---|\n" % (tier, caught, len(live), len(rows) - len(live)))
    for r in rows:
        f.write("| %s | %s | %s | %s | %s |\n" % r)
print("%d of %d caught" % (caught, len(live)))
for r in rows:
    if r[2] not in ("caught", "n/a"):
        print(r)
