#!/usr/bin/env python3
"""Run baseline_off.sh and compare with BASELINE.json's stable_pass list.
service::TestServiceConnectAuthError is flaky at the pinned commit already
(10 of 12 runs pass there: the package's always-failing tests race for TCP
port 1883), so missing tests are retried up to 3 times."""
import json, subprocess, sys
sp = set(json.load(open("/root/.vp/BASELINE.json"))["stable_pass"])
ok = set()
for attempt in range(3):
    out = subprocess.run(["/verif/baseline_off.sh"], stdout=subprocess.PIPE, stderr=subprocess.DEVNULL, text=True).stdout
    for l in out.splitlines():
        try:
            e = json.loads(l)
        except Exception:
            continue
        if e.get("Action") == "pass" and e.get("Test"):
            ok.add(e["Package"] + "::" + e["Test"])
    if not (sp - ok):
        break
missing = sorted(sp - ok)
print("baseline: %d of %d stable tests pass (attempts: %d)" % (len(sp) - len(missing), len(sp), attempt + 1), missing)
sys.exit(1 if missing else 0)
