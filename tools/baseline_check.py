#!/usr/bin/env python3
"""Run baseline_off.sh and compare with BASELINE.json's stable_pass list."""
import json, subprocess, sys
out = subprocess.run(["/verif/baseline_off.sh"], stdout=subprocess.PIPE, stderr=subprocess.DEVNULL, text=True).stdout
ok = set()
for l in out.splitlines():
    try:
        e = json.loads(l)
    except Exception:
        continue
    if e.get("Action") == "pass" and e.get("Test"):
        ok.add(e["Package"] + "::" + e["Test"])
sp = set(json.load(open("/root/.vp/BASELINE.json"))["stable_pass"])
missing = sorted(sp - ok)
print("baseline: %d of %d stable tests pass" % (len(sp) - len(missing), len(sp)), missing)
sys.exit(1 if missing else 0)
