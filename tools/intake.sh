#!/bin/bash
# intake.sh <Cnn> <worktree-suffix> : confirm both seeded changes of /tmp/seed_<wt> in a scratch copy
# (tools/verify_seed.py), keep the confirmed ones as seeded/<Cnn>-<next free number>/ and run the
# property's quick check against each (tools/seedrun.sh). One summary line per seed.
pid=$1; wt=$2
cd "$(dirname "$0")/.."
mkdir -p /tmp/x
for n in 1 2; do
  [ -d /tmp/seed_$wt/SEED/$n ] || { echo "INTAKE $pid/$wt/$n: no SEED/$n"; continue; }
  python3 tools/verify_seed.py /tmp/seed_$wt $n > /tmp/x/vs_${wt}_$n.json 2>/tmp/x/vs_${wt}_$n.err
  ok=$(python3 - <<E
import json
try:
    d=json.load(open("/tmp/x/vs_${wt}_$n.json"))
    print("ok" if d.get("patch_applies") and d.get("builds") and d.get("passes_without_patch") and d.get("fails_with_patch") and not d.get("baseline_missing") else "no: "+json.dumps({k:d.get(k) for k in ("patch_applies","builds","passes_without_patch","fails_with_patch","baseline_missing","tests","cps")})[:600])
except Exception as e:
    print("no: verify_seed gave no result:", e)
E
)
  if [ "$ok" != ok ]; then echo "INTAKE $pid/$wt/$n: NOT CONFIRMED $ok"; continue; fi
  k=1; while [ -d seeded/$pid-$k ]; do k=$((k+1)); done
  SRC_WT=$wt KEEP_AS=$k python3 tools/keep_seed.py $pid $n "${ROUND:-round 10}" >/dev/null
  echo "INTAKE $pid/$wt/$n: confirmed, kept as seeded/$pid-$k"
  tools/seedrun.sh /verif/seeded/$pid-$k $pid
done
