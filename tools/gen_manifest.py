#!/usr/bin/env python3
"""Regenerate MANIFEST.json from checks_config.py (claimed checks) and
properties.jsonl (everything else goes to not_applicable with its reason)."""
import json, os, sys, subprocess
ROOT = os.path.dirname(os.path.dirname(os.path.abspath(__file__)))
sys.path.insert(0, ROOT)
from checks_config import CHECKS, NOT_CLAIMED
props = [json.loads(l) for l in open(os.path.join(ROOT, "properties.jsonl"))]
hook_commits = subprocess.run(["git", "-C", "/repo", "log", "--format=%H %s"], stdout=subprocess.PIPE, text=True).stdout.splitlines()
hook_commits = [l.split()[0] for l in hook_commits if l.split(" ", 1)[1].startswith("verif hooks")]
checks = []
na = []
for p in props:
    pid = p["id"]
    if pid in CHECKS:
        c = CHECKS[pid]
        checks.append(dict(
            property_id=pid,
            quick_cmd="./check %s --tier quick" % pid,
            thorough_cmd="./check %s --tier thorough" % pid,
            evidence_file="/verif/evidence/%s.json" % pid,
            replay_cmd_template="./check %s --replay {path}" % pid,
            engine="harness",
            level_claimed=dict(category=c["level"], text=c["level_text"], design_ref=c.get("design_ref", "DESIGN.md section 4, " + pid)),
            level_note=c["level_note"],
            technique=c["technique"]))
    else:
        na.append(dict(property_id=pid, reason=NOT_CLAIMED.get(pid, "check not built yet in this session; see DESIGN.md section 8 for the order of work")))
m = dict(
    version=1,
    setup_cmd="./setup.sh",
    hooks=dict(guard="verif (Go build tag)", enable="go test -c -tags verif (done by ./check for every run, from /repo's working tree)",
               baseline_off_cmd="./baseline_off.sh", source_commits=hook_commits, add_only=True),
    engines=[dict(name="harness", path="/verif/harness", serves_properties=sorted(CHECKS),
                  kind_free_text="Go module of property-based tests (pgregory.net/rapid v1.3.0 generators + shrinking, small-scope exhaustive enumerations, native go fuzzing in thorough tiers) with independent reference models as oracles; driven by /verif/check")],
    checks=checks,
    notes="All checks: ./check <id> [--tier quick|thorough] [--replay FILE]; VERIF_SEED selects the PRNG values; exit 0 held / 1 violation / 2 harness trouble. Known findings: KNOWN_FINDINGS.txt.",
    not_applicable=na)
json.dump(m, open(os.path.join(ROOT, "MANIFEST.json"), "w"), indent=1)
print("claimed:", [c["property_id"] for c in checks], "not claimed:", len(na))
