#!/bin/bash
# Run every claimed check once (tier from $1, default quick) and summarise.
tier=${1:-quick}
cd "$(dirname "$0")/.."
ids=$(python3 -c "from checks_config import CHECKS; print(' '.join(sorted(CHECKS)))")
rc_all=0
for id in $ids; do
  out=$(./check $id --tier $tier 2>&1); rc=$?
  echo "$id rc=$rc $(echo "$out" | grep -v KNOWN-FINDING | tail -1 | cut -c1-200)"
  if [ "$tier" = thorough ]; then mkdir -p evidence_thorough; cp evidence/$id.json evidence_thorough/$id.json 2>/dev/null; fi
  [ $rc -ne 0 ] && rc_all=1
done
exit $rc_all
