#!/usr/bin/env python3
"""mutate.py <n> [rng-seed] : automatic mutation run.

Draws n single-site mutants of the library (scratch copies of /repo's HEAD,
never /repo itself), keeps those that compile, runs the quick checks that are
relevant to the mutated file against each (through VERIF_REPO) and, for the
mutants no check reports, the repository's own 131 baseline tests. Appends one
JSON line per mutant to /verif/seeded/MUTATION_RUN.jsonl:
  killed-by-check <Cnn> | killed-by-baseline | survivor | does-not-build
A survivor (compiles, passes the baseline, no check reports it) has to be looked
at by hand: equivalent within the properties' domain, or a gap."""
import json, os, random, re, shutil, subprocess, sys, tempfile

N = int(sys.argv[1])
rng = random.Random(int(sys.argv[2]) if len(sys.argv) > 2 else 1)
ENV = dict(os.environ, GOFLAGS="-mod=mod", GOPROXY="off", GOSUMDB="off", GOTOOLCHAIN="local")
OUT = "/verif/seeded/MUTATION_RUN.jsonl"
# the checks run from a frozen copy of the machinery, so /verif can be edited meanwhile
SNAP = tempfile.mkdtemp(prefix="vsnap_", dir="/tmp")
for item in ("check", "checks_config.py", "harness", "KNOWN_FINDINGS.txt", "replays", "properties.jsonl"):
    src = os.path.join("/verif", item)
    (shutil.copytree if os.path.isdir(src) else shutil.copy)(src, os.path.join(SNAP, item))
OPSET = os.environ.get("MUT_OPS", "all")

BROKER = ["C01", "C16", "C09", "C07", "C08", "C10", "C02", "C12", "C17", "C05", "C11", "C20", "C18", "C19"]
FILES = {  # file -> checks tried in this order
    "service/buffer.go": ["C14", "C15", "C17", "C16", "C05"],
    "service/sendrecv.go": ["C17", "C01", "C14", "C19", "C16", "C05", "C02", "C12", "C20", "C09", "C11"],
    "service/process.go": BROKER,
    "service/service.go": BROKER,
    "service/server.go": ["C11", "C01", "C10", "C09", "C16", "C05", "C18", "C12", "C08"],
    "service/misc.go": ["C11", "C20", "C05", "C01"],
    "service/client.go": ["C20", "C12", "C17", "C02"],
    "sessions/ackqueue.go": ["C13", "C02", "C12", "C17", "C01"],
    "sessions/session.go": ["C10", "C09", "C13", "C01", "C18"],
    "sessions/memprovider.go": ["C10", "C18", "C11", "C16"],
    "topics/memtopics.go": ["C06", "C07", "C08", "C01", "C18"],
    "topics/topics.go": ["C06", "C01", "C07", "C18"],
    "message/header.go": ["C03", "C04", "C01"],
    "message/message.go": ["C03", "C04"],
    "message/connect.go": ["C03", "C04", "C11", "C09"],
    "message/connack.go": ["C03", "C04", "C20"],
    "message/publish.go": ["C03", "C04", "C01", "C02"],
    "message/subscribe.go": ["C03", "C04", "C07"],
    "message/suback.go": ["C03", "C04", "C07"],
    "message/unsubscribe.go": ["C03", "C04", "C07"],
    "message/puback.go": ["C03", "C04", "C02"],
    "message/disconnect.go": ["C03", "C04", "C09"],
}

OPS = [
    (r"<=", "<"), (r">=", ">"), (r"(?<![<>=!])<(?![<=-])", "<="), (r"(?<![<>=!-])>(?![>=])", ">="),
    (r"==", "!="), (r"!=", "=="), (r"&&", "||"), (r"\|\|", "&&"),
    (r"\+ 1\b", "+ 2"), (r"- 1\b", "- 0"), (r"\+\+", "--"), (r"\btrue\b", "false"), (r"\bfalse\b", "true"),
    (r"\+=", "-="), (r"-=", "+="),
]
OPS2 = [  # second operator family: constants, early returns, dropped assignments, negated conditions
    (r"\breturn err\b", "return nil"), (r"\bbreak\b", "continue"), (r"\bcontinue\b", "break"),
    (r"\b0x80\b", "0x40"), (r"\b0x7f\b", "0xff"), (r"\b65535\b", "65534"), (r"\b0xffff\b", "0xfffe"),
    (r"(?<![\w.])2\b(?!\s*\*)", "3"), (r"(?<![\w.])3\b", "2"), (r"(?<![\w.\[])0\b(?![x.])", "1"), (r"(?<![\w.])1\b(?![.])", "0"),
    (r"\bif (?!err\b)([^{;]+) \{", None),  # negate the whole condition
]
if OPSET == "2":
    OPS = OPS2
elif OPSET == "all":
    OPS = OPS + OPS2


def candidates(path):
    src = open(path).read().split("\n")
    out = []
    depth_comment = False
    for i, line in enumerate(src):
        s = line.strip()
        if s.startswith("/*"):
            depth_comment = True
        if depth_comment:
            if "*/" in s:
                depth_comment = False
            continue
        if not s or s.startswith("//") or s.startswith("import") or s.startswith("package") or "verifYield" in s or "verifEvent" in s or "log." in s or "fmt.Errorf" in s or "errors.New" in s:
            continue
        code = line.split("//")[0]
        for pat, rep in OPS:
            for m in re.finditer(pat, code):
                # skip matches inside string literals (rough: odd number of quotes before)
                if code[:m.start()].count('"') % 2 == 1 or code[:m.start()].count("'") % 2 == 1 or code[:m.start()].count("`") % 2 == 1:
                    continue
                if rep is None:
                    out.append((i, m.start(), m.end(), "if !(%s) {" % m.group(1), "negate condition"))
                    continue
                out.append((i, m.start(), m.end(), rep, "op %s -> %s" % (m.group(0), rep)))
        # statement deletion: a call statement on its own line (no assignment, no control flow)
        if re.match(r"^[A-Za-z_][A-Za-z0-9_.]*(\([^()]*\))?(\.[A-Za-z_][A-Za-z0-9_]*)*\(.*\)$", s) and not s.startswith(("return", "defer", "go ", "if", "for", "switch", "func", "panic")):
            out.append((i, 0, len(line), "", "delete statement"))
        # dropped assignment to a field or element (a plain `x = y` mostly stops compiling)
        if OPSET != "1" and re.match(r"^[A-Za-z_][\w.\[\]]*[.\[][\w.\[\]]* = [^=].*$", s) and not s.endswith("{"):
            out.append((i, 0, len(line), "", "delete assignment"))
    return src, out


def sh(cmd, cwd, timeout=1800):
    p = subprocess.run(cmd, shell=True, cwd=cwd, env=ENV, stdout=subprocess.PIPE, stderr=subprocess.STDOUT, text=True, timeout=timeout)
    return p.returncode, p.stdout


def baseline(cwd):
    sp = set(json.load(open("/root/.vp/BASELINE.json"))["stable_pass"])
    ok = set()
    for attempt in range(2):
        rc, o = sh("go test -json -vet=off -count=1 -timeout 10m ./... 2>/dev/null", cwd)
        for l in o.splitlines():
            try:
                e = json.loads(l)
            except Exception:
                continue
            if e.get("Action") == "pass" and e.get("Test"):
                ok.add(e["Package"] + "::" + e["Test"])
        if not (sp - ok):
            break
    return sorted(sp - ok)


done = 0
tries = 0
while done < N and tries < 20 * N:
    tries += 1
    rel = rng.choice(list(FILES))
    scratch = tempfile.mkdtemp(prefix="mut_", dir="/tmp")
    try:
        sh("git -C /repo archive HEAD | tar -x -C %s" % scratch, "/")
        path = os.path.join(scratch, rel)
        if not os.path.exists(path):
            continue
        src, cands = candidates(path)
        if not cands:
            continue
        i, a, b, rep, what = rng.choice(cands)
        orig = src[i]
        src[i] = orig[:a] + rep + orig[b:]
        open(path, "w").write("\n".join(src))
        rec = dict(file=rel, line=i + 1, what=what, before=orig.strip(), after=src[i].strip())
        rc, o = sh("go build ./... && go vet ./message ./service ./sessions ./topics ./auth >/dev/null 2>&1; go build ./...", scratch)
        if rc != 0:
            rec["result"] = "does-not-build"
            continue  # not counted
        killed = None
        for c in FILES[rel]:
            pr = subprocess.Popen([SNAP + "/check", c], cwd=SNAP, env=dict(ENV, VERIF_REPO=scratch), stdout=subprocess.PIPE, stderr=subprocess.STDOUT, text=True, start_new_session=True)
            try:
                so, _ = pr.communicate(timeout=600)
                prc = pr.returncode
            except subprocess.TimeoutExpired:
                os.killpg(pr.pid, 9)
                so, _ = pr.communicate()
                prc = 2
            if prc == 1:
                line = next((l for l in so.splitlines() if l.startswith("  ")), "")
                killed, rec["report"] = c, line.strip()[:200]
                break
            if prc == 2:
                rec.setdefault("trouble", []).append(c)
        if killed:
            rec["result"] = "killed-by-check " + killed
        else:
            missing = baseline(scratch)
            if missing:
                rec["result"], rec["baseline_missing"] = "killed-by-baseline", missing[:5]
            else:
                rec["result"] = "survivor"
        done += 1
        with open(OUT, "a") as f:
            f.write(json.dumps(rec) + "\n")
        print(done, rec["result"], rel, i + 1, what, flush=True)
    finally:
        shutil.rmtree(scratch, ignore_errors=True)
        tag = re.sub(r"[^A-Za-z0-9]", "_", scratch)
        shutil.rmtree(SNAP + "/.build", ignore_errors=True)
shutil.rmtree(SNAP, ignore_errors=True)
