#!/bin/bash
# usage: seedrun.sh <dir-with-patch.diff> <check> [<check>...]   [env TIER=quick|thorough]
# Applies the patch to a scratch copy of /repo (never to /repo itself) and
# runs the given checks against it through VERIF_REPO. Prints one line per check.
d=$1; shift
name=$(echo "$d" | tr '/' '_' | tr -cd 'A-Za-z0-9_')
tier=${TIER:-quick}
rm -rf /tmp/m/$name && mkdir -p /tmp/m && cp -r /repo /tmp/m/$name && rm -rf /tmp/m/$name/.git
if ! (cd /tmp/m/$name && patch -p1 -s --no-backup-if-mismatch < "$d/patch.diff"); then echo "SEED $d: patch does not apply"; rm -rf /tmp/m/$name; exit 3; fi
if ! (cd /tmp/m/$name && GOFLAGS=-mod=mod GOPROXY=off GOSUMDB=off GOTOOLCHAIN=local go build ./... 2>&1 | head -3); then :; fi
for c in "$@"; do
  out=$(cd /verif && VERIF_REPO=/tmp/m/$name ./check $c --tier $tier 2>&1)
  rc=$?
  echo "SEED $d check=$c tier=$tier rc=$rc :: $(echo "$out" | grep -v KNOWN-FINDING | grep -A1 VIOLATION | tail -1 | cut -c1-260)$(echo "$out" | grep -v KNOWN-FINDING | grep '^OK\|TROUBLE' | head -1 | cut -c1-160)"
done
rm -rf /tmp/m/$name /verif/.build/bin/*tmp_m_$name* 2>/dev/null
